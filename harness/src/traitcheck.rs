//! rustc's own Send / Sync verdicts for the crate's public types over the four classes of
//! message type, decided at compile time by method resolution (an inherent method that exists
//! only when the bound holds shadows a trait method that always exists).
use kanal::*;
use std::cell::Cell;
use std::marker::PhantomData;
use std::rc::Rc;
use std::sync::MutexGuard;

struct Probe<T: ?Sized>(PhantomData<T>);
trait Fallback {
    fn is_send(&self) -> bool {
        false
    }
    fn is_sync(&self) -> bool {
        false
    }
}
impl<T: ?Sized> Fallback for Probe<T> {}
impl<T: ?Sized + Send> Probe<T> {
    fn is_send(&self) -> bool {
        true
    }
}
impl<T: ?Sized + Sync> Probe<T> {
    fn is_sync(&self) -> bool {
        true
    }
}

macro_rules! row {
    ($name:expr, $ty:ty, $ts:expr, $tsy:expr) => {
        println!("{} {} {} {} {}", $name, $ts, $tsy, Probe::<$ty>(PhantomData).is_send(), Probe::<$ty>(PhantomData).is_sync());
    };
}
macro_rules! rows {
    ($t:ty, $ts:expr, $tsy:expr) => {
        // the class representative itself must have the advertised traits
        assert_eq!(Probe::<$t>(PhantomData).is_send(), $ts);
        assert_eq!(Probe::<$t>(PhantomData).is_sync(), $tsy);
        row!("Sender", Sender<$t>, $ts, $tsy);
        row!("AsyncSender", AsyncSender<$t>, $ts, $tsy);
        row!("Receiver", Receiver<$t>, $ts, $tsy);
        row!("AsyncReceiver", AsyncReceiver<$t>, $ts, $tsy);
        row!("SendFuture", SendFuture<'static, $t>, $ts, $tsy);
        row!("ReceiveFuture", ReceiveFuture<'static, $t>, $ts, $tsy);
        row!("ReceiveStream", ReceiveStream<'static, $t>, $ts, $tsy);
    };
}

pub fn main() {
    rows!(u64, true, true);
    rows!(Cell<u8>, true, false);
    rows!(MutexGuard<'static, u8>, false, true);
    rows!(Rc<()>, false, false);
}
