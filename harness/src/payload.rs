//! Tagged payload classes with a drop ledger.
use std::cell::RefCell;

thread_local! {
    /// tags dropped since the ledger was last taken (`None`: a payload that cannot carry a tag)
    pub static DROPS: RefCell<Vec<Option<u32>>> = const { RefCell::new(Vec::new()) };
    pub static WAKES: RefCell<Vec<usize>> = const { RefCell::new(Vec::new()) };
}

pub fn take_drops() -> Vec<Option<u32>> {
    DROPS.with(|d| std::mem::take(&mut *d.borrow_mut()))
}
pub fn take_wakes() -> Vec<usize> {
    WAKES.with(|d| std::mem::take(&mut *d.borrow_mut()))
}
fn record(t: Option<u32>) {
    // try_with: a payload may be dropped during thread teardown
    let _ = DROPS.try_with(|d| d.borrow_mut().push(t));
}

pub trait Payload: Sized + 'static {
    const NAME: &'static str;
    /// payload carries its tag
    const TAGGED: bool;
    /// payload reports its drop
    const DROPPY: bool;
    fn mk(tag: u32) -> Self;
    fn tag(&self) -> Option<u32>;
}

/// 1 byte (< pointer), drop glue
pub struct P1 {
    t: u8,
}
/// 4 bytes (< pointer), drop glue
pub struct P4 {
    t: u32,
}
/// 8 bytes (= pointer), drop glue
pub struct P8 {
    t: u32,
    chk: u32,
}
/// 12 bytes (> pointer, align 4)
pub struct P12 {
    t: u32,
    a: u32,
    b: u32,
}
/// 32 bytes (> pointer), drop glue
pub struct P32 {
    t: u32,
    pad: [u64; 3],
}
/// 16 bytes, over-aligned (> pointer)
#[repr(align(16))]
pub struct P16A {
    t: u32,
}
/// zero-sized, drop glue
pub struct Z;
/// zero-sized, over-aligned, drop glue
#[repr(align(64))]
pub struct AZ;

macro_rules! droppy {
    ($t:ty, $s:ident => $e:expr) => {
        impl Drop for $t {
            fn drop(&mut self) {
                let $s = &*self;
                record($e);
            }
        }
    };
}
droppy!(P1, s => Some(s.t as u32));
droppy!(P4, s => Some(s.t));
droppy!(P8, s => if s.chk == !s.t { Some(s.t) } else { Some(0xdead_0000) });
droppy!(P12, s => if s.a == !s.t && s.b == s.t.rotate_left(7) { Some(s.t) } else { Some(0xdead_0001) });
droppy!(P32, s => if s.pad == [s.t as u64 ^ 0x5555_5555_5555_5555, !(s.t as u64), (s.t as u64) << 17] { Some(s.t) } else { Some(0xdead_0002) });
droppy!(P16A, s => Some(s.t));
droppy!(Z, _s => None);
droppy!(AZ, _s => None);

impl Payload for P1 {
    const NAME: &'static str = "u8";
    const TAGGED: bool = true;
    const DROPPY: bool = true;
    fn mk(tag: u32) -> Self {
        P1 { t: tag as u8 }
    }
    fn tag(&self) -> Option<u32> {
        Some(self.t as u32)
    }
}
impl Payload for P4 {
    const NAME: &'static str = "u32";
    const TAGGED: bool = true;
    const DROPPY: bool = true;
    fn mk(tag: u32) -> Self {
        P4 { t: tag }
    }
    fn tag(&self) -> Option<u32> {
        Some(self.t)
    }
}
impl Payload for P8 {
    const NAME: &'static str = "u64";
    const TAGGED: bool = true;
    const DROPPY: bool = true;
    fn mk(tag: u32) -> Self {
        P8 { t: tag, chk: !tag }
    }
    fn tag(&self) -> Option<u32> {
        if self.chk == !self.t {
            Some(self.t)
        } else {
            Some(0xdead_0000)
        }
    }
}
impl Payload for P12 {
    const NAME: &'static str = "p12";
    const TAGGED: bool = true;
    const DROPPY: bool = true;
    fn mk(tag: u32) -> Self {
        P12 { t: tag, a: !tag, b: tag.rotate_left(7) }
    }
    fn tag(&self) -> Option<u32> {
        if self.a == !self.t && self.b == self.t.rotate_left(7) {
            Some(self.t)
        } else {
            Some(0xdead_0001)
        }
    }
}
impl Payload for P32 {
    const NAME: &'static str = "big";
    const TAGGED: bool = true;
    const DROPPY: bool = true;
    fn mk(tag: u32) -> Self {
        P32 { t: tag, pad: [tag as u64 ^ 0x5555_5555_5555_5555, !(tag as u64), (tag as u64) << 17] }
    }
    fn tag(&self) -> Option<u32> {
        if self.pad == [self.t as u64 ^ 0x5555_5555_5555_5555, !(self.t as u64), (self.t as u64) << 17] {
            Some(self.t)
        } else {
            Some(0xdead_0002)
        }
    }
}
impl Payload for P16A {
    const NAME: &'static str = "a16";
    const TAGGED: bool = true;
    const DROPPY: bool = true;
    fn mk(tag: u32) -> Self {
        P16A { t: tag }
    }
    fn tag(&self) -> Option<u32> {
        if (self as *const Self as usize) % 16 != 0 {
            return Some(0xdead_0003);
        }
        Some(self.t)
    }
}
impl Payload for Z {
    const NAME: &'static str = "zst";
    const TAGGED: bool = false;
    const DROPPY: bool = true;
    fn mk(_tag: u32) -> Self {
        Z
    }
    fn tag(&self) -> Option<u32> {
        None
    }
}
impl Payload for AZ {
    const NAME: &'static str = "azst";
    const TAGGED: bool = false;
    const DROPPY: bool = true;
    fn mk(_tag: u32) -> Self {
        AZ
    }
    fn tag(&self) -> Option<u32> {
        None
    }
}
/// plain u64: no drop glue (the `needs_drop::<T>() == false` paths)
impl Payload for u64 {
    const NAME: &'static str = "plain";
    const TAGGED: bool = true;
    const DROPPY: bool = false;
    fn mk(tag: u32) -> Self {
        tag as u64 | 0xabcd_0000_0000_0000
    }
    fn tag(&self) -> Option<u32> {
        if self >> 32 == 0xabcd_0000 {
            Some(*self as u32)
        } else {
            Some(0xdead_0004)
        }
    }
}
