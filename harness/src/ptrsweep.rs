//! C04 byte-integrity sweep (filled in later).
pub fn main() {
    eprintln!("ptr not built yet");
    std::process::exit(2);
}
