//! H1: interpret call histories on the real crate from one thread and print
//! one canonical line per call (same format as the extracted model's driver).
use crate::payload::*;
use crate::shim;
use futures_core::{FusedStream, Future, Stream};
use kanal::*;
use std::collections::HashMap;
use std::io::{BufRead, Write};
use std::panic::{catch_unwind, AssertUnwindSafe};
use std::pin::Pin;
use std::sync::atomic::{AtomicU64, Ordering};
use std::task::{Context, Poll, RawWaker, RawWakerVTable, Waker};
use std::time::Duration;

// ---------- harness wakers: identity = id, wake() is logged ----------
fn vt_clone(p: *const ()) -> RawWaker {
    RawWaker::new(p, &VTABLE)
}
fn vt_wake(p: *const ()) {
    let _ = WAKES.try_with(|w| w.borrow_mut().push(p as usize));
}
fn vt_drop(_p: *const ()) {}
static VTABLE: RawWakerVTable = RawWakerVTable::new(vt_clone, vt_wake, vt_wake, vt_drop);
pub fn mk_waker(id: usize) -> Waker {
    unsafe { Waker::from_raw(RawWaker::new(id as *const (), &VTABLE)) }
}

enum SH<T> {
    S(Sender<T>),
    A(AsyncSender<T>),
}
enum RH<T> {
    S(Receiver<T>),
    A(AsyncReceiver<T>),
}
impl<T> SH<T> {
    fn sync(&self) -> &Sender<T> {
        match self {
            SH::S(s) => s,
            SH::A(a) => a.as_sync(),
        }
    }
    fn asy(&self) -> &AsyncSender<T> {
        match self {
            SH::S(s) => s.as_async(),
            SH::A(a) => a,
        }
    }
}
impl<T> RH<T> {
    fn sync(&self) -> &Receiver<T> {
        match self {
            RH::S(s) => s,
            RH::A(a) => a.as_sync(),
        }
    }
    fn asy(&self) -> &AsyncReceiver<T> {
        match self {
            RH::S(s) => s.as_async(),
            RH::A(a) => a,
        }
    }
}

enum Fut<T: 'static> {
    Send(Pin<Box<SendFuture<'static, T>>>),
    Recv(Pin<Box<ReceiveFuture<'static, T>>>),
    Stream(Pin<Box<ReceiveStream<'static, T>>>),
}

struct World<T: Payload> {
    // handles are boxed so that futures can borrow them at a stable address
    senders: HashMap<u32, Box<SH<T>>>,
    receivers: HashMap<u32, Box<RH<T>>>,
    futs: HashMap<u32, (Fut<T>, u32)>,
    borrows: HashMap<u32, u32>,
}

pub static PROGRESS: AtomicU64 = AtomicU64::new(0);
pub static CUR_HIST: AtomicU64 = AtomicU64::new(0);
pub static CUR_LABEL: AtomicU64 = AtomicU64::new(0);

fn tagstr(t: Option<u32>) -> String {
    match t {
        Some(t) => t.to_string(),
        None => "_".to_string(),
    }
}
fn list<I: Iterator<Item = String>>(i: I) -> String {
    format!("[{}]", i.collect::<Vec<_>>().join(","))
}
fn serr(e: SendError) -> &'static str {
    match e {
        SendError::Closed => "closed",
        SendError::ReceiveClosed => "recvclosed",
    }
}
fn serrt(e: SendErrorTimeout) -> &'static str {
    match e {
        SendErrorTimeout::Closed => "closed",
        SendErrorTimeout::ReceiveClosed => "recvclosed",
        SendErrorTimeout::Timeout => "timeout",
    }
}
fn rerr(e: ReceiveError) -> &'static str {
    match e {
        ReceiveError::Closed => "closed",
        ReceiveError::SendClosed => "sendclosed",
    }
}
fn rerrt(e: ReceiveErrorTimeout) -> &'static str {
    match e {
        ReceiveErrorTimeout::Closed => "closed",
        ReceiveErrorTimeout::SendClosed => "sendclosed",
        ReceiveErrorTimeout::Timeout => "timeout",
    }
}

/// result text + values handed back to the caller
struct Outcome {
    res: String,
    back: Vec<Option<u32>>,
}
fn oc(res: impl Into<String>) -> Outcome {
    Outcome { res: res.into(), back: vec![] }
}

impl<T: Payload> World<T> {
    fn new(cap: &str, flavor: &str) -> Self {
        let mut w = World { senders: HashMap::new(), receivers: HashMap::new(), futs: HashMap::new(), borrows: HashMap::new() };
        if flavor == "S" {
            let (s, r) = if cap == "U" { unbounded::<T>() } else { bounded::<T>(cap.parse().unwrap()) };
            w.senders.insert(0, Box::new(SH::S(s)));
            w.receivers.insert(1, Box::new(RH::S(r)));
        } else {
            let (s, r) = if cap == "U" { unbounded_async::<T>() } else { bounded_async::<T>(cap.parse().unwrap()) };
            w.senders.insert(0, Box::new(SH::A(s)));
            w.receivers.insert(1, Box::new(RH::A(r)));
        }
        w
    }

    fn is_borrowed(&self, h: u32) -> bool {
        self.borrows.get(&h).copied().unwrap_or(0) > 0
    }

    /// to_sync / to_async in place (only when nothing borrows the handle)
    fn convert(&mut self, h: u32) {
        if self.is_borrowed(h) {
            return;
        }
        if let Some(b) = self.senders.remove(&h) {
            let n = match *b {
                SH::S(s) => SH::A(s.to_async()),
                SH::A(a) => SH::S(a.to_sync()),
            };
            self.senders.insert(h, Box::new(n));
        } else if let Some(b) = self.receivers.remove(&h) {
            let n = match *b {
                RH::S(s) => RH::A(s.to_async()),
                RH::A(a) => RH::S(a.to_sync()),
            };
            self.receivers.insert(h, Box::new(n));
        }
    }

    fn exec(&mut self, f: &[&str]) -> Outcome {
        let p = |i: usize| -> u32 { f[i].parse().unwrap() };
        let popt = |i: usize| -> Option<u32> { if f[i] == "-" { None } else { Some(f[i].parse().unwrap()) } };
        match f[0] {
            "clone" => {
                let (h, h2) = (p(1), p(2));
                if h2 % 4 == 1 {
                    self.convert(h);
                }
                // flavour of the clone alternates with the new id
                if let Some(s) = self.senders.get(&h) {
                    let n = match (&**s, h2 % 2 == 0) {
                        (SH::S(s), true) => SH::S(s.clone()),
                        (SH::S(s), false) => SH::A(s.clone_async()),
                        (SH::A(a), true) => SH::A(a.clone()),
                        (SH::A(a), false) => SH::S(a.clone_sync()),
                    };
                    self.senders.insert(h2, Box::new(n));
                } else if let Some(r) = self.receivers.get(&h) {
                    let n = match (&**r, h2 % 2 == 0) {
                        (RH::S(s), true) => RH::S(s.clone()),
                        (RH::S(s), false) => RH::A(s.clone_async()),
                        (RH::A(a), true) => RH::A(a.clone()),
                        (RH::A(a), false) => RH::S(a.clone_sync()),
                    };
                    self.receivers.insert(h2, Box::new(n));
                } else {
                    return oc("invalid");
                }
                oc("unit")
            }
            "droph" => {
                let h = p(1);
                if self.is_borrowed(h) {
                    return oc("invalid");
                }
                if self.senders.remove(&h).is_none() && self.receivers.remove(&h).is_none() {
                    return oc("invalid");
                }
                oc("unit")
            }
            "close" => {
                let h = p(1);
                let r = if let Some(s) = self.senders.get(&h) {
                    match &**s {
                        SH::S(s) => s.close(),
                        SH::A(a) => a.close(),
                    }
                } else if let Some(r) = self.receivers.get(&h) {
                    match &**r {
                        RH::S(s) => s.close(),
                        RH::A(a) => a.close(),
                    }
                } else {
                    return oc("invalid");
                };
                oc(if r.is_ok() { "ok" } else { "err:closed" })
            }
            "obs" => {
                let h = p(1);
                macro_rules! obs {
                    ($x:expr, $disc:expr, $term:expr) => {
                        match f[2] {
                            "len" => format!("n:{}", $x.len()),
                            "isempty" => format!("b:{}", $x.is_empty()),
                            "isfull" => format!("b:{}", $x.is_full()),
                            "capacity" => format!("n:{}", $x.capacity()),
                            "isbounded" => format!("b:{}", $x.is_bounded()),
                            "sendercount" => format!("n:{}", $x.sender_count()),
                            "receivercount" => format!("n:{}", $x.receiver_count()),
                            "isclosed" => format!("b:{}", $x.is_closed()),
                            "isdisconnected" => format!("b:{}", $disc),
                            "isterminated" => $term,
                            _ => "invalid".to_string(),
                        }
                    };
                }
                let r = if let Some(s) = self.senders.get(&h) {
                    match &**s {
                        SH::S(s) => obs!(s, s.is_disconnected(), "invalid".to_string()),
                        SH::A(s) => obs!(s, s.is_disconnected(), "invalid".to_string()),
                    }
                } else if let Some(r) = self.receivers.get(&h) {
                    match &**r {
                        RH::S(s) => obs!(s, s.is_disconnected(), format!("b:{}", s.is_terminated())),
                        RH::A(s) => obs!(s, s.is_disconnected(), format!("b:{}", s.is_terminated())),
                    }
                } else {
                    "invalid".to_string()
                };
                oc(r)
            }
            "send" => {
                let Some(s) = self.senders.get(&p(2)) else { return oc("invalid") };
                match s.sync().send(T::mk(p(3))) {
                    Ok(()) => oc("ok"),
                    Err(e) => oc(format!("err:{}", serr(e))),
                }
            }
            "sendto" => {
                let Some(s) = self.senders.get(&p(2)) else { return oc("invalid") };
                let (d, step) = timing(p(1), false);
                shim::set_clock(0, step);
                match s.sync().send_timeout(T::mk(p(3)), Duration::from_nanos(d)) {
                    Ok(()) => oc("ok"),
                    Err(e) => oc(format!("err:{}", serrt(e))),
                }
            }
            "sendoptto" => {
                let Some(s) = self.senders.get(&p(2)) else { return oc("invalid") };
                let (d, step) = timing(p(1), false);
                shim::set_clock(0, step);
                let mut o = popt(3).map(T::mk);
                let r = catch_unwind(AssertUnwindSafe(|| s.sync().send_option_timeout(&mut o, Duration::from_nanos(d))));
                let mut out = match r {
                    Ok(Ok(())) => oc("ok"),
                    Ok(Err(e)) => oc(format!("err:{}", serrt(e))),
                    Err(_) => oc("panic"),
                };
                if let Some(v) = o {
                    out.back.push(v.tag());
                    std::mem::forget(v);
                }
                out
            }
            "trysend" | "trysendrt" => {
                let Some(s) = self.senders.get(&p(1)) else { return oc("invalid") };
                let v = T::mk(p(2));
                // alternate between the sync and the async handle's copy of the function
                let r = match (f[0], p(2) % 2 == 0) {
                    ("trysend", true) => s.sync().try_send(v),
                    ("trysend", false) => s.asy().try_send(v),
                    (_, true) => s.sync().try_send_realtime(v),
                    (_, false) => s.asy().try_send_realtime(v),
                };
                match r {
                    Ok(b) => oc(format!("ok:{}", b)),
                    Err(e) => oc(format!("err:{}", serr(e))),
                }
            }
            "trysendopt" | "trysendoptrt" => {
                let Some(s) = self.senders.get(&p(1)) else { return oc("invalid") };
                let mut o = popt(2).map(T::mk);
                let alt = popt(2).unwrap_or(0) % 2 == 0;
                let r = catch_unwind(AssertUnwindSafe(|| match (f[0], alt) {
                    ("trysendopt", true) => s.sync().try_send_option(&mut o),
                    ("trysendopt", false) => s.asy().try_send_option(&mut o),
                    (_, true) => s.sync().try_send_option_realtime(&mut o),
                    (_, false) => s.asy().try_send_option_realtime(&mut o),
                }));
                let mut out = match r {
                    Ok(Ok(b)) => oc(format!("ok:{}", b)),
                    Ok(Err(e)) => oc(format!("err:{}", serr(e))),
                    Err(_) => oc("panic"),
                };
                if let Some(v) = o {
                    out.back.push(v.tag());
                    std::mem::forget(v);
                }
                out
            }
            "recv" => {
                let Some(r) = self.receivers.get(&p(2)) else { return oc("invalid") };
                match r.sync().recv() {
                    Ok(v) => {
                        let t = v.tag();
                        std::mem::forget(v);
                        oc(format!("ok:{}", tagstr(t)))
                    }
                    Err(e) => oc(format!("err:{}", rerr(e))),
                }
            }
            "recvto" => {
                let Some(r) = self.receivers.get(&p(2)) else { return oc("invalid") };
                let (d, step) = timing(p(1), f[3] == "1");
                shim::set_clock(0, step);
                match r.sync().recv_timeout(Duration::from_nanos(d)) {
                    Ok(v) => {
                        let t = v.tag();
                        std::mem::forget(v);
                        oc(format!("ok:{}", tagstr(t)))
                    }
                    Err(e) => oc(format!("err:{}", rerrt(e))),
                }
            }
            "tryrecv" | "tryrecvrt" => {
                let Some(r) = self.receivers.get(&p(1)) else { return oc("invalid") };
                let alt = PROGRESS.load(Ordering::Relaxed) % 2 == 0;
                let x = match (f[0], alt) {
                    ("tryrecv", true) => r.sync().try_recv(),
                    ("tryrecv", false) => r.asy().try_recv(),
                    (_, true) => r.sync().try_recv_realtime(),
                    (_, false) => r.asy().try_recv_realtime(),
                };
                match x {
                    Ok(Some(v)) => {
                        let t = v.tag();
                        std::mem::forget(v);
                        oc(format!("ok:some:{}", tagstr(t)))
                    }
                    Ok(None) => oc("ok:none"),
                    Err(e) => oc(format!("err:{}", rerr(e))),
                }
            }
            "drain" => {
                let Some(r) = self.receivers.get(&p(1)) else { return oc("invalid") };
                // vary the vector: k pre-existing elements, `spare` extra capacity
                let prog = PROGRESS.load(Ordering::Relaxed);
                let k = (prog % 3) as usize;
                let spare = ((prog / 3) % 4) as usize;
                let mut v: Vec<T> = Vec::with_capacity(k + spare);
                for i in 0..k {
                    v.push(T::mk(200 + i as u32));
                }
                let alt = prog % 2 == 0;
                let x = if alt { r.sync().drain_into(&mut v) } else { r.asy().drain_into(&mut v) };
                let mut corrupt = false;
                for i in 0..k.min(v.len()) {
                    if T::TAGGED && v[i].tag() != Some(200 + i as u32) {
                        corrupt = true;
                    }
                }
                if v.len() < k {
                    corrupt = true;
                }
                let taken: Vec<Option<u32>> = v.iter().skip(k).map(|x| x.tag()).collect();
                let out = match x {
                    Ok(n) => oc(format!("drain:{}:{}{}", n, list(taken.iter().map(|t| tagstr(*t))), if corrupt { ":CORRUPT" } else { "" })),
                    Err(e) => oc(format!("err:{}{}", rerr(e), if corrupt || !taken.is_empty() { ":CORRUPT" } else { "" })),
                };
                for x in v.drain(..) {
                    std::mem::forget(x);
                }
                out
            }
            "mksend" => {
                let (fid, h) = (p(1), p(2));
                let Some(s) = self.senders.get(&h) else { return oc("invalid") };
                // Safety: the handle is boxed, and is neither dropped nor converted while borrowed
                let a: &'static AsyncSender<T> = unsafe { &*(s.asy() as *const AsyncSender<T>) };
                let fut = Box::pin(a.send(T::mk(p(3))));
                self.futs.insert(fid, (Fut::Send(fut), h));
                *self.borrows.entry(h).or_insert(0) += 1;
                oc("unit")
            }
            "mkrecv" | "mkstream" => {
                let (fid, h) = (p(1), p(2));
                let Some(r) = self.receivers.get(&h) else { return oc("invalid") };
                let a: &'static AsyncReceiver<T> = unsafe { &*(r.asy() as *const AsyncReceiver<T>) };
                let fut = if f[0] == "mkrecv" { Fut::Recv(Box::pin(a.recv())) } else { Fut::Stream(Box::pin(a.stream())) };
                self.futs.insert(fid, (fut, h));
                *self.borrows.entry(h).or_insert(0) += 1;
                oc("unit")
            }
            "poll" => {
                let Some((fut, _)) = self.futs.get_mut(&p(1)) else { return oc("invalid") };
                let w = mk_waker(p(2) as usize);
                let mut cx = Context::from_waker(&w);
                let r = catch_unwind(AssertUnwindSafe(|| match fut {
                    Fut::Send(f) => match f.as_mut().poll(&mut cx) {
                        Poll::Pending => "pending".to_string(),
                        Poll::Ready(Ok(())) => "ready:ok".to_string(),
                        Poll::Ready(Err(e)) => format!("ready:err:{}", serr(e)),
                    },
                    Fut::Recv(f) => match f.as_mut().poll(&mut cx) {
                        Poll::Pending => "pending".to_string(),
                        Poll::Ready(Ok(v)) => {
                            let t = v.tag();
                            std::mem::forget(v);
                            format!("ready:ok:{}", tagstr(t))
                        }
                        Poll::Ready(Err(e)) => format!("ready:err:{}", rerr(e)),
                    },
                    Fut::Stream(f) => match f.as_mut().poll_next(&mut cx) {
                        Poll::Pending => "pending".to_string(),
                        Poll::Ready(Some(v)) => {
                            let t = v.tag();
                            std::mem::forget(v);
                            format!("some:{}", tagstr(t))
                        }
                        Poll::Ready(None) => "none".to_string(),
                    },
                }));
                match r {
                    Ok(s) => oc(s),
                    Err(_) => oc("panic"),
                }
            }
            "dropf" => {
                let Some((fut, h)) = self.futs.remove(&p(1)) else { return oc("invalid") };
                drop(fut);
                *self.borrows.get_mut(&h).unwrap() -= 1;
                oc("unit")
            }
            "streamterm" => {
                let Some((fut, _)) = self.futs.get(&p(1)) else { return oc("invalid") };
                match fut {
                    Fut::Stream(s) => oc(format!("b:{}", s.is_terminated())),
                    _ => oc("invalid"),
                }
            }
            _ => oc("invalid"),
        }
    }
}

/// (duration, clock step) of a timed call: `early` means the clock is already
/// past the deadline when recv_timeout makes its early test.  Varies with the id.
fn timing(k: u32, early: bool) -> (u64, u64) {
    if early {
        match k % 3 {
            0 => (0, 1),
            1 => (3, 5),
            _ => (0, 1000),
        }
    } else {
        match k % 3 {
            0 => (0, 0),
            1 => (6, 2),
            _ => (5, 5),
        }
    }
}

fn run_history<T: Payload>(cap: &str, flavor: &str, labels: &[String], out: &mut impl Write) {
    take_drops();
    take_wakes();
    let mut w = World::<T>::new(cap, flavor);
    for (i, l) in labels.iter().enumerate() {
        CUR_LABEL.store(i as u64, Ordering::Relaxed);
        PROGRESS.fetch_add(1, Ordering::Relaxed);
        let f: Vec<&str> = l.split(' ').collect();
        let o = w.exec(&f);
        let drops = take_drops();
        let wakes = take_wakes();
        writeln!(
            out,
            "{} d={} w={} b={}",
            o.res,
            list(drops.iter().map(|t| tagstr(*t))),
            list(wakes.iter().map(|t| t.to_string())),
            list(o.back.iter().map(|t| tagstr(*t)))
        )
        .unwrap();
        // a later call may hang or abort: what was observed so far must be visible
        out.flush().unwrap();
    }
    // tear down: futures first, then handles; whatever is dropped here is reported
    // on a trailer line (values still buffered die with the last handle)
    let mut fids: Vec<u32> = w.futs.keys().copied().collect();
    fids.sort();
    for f in fids {
        w.futs.remove(&f);
    }
    let mut hs: Vec<u32> = w.senders.keys().chain(w.receivers.keys()).copied().collect();
    hs.sort();
    for h in hs {
        w.senders.remove(&h);
        w.receivers.remove(&h);
    }
    let mut dl = take_drops();
    dl.sort();
    let drops: Vec<String> = dl.iter().map(|t| tagstr(*t)).collect();
    take_wakes();
    writeln!(out, "T d={}", list(drops.into_iter())).unwrap();
}

pub fn main() {
    kanal::verif::install(Box::new(shim::SeqHandler));
    shim::parallelism_from_env();
    // watchdog: a call that does not return is a hang of the implementation
    let tick: u64 = std::env::var("KV_WATCHDOG_MS").ok().and_then(|v| v.parse().ok()).unwrap_or(200);
    std::thread::spawn(move || {
        let mut last = u64::MAX;
        let mut same = 0;
        loop {
            std::thread::sleep(Duration::from_millis(tick));
            let p = PROGRESS.load(Ordering::Relaxed);
            if p == last {
                same += 1;
                if same >= 3 {
                    // stdout is locked by the main thread: report on stderr and through the exit code
                    eprintln!("HANG history={} label={}", CUR_HIST.load(Ordering::Relaxed), CUR_LABEL.load(Ordering::Relaxed));
                    std::process::exit(3);
                }
            } else {
                same = 0;
                last = p;
            }
        }
    });
    let stdin = std::io::stdin();
    let stdout = std::io::stdout();
    let mut out = std::io::BufWriter::new(stdout.lock());
    let mut header: Option<(String, String, String, String)> = None;
    let mut labels: Vec<String> = vec![];
    for line in stdin.lock().lines() {
        let line = line.unwrap();
        let line = line.trim().to_string();
        if line.is_empty() {
            continue;
        }
        if line.starts_with("H ") {
            let f: Vec<&str> = line.split(' ').collect();
            header = Some((f[1].to_string(), f[2].to_string(), f[3].to_string(), f[4].to_string()));
            labels.clear();
        } else if line == "E" {
            let (hid, cap, cls, flav) = header.clone().unwrap();
            CUR_HIST.store(hid.parse().unwrap_or(0), Ordering::Relaxed);
            writeln!(out, "H {}", hid).unwrap();
            out.flush().unwrap();
            match cls.as_str() {
                "u8" => run_history::<P1>(&cap, &flav, &labels, &mut out),
                "u32" => run_history::<P4>(&cap, &flav, &labels, &mut out),
                "u64" => run_history::<P8>(&cap, &flav, &labels, &mut out),
                "p12" => run_history::<P12>(&cap, &flav, &labels, &mut out),
                "big" => run_history::<P32>(&cap, &flav, &labels, &mut out),
                "a16" => run_history::<P16A>(&cap, &flav, &labels, &mut out),
                "zst" => run_history::<Z>(&cap, &flav, &labels, &mut out),
                "azst" => run_history::<AZ>(&cap, &flav, &labels, &mut out),
                "plain" => run_history::<u64>(&cap, &flav, &labels, &mut out),
                _ => panic!("unknown class"),
            }
            writeln!(out, "E").unwrap();
            out.flush().unwrap();
        } else {
            labels.push(line);
        }
    }
    // let the watchdog die with the process
    PROGRESS.fetch_add(1, Ordering::Relaxed);
}
