//! Handlers installed into kanal's cfg(kanal_verif) shim.
use kanal::verif::{Ev, Handler, Kind};
use std::sync::atomic::{AtomicU64, AtomicUsize, Ordering};

/// H1: single thread, everything passes through, the clock is scripted.
pub struct SeqHandler;

pub static CLOCK: AtomicU64 = AtomicU64::new(0);
pub static CLOCK_STEP: AtomicU64 = AtomicU64::new(0);
pub static NOW_CALLS: AtomicU64 = AtomicU64::new(0);
pub static PARALLELISM: AtomicUsize = AtomicUsize::new(4);

impl Handler for SeqHandler {
    fn op(&self, _vtid: Option<usize>, ev: &Ev, perform: &mut dyn FnMut() -> u64) -> u64 {
        match ev.kind {
            Kind::Now => {
                NOW_CALLS.fetch_add(1, Ordering::Relaxed);
                CLOCK.fetch_add(CLOCK_STEP.load(Ordering::Relaxed), Ordering::Relaxed)
            }
            _ => perform(),
        }
    }
    fn parallelism(&self) -> Option<usize> {
        Some(PARALLELISM.load(Ordering::Relaxed))
    }
    fn virtual_time(&self) -> bool {
        true
    }
}

pub fn set_clock(start: u64, step: u64) {
    CLOCK.store(start, Ordering::Relaxed);
    CLOCK_STEP.store(step, Ordering::Relaxed);
}

pub fn parallelism_from_env() {
    if let Ok(p) = std::env::var("KV_PARALLELISM") {
        if let Ok(p) = p.parse::<usize>() {
            PARALLELISM.store(p, Ordering::Relaxed);
        }
    }
}
