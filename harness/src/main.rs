//! kvharness - correspondence harness between the real kanal crate (built from
//! /repo's working tree with --cfg kanal_verif) and the Coq models.
//!
//!   kvharness h1        < histories   > outputs     sequential API differential (H1)
//!   kvharness h2 ...                                scheduled executions (H2), see h2.rs
//!   kvharness ptr                                   payload byte-integrity sweep (C04)
mod h1;
mod h2;
mod payload;
mod ptrsweep;
mod shim;
mod traitcheck;

fn main() {
    let args: Vec<String> = std::env::args().collect();
    std::panic::set_hook(Box::new(|_| {}));
    match args.get(1).map(|s| s.as_str()) {
        Some("h1") => h1::main(),
        Some("h2") => h2::main(&args[2..]),
        Some("ptr") => ptrsweep::main(),
        Some("traits") => traitcheck::main(),
        _ => {
            eprintln!("usage: kvharness h1|h2|ptr");
            std::process::exit(2);
        }
    }
}
