//! H2: scheduled multi-threaded executions (filled in later).
pub fn main(_args: &[String]) {
    eprintln!("h2 not built yet");
    std::process::exit(2);
}
