//! H2: multi-threaded programs over the real crate under a deterministic scheduler.
//!
//! Exactly one managed thread runs at a time.  Every shim call of the crate (atomics of
//! the lock and of the signals, fences, park / unpark, yield, sleep, clock readings, and
//! the cfg-guarded access markers) is an event: the thread announces it, the scheduler
//! decides who runs next, the real operation is performed, the result is logged.
//!
//! stdin:  program blocks
//!     P <id> <cap> <class> <parallelism>
//!     T <tid> <op> ; <op> ; ...
//!     S <schedule spec>            (one execution per S line)
//!     E
//! schedule spec:  "seq"                       run each thread until it blocks / yields, round robin
//!                 "pre <step>:<tid> ..."      like seq, with forced switches at the given global steps
//!                 "rnd <seed> <permille>"     switch to a random runnable thread with that probability
//!     options appended: "spur=<n>" spurious wake-up of a parked thread after n scheduling rounds,
//!                       "tick=<n>" clock advance per Instant::now() (default 1)
//!                       "hold=<tid>:<step>" the thread is not scheduled before that global step unless nobody else can run
//!                       "limit=<n>" step budget of the execution (default 200000)
//! stdout: per execution
//!     X <program id> <schedule spec>
//!     <step> <tid> <kind> <loc> <a> <b> <ord> <ord2> <result> <file:line>     (events)
//!     <step> <tid> OPB <op> / <step> <tid> OPE <result>                        (call boundaries)
//!     R <tid> <results...>    D <tag>...   (per-thread results, drop ledger)
//!     V ok | V stuck ...
//!     Z
use crate::payload::*;
use futures_core::{Future, Stream};
use kanal::verif::{acc, Ev, Handler, Kind};
use kanal::*;
use std::collections::HashMap;
use std::fmt::Write as _;
use std::io::{BufRead, Write};
use std::pin::Pin;
use std::sync::atomic::{AtomicUsize, Ordering};
use std::sync::{Arc, Condvar, Mutex};
use std::task::{Context, Poll, RawWaker, RawWakerVTable, Waker};
use std::time::Duration;

#[derive(Clone, Copy, PartialEq, Debug)]
enum TS {
    NotStarted,
    Runnable,
    Parked,
    Done,
}

#[derive(Clone)]
enum Policy {
    Seq,
    Pre(Vec<(u64, usize)>),
    Rnd(u64, u64),
}

struct Sched {
    state: Vec<TS>,
    ptoken: Vec<bool>,
    current: usize,
    trace: String,
    clock: u64,
    tick: u64,
    steps: u64,
    policy: Policy,
    rng: u64,
    spur: u64,
    parked_rounds: Vec<u64>,
    stuck: bool,
    /// live signals: (start, end, id, publisher)
    sigs: Vec<(usize, usize, usize)>,
    next_sig: usize,
    locks: HashMap<usize, usize>,
    active: bool,
    limit: u64,
    overrun: bool,
    last_body: String,
    rep: u64,
    /// (thread, step): the thread is not scheduled before that global step unless nobody else can run
    hold: Vec<(usize, u64)>,
}

static SCHED: Mutex<Option<Sched>> = Mutex::new(None);
static CV: Condvar = Condvar::new();
pub static PAR: AtomicUsize = AtomicUsize::new(4);

const NONE: usize = usize::MAX;

impl Sched {
    fn held(&self, i: usize) -> bool {
        self.hold.iter().any(|(t, until)| *t == i && self.steps < *until)
    }
    fn runnable(&self) -> Vec<usize> {
        let r: Vec<usize> = (0..self.state.len()).filter(|&i| self.state[i] == TS::Runnable && !self.held(i)).collect();
        if r.is_empty() {
            (0..self.state.len()).filter(|&i| self.state[i] == TS::Runnable).collect()
        } else {
            r
        }
    }
    fn rand(&mut self) -> u64 {
        self.rng ^= self.rng << 13;
        self.rng ^= self.rng >> 7;
        self.rng ^= self.rng << 17;
        self.rng
    }
    fn next_rr(&self, t: usize) -> Option<usize> {
        let n = self.state.len();
        for d in 1..=n {
            let c = (t + d) % n;
            if self.state[c] == TS::Runnable && !self.held(c) {
                return Some(c);
            }
        }
        for d in 1..=n {
            let c = (t + d) % n;
            if self.state[c] == TS::Runnable {
                return Some(c);
            }
        }
        None
    }
    /// who runs next, at a scheduling point of running thread t about to perform an event of kind k
    fn choose(&mut self, t: usize, k: Kind) -> usize {
        let step = self.steps;
        match self.policy.clone() {
            Policy::Pre(list) => {
                for (s, to) in list {
                    if s == step && to < self.state.len() && self.state[to] == TS::Runnable {
                        return to;
                    }
                }
            }
            Policy::Rnd(_, permille) => {
                if self.rand() % 1000 < permille {
                    let r = self.runnable();
                    if !r.is_empty() {
                        let i = (self.rand() as usize) % r.len();
                        return r[i];
                    }
                }
            }
            Policy::Seq => {}
        }
        // cooperative default: a thread that yields / sleeps lets the next runnable thread go
        if matches!(k, Kind::Yield | Kind::Sleep) {
            if let Some(c) = self.next_rr(t) {
                return c;
            }
        }
        t
    }
    fn loc_of(&mut self, ev: &Ev) -> String {
        match ev.kind {
            Kind::Access => match self.sig_of(ev.addr) {
                Some(id) => format!("S{}", id),
                None => "S?".to_string(),
            },
            Kind::Load | Kind::Store | Kind::Cas => {
                if ev.width == 1 {
                    let n = self.locks.len();
                    let id = *self.locks.entry(ev.addr).or_insert(n);
                    format!("L{}", id)
                } else {
                    match self.sig_of(ev.addr) {
                        Some(id) => format!("S{}", id),
                        None => "S?".to_string(),
                    }
                }
            }
            _ => "-".to_string(),
        }
    }
    fn sig_of(&self, addr: usize) -> Option<usize> {
        self.sigs.iter().rev().find(|(s, e, _)| addr >= *s && addr < *e).map(|x| x.2)
    }
}

fn kind_name(k: Kind) -> &'static str {
    match k {
        Kind::Load => "LOAD",
        Kind::Store => "STORE",
        Kind::Cas => "CAS",
        Kind::Fence => "FENCE",
        Kind::Park => "PARK",
        Kind::Unpark => "UNPARK",
        Kind::Yield => "YIELD",
        Kind::Sleep => "SLEEP",
        Kind::Now => "NOW",
        Kind::Access => "ACC",
    }
}

fn acc_name(a: u64) -> &'static str {
    match a as u8 {
        acc::CS_ENTER => "cs_enter",
        acc::SLOT_READ => "slot_read",
        acc::SLOT_WRITE => "slot_write",
        acc::WAKER_READ => "waker_read",
        acc::WAKER_WRITE => "waker_write",
        acc::SIG_PUBLISH => "publish",
        acc::SIG_END => "end",
        acc::WAKE_CALL => "wake_call",
        acc::CS_EXIT => "cs_exit",
        acc::WAKER_KIND => "waker_kind",
        acc::CLAIM => "claim",
        acc::CANCEL_OK => "cancel_ok",
        acc::CANCEL_FAIL => "cancel_fail",
        acc::STILL_LISTED => "still_listed",
        acc::NOT_LISTED => "not_listed",
        _ => "other",
    }
}

/// block until thread t is the current one
fn wait_turn<'a>(mut g: std::sync::MutexGuard<'a, Option<Sched>>, t: usize) -> std::sync::MutexGuard<'a, Option<Sched>> {
    while g.as_ref().map(|s| s.current != t && !s.stuck).unwrap_or(false) {
        g = CV.wait(g).unwrap();
    }
    g
}

fn hand_over(s: &mut Sched, to: usize) {
    s.current = to;
    CV.notify_all();
}

/// the running thread t cannot go on (parked without token, or finished): pick someone else
fn yield_blocked(s: &mut Sched, t: usize) {
    // spurious wake-ups: a parked thread may be chosen although nobody unparked it
    if let Some(c) = s.next_rr(t) {
        hand_over(s, c);
        return;
    }
    if s.spur > 0 {
        // nobody is runnable: wake a parked thread spuriously if the schedule allows it
        if let Some(p) = (0..s.state.len()).find(|&i| s.state[i] == TS::Parked) {
            s.spur -= 1;
            s.state[p] = TS::Runnable;
            let _ = writeln!(s.trace, "{} {} SPURIOUS - 0 0 - - 0 -", s.steps, p);
            s.last_body.clear();
            hand_over(s, p);
            return;
        }
    }
    if s.state.iter().all(|x| *x == TS::Done) {
        hand_over(s, NONE);
        return;
    }
    // every live thread is parked and nobody can wake them: the execution is stuck
    s.stuck = true;
    s.current = NONE;
    CV.notify_all();
}

pub struct SchedHandler;

impl Handler for SchedHandler {
    fn op(&self, vtid: Option<usize>, ev: &Ev, perform: &mut dyn FnMut() -> u64) -> u64 {
        let Some(t) = vtid else { return perform() };
        let mut g = SCHED.lock().unwrap();
        if g.as_ref().map(|s| !s.active || s.stuck).unwrap_or(true) {
            drop(g);
            // outside an execution (tear-down): no scheduling
            return match ev.kind {
                Kind::Park | Kind::Unpark | Kind::Yield | Kind::Sleep | Kind::Now => 0,
                _ => perform(),
            };
        }
        let my_step;
        {
            let s = g.as_mut().unwrap();
            s.steps += 1;
            my_step = s.steps;
            if s.steps > s.limit {
                s.overrun = true;
                s.stuck = true;
                s.current = NONE;
                CV.notify_all();
            } else {
                let next = s.choose(t, ev.kind);
                if next != t {
                    hand_over(s, next);
                }
            }
        }
        g = wait_turn(g, t);
        if g.as_ref().unwrap().stuck {
            drop(g);
            // abandon the execution: let the thread run to completion without the scheduler
            return match ev.kind {
                Kind::Park => {
                    std::thread::sleep(Duration::from_millis(1));
                    0
                }
                Kind::Unpark | Kind::Yield | Kind::Sleep | Kind::Now => 0,
                _ => perform(),
            };
        }
        let s = g.as_mut().unwrap();
        let step = my_step;
        let loc = s.loc_of(ev);
        let mut res: u64 = 0;
        match ev.kind {
            Kind::Park => {
                if s.ptoken[t] {
                    s.ptoken[t] = false;
                    res = 1;
                } else if s.spur > 0 {
                    // spurious wake-up: park returns although nobody unparked this thread
                    s.spur -= 1;
                    res = 0;
                } else {
                    s.state[t] = TS::Parked;
                    yield_blocked(s, t);
                    g = wait_turn(g, t);
                    let s = g.as_mut().unwrap();
                    if s.stuck {
                        let _ = writeln!(s.trace, "{} {} PARK - 0 0 - - 2 {}:{}", step, t, ev.file, ev.line);
                        s.last_body.clear();
                        drop(g);
                        return 0;
                    }
                    res = if s.ptoken[t] { 1 } else { 0 };
                    s.ptoken[t] = false;
                }
            }
            Kind::Unpark => {
                let tgt = ev.a as usize;
                if tgt < s.state.len() {
                    s.ptoken[tgt] = true;
                    if s.state[tgt] == TS::Parked {
                        s.state[tgt] = TS::Runnable;
                    }
                }
            }
            Kind::Now => {
                res = s.clock;
                s.clock += s.tick;
            }
            Kind::Yield => {}
            Kind::Sleep => {
                s.clock += ev.a.min(1_000_000);
            }
            Kind::Access => {
                let what = ev.a as u8;
                if what == acc::SIG_PUBLISH {
                    let id = s.next_sig;
                    s.next_sig += 1;
                    s.sigs.retain(|(st, en, _)| !(ev.addr < *en && ev.addr + (ev.b as usize).max(1) > *st));
                    s.sigs.push((ev.addr, ev.addr + (ev.b as usize).max(1), id));
                }
            }
            _ => {
                res = perform();
            }
        }
        let s = g.as_mut().unwrap();
        let loc = if ev.kind == Kind::Access && ev.a as u8 == acc::SIG_PUBLISH { s.loc_of(ev) } else { loc };
        let (a, b) = match ev.kind {
            Kind::Access => (acc_name(ev.a).to_string(), ev.b.to_string()),
            _ => (ev.a.to_string(), ev.b.to_string()),
        };
        let f = ev.file.rsplit('/').next().unwrap_or(ev.file);
        let body = format!("{} {} {} {} {} {} {} {} {}:{}", t, kind_name(ev.kind), loc, a, b, ev.ord, ev.ord2, res, f, ev.line);
        // a long run of identical failed attempts of one thread (a spinning lock waiter) is logged once, with a count
        if ev.kind == Kind::Cas && res < 256 && s.last_body == body {
            s.rep += 1;
        } else {
            if s.rep > 0 {
                let _ = writeln!(s.trace, "# {} more identical failed attempts", s.rep);
                s.rep = 0;
            }
            let _ = writeln!(s.trace, "{} {}", step, body);
            s.last_body = body;
        }
        if ev.kind == Kind::Access && ev.a as u8 == acc::SIG_END {
            let addr = ev.addr;
            s.sigs.retain(|(st, _, _)| *st != addr);
        }
        res
    }
    fn parallelism(&self) -> Option<usize> {
        Some(PAR.load(Ordering::Relaxed))
    }
    fn virtual_time(&self) -> bool {
        true
    }
}

/// harness-level trace line (call boundaries, waker invocations)
fn note(t: usize, what: &str) {
    let mut g = SCHED.lock().unwrap();
    if let Some(s) = g.as_mut() {
        let step = s.steps;
        let _ = writeln!(s.trace, "{} {} {}", step, t, what);
        s.last_body.clear();
    }
}

// ---------- wakers: identity = id; wake() is logged with the waking thread ----------
fn vt_clone(p: *const ()) -> RawWaker {
    RawWaker::new(p, &VTABLE)
}
fn vt_wake(p: *const ()) {
    let t = kanal::verif::vtid().unwrap_or(99);
    // a scheduling point between the peer's final store and the wake-up it delivers
    kanal::verif::std::thread::yield_now();
    note(t, &format!("WAKE {}", p as usize));
}
fn vt_drop(_p: *const ()) {}
static VTABLE: RawWakerVTable = RawWakerVTable::new(vt_clone, vt_wake, vt_wake, vt_drop);
fn mk_waker(id: usize) -> Waker {
    unsafe { Waker::from_raw(RawWaker::new(id as *const (), &VTABLE)) }
}

// ---------- drop ledger shared by all threads ----------
static LEDGER: Mutex<Vec<(usize, Option<u32>)>> = Mutex::new(Vec::new());

pub trait Tagged: Sized + Send + 'static {
    fn mk(tag: u32) -> Self;
    fn tag(&self) -> Option<u32>;
    fn disarm(self);
}

macro_rules! h2_payload {
    ($name:ident, $inner:ty) => {
        pub struct $name($inner, bool);
        impl Drop for $name {
            fn drop(&mut self) {
                if self.1 {
                    let t = kanal::verif::vtid().unwrap_or(99);
                    LEDGER.lock().unwrap().push((t, self.0.tag()));
                }
            }
        }
        impl Tagged for $name {
            fn mk(tag: u32) -> Self {
                $name(<$inner as Payload>::mk(tag), true)
            }
            fn tag(&self) -> Option<u32> {
                self.0.tag()
            }
            fn disarm(mut self) {
                self.1 = false;
            }
        }
    };
}

/// plain-data inner payloads (no drop glue of their own): the wrapper reports the drop
pub struct I4(u32);
pub struct I8(u32, u32);
pub struct I32(u32, [u64; 3]);
impl I4 {
    fn tag(&self) -> Option<u32> {
        Some(self.0)
    }
}
impl I8 {
    fn tag(&self) -> Option<u32> {
        if self.1 == !self.0 {
            Some(self.0)
        } else {
            Some(0xdead_0000)
        }
    }
}
impl I32 {
    fn tag(&self) -> Option<u32> {
        if self.1 == [self.0 as u64 ^ 0x5555, !(self.0 as u64), (self.0 as u64) << 9] {
            Some(self.0)
        } else {
            Some(0xdead_0002)
        }
    }
}
trait Payload {
    fn mk(tag: u32) -> Self;
}
impl Payload for I4 {
    fn mk(t: u32) -> Self {
        I4(t)
    }
}
impl Payload for I8 {
    fn mk(t: u32) -> Self {
        I8(t, !t)
    }
}
impl Payload for I32 {
    fn mk(t: u32) -> Self {
        I32(t, [t as u64 ^ 0x5555, !(t as u64), (t as u64) << 9])
    }
}
// sizes: H4 = 8 bytes (u32 + flag, = pointer size), H8 = 12 (> pointer), H32 = 40; HS = 2 bytes (< pointer)
pub struct I1(u8);
impl I1 {
    fn tag(&self) -> Option<u32> {
        Some(self.0 as u32)
    }
}
impl Payload for I1 {
    fn mk(t: u32) -> Self {
        I1(t as u8)
    }
}
h2_payload!(HS, I1);
h2_payload!(H4, I4);
h2_payload!(H8, I8);
h2_payload!(H32, I32);

enum Fut<T: 'static> {
    Send(Pin<Box<SendFuture<'static, T>>>),
    Recv(Pin<Box<ReceiveFuture<'static, T>>>),
    Stream(Pin<Box<ReceiveStream<'static, T>>>),
}

struct ThreadCtx<T: Tagged> {
    tid: usize,
    s: Option<Box<Sender<T>>>,
    r: Option<Box<Receiver<T>>>,
    futs: HashMap<u32, Fut<T>>,
    results: Vec<String>,
}

fn tagstr(t: Option<u32>) -> String {
    match t {
        Some(t) => t.to_string(),
        None => "_".into(),
    }
}

impl<T: Tagged> ThreadCtx<T> {
    fn exec(&mut self, op: &str) -> String {
        let f: Vec<&str> = op.split_whitespace().collect();
        let p = |i: usize| -> u32 { f.get(i).and_then(|x| x.parse().ok()).unwrap_or(0) };
        let take = |v: T| -> String {
            let t = v.tag();
            v.disarm();
            tagstr(t)
        };
        macro_rules! sender {
            () => {
                match &self.s {
                    Some(s) => s,
                    None => return "nohandle".into(),
                }
            };
        }
        macro_rules! receiver {
            () => {
                match &self.r {
                    Some(r) => r,
                    None => return "nohandle".into(),
                }
            };
        }
        match f[0] {
            "send" => match sender!().send(T::mk(p(1))) {
                Ok(()) => "ok".into(),
                Err(SendError::Closed) => "err:closed".into(),
                Err(SendError::ReceiveClosed) => "err:recvclosed".into(),
            },
            "sendto" => match sender!().send_timeout(T::mk(p(1)), Duration::from_nanos(p(2) as u64)) {
                Ok(()) => "ok".into(),
                Err(SendErrorTimeout::Closed) => "err:closed".into(),
                Err(SendErrorTimeout::ReceiveClosed) => "err:recvclosed".into(),
                Err(SendErrorTimeout::Timeout) => "err:timeout".into(),
            },
            "sendoptto" => {
                let mut o = Some(T::mk(p(1)));
                let r = sender!().send_option_timeout(&mut o, Duration::from_nanos(p(2) as u64));
                let back = match o {
                    Some(v) => format!(" back:{}", take(v)),
                    None => String::new(),
                };
                match r {
                    Ok(()) => format!("ok{}", back),
                    Err(SendErrorTimeout::Closed) => format!("err:closed{}", back),
                    Err(SendErrorTimeout::ReceiveClosed) => format!("err:recvclosed{}", back),
                    Err(SendErrorTimeout::Timeout) => format!("err:timeout{}", back),
                }
            }
            "trysend" | "trysendrt" => {
                let v = T::mk(p(1));
                let r = if f[0] == "trysend" { sender!().try_send(v) } else { sender!().try_send_realtime(v) };
                match r {
                    Ok(b) => format!("ok:{}", b),
                    Err(SendError::Closed) => "err:closed".into(),
                    Err(SendError::ReceiveClosed) => "err:recvclosed".into(),
                }
            }
            "recv" => match receiver!().recv() {
                Ok(v) => format!("ok:{}", take(v)),
                Err(ReceiveError::Closed) => "err:closed".into(),
                Err(ReceiveError::SendClosed) => "err:sendclosed".into(),
            },
            "recvto" => match receiver!().recv_timeout(Duration::from_nanos(p(1) as u64)) {
                Ok(v) => format!("ok:{}", take(v)),
                Err(ReceiveErrorTimeout::Closed) => "err:closed".into(),
                Err(ReceiveErrorTimeout::SendClosed) => "err:sendclosed".into(),
                Err(ReceiveErrorTimeout::Timeout) => "err:timeout".into(),
            },
            "tryrecv" | "tryrecvrt" => {
                let r = if f[0] == "tryrecv" { receiver!().try_recv() } else { receiver!().try_recv_realtime() };
                match r {
                    Ok(Some(v)) => format!("ok:some:{}", take(v)),
                    Ok(None) => "ok:none".into(),
                    Err(ReceiveError::Closed) => "err:closed".into(),
                    Err(ReceiveError::SendClosed) => "err:sendclosed".into(),
                }
            }
            "drain" => {
                let mut v: Vec<T> = Vec::with_capacity(p(1) as usize);
                let r = receiver!().drain_into(&mut v);
                let tags: Vec<String> = v.drain(..).map(|x| take(x)).collect();
                match r {
                    Ok(n) => format!("drain:{}:[{}]", n, tags.join(",")),
                    Err(_) => format!("err:closed:[{}]", tags.join(",")),
                }
            }
            "close" => {
                let r = match (&self.s, &self.r) {
                    (Some(s), _) => s.close(),
                    (_, Some(r)) => r.close(),
                    _ => return "nohandle".into(),
                };
                if r.is_ok() { "ok".into() } else { "err:closed".into() }
            }
            "drops" => {
                self.s = None;
                "unit".into()
            }
            "dropr" => {
                self.r = None;
                "unit".into()
            }
            "cloner" => {
                // the receiver handle is replaced by a clone made through one of the four ways of cloning a receiver
                if let Some(r) = self.r.take() {
                    let c: Receiver<T> = match p(1) % 4 {
                        0 => {
                            let a = r.to_async();
                            let c = a.clone_sync();
                            drop(a);
                            c
                        }
                        1 => {
                            let c = (*r).clone();
                            drop(r);
                            c
                        }
                        2 => {
                            let c = r.clone_async();
                            drop(r);
                            c.to_sync()
                        }
                        _ => {
                            let a = r.to_async();
                            let c = a.clone();
                            drop(a);
                            c.to_sync()
                        }
                    };
                    self.r = Some(Box::new(c));
                }
                "unit".into()
            }
            "clones" => {
                // the same for the four ways of cloning a sender
                if let Some(s) = self.s.take() {
                    let c: Sender<T> = match p(1) % 4 {
                        0 => {
                            let a = s.clone_async();
                            drop(s);
                            a.to_sync()
                        }
                        1 => {
                            let c = (*s).clone();
                            drop(s);
                            c
                        }
                        2 => {
                            let a = s.to_async();
                            let c = a.clone_sync();
                            drop(a);
                            c
                        }
                        _ => {
                            let a = s.to_async();
                            let c = a.clone();
                            drop(a);
                            c.to_sync()
                        }
                    };
                    self.s = Some(Box::new(c));
                }
                "unit".into()
            }
            "len" => format!("n:{}", match (&self.s, &self.r) {
                (Some(s), _) => s.len(),
                (_, Some(r)) => r.len(),
                _ => 0,
            }),
            "scount" => format!("n:{}", match (&self.s, &self.r) {
                (Some(s), _) => s.sender_count(),
                (_, Some(r)) => r.sender_count(),
                _ => 0,
            }),
            "rcount" => format!("n:{}", match (&self.s, &self.r) {
                (Some(s), _) => s.receiver_count(),
                (_, Some(r)) => r.receiver_count(),
                _ => 0,
            }),
            "isterm" => format!("b:{}", receiver!().is_terminated()),
            "isdisc" => format!("b:{}", match (&self.s, &self.r) {
                (Some(s), _) => s.is_disconnected(),
                (_, Some(r)) => r.is_disconnected(),
                _ => false,
            }),
            "isempty" => format!("b:{}", match (&self.s, &self.r) {
                (Some(s), _) => s.is_empty(),
                (_, Some(r)) => r.is_empty(),
                _ => true,
            }),
            "isfull" => format!("b:{}", match (&self.s, &self.r) {
                (Some(s), _) => s.is_full(),
                (_, Some(r)) => r.is_full(),
                _ => false,
            }),
            "isclosed" => format!("b:{}", match (&self.s, &self.r) {
                (Some(s), _) => s.is_closed(),
                (_, Some(r)) => r.is_closed(),
                _ => false,
            }),
            "mksend" => {
                let s = sender!();
                let a: &'static AsyncSender<T> = unsafe { &*(s.as_async() as *const AsyncSender<T>) };
                self.futs.insert(p(1), Fut::Send(Box::pin(a.send(T::mk(p(2))))));
                "unit".into()
            }
            "mkrecv" | "mkstream" => {
                let r = receiver!();
                let a: &'static AsyncReceiver<T> = unsafe { &*(r.as_async() as *const AsyncReceiver<T>) };
                let fut = if f[0] == "mkrecv" { Fut::Recv(Box::pin(a.recv())) } else { Fut::Stream(Box::pin(a.stream())) };
                self.futs.insert(p(1), fut);
                "unit".into()
            }
            "poll" => {
                let w = mk_waker(p(2) as usize);
                let mut cx = Context::from_waker(&w);
                let Some(fut) = self.futs.get_mut(&p(1)) else { return "nofuture".into() };
                match fut {
                    Fut::Send(x) => match x.as_mut().poll(&mut cx) {
                        Poll::Pending => "pending".into(),
                        Poll::Ready(Ok(())) => "ready:ok".into(),
                        Poll::Ready(Err(SendError::Closed)) => "ready:err:closed".into(),
                        Poll::Ready(Err(SendError::ReceiveClosed)) => "ready:err:recvclosed".into(),
                    },
                    Fut::Recv(x) => match x.as_mut().poll(&mut cx) {
                        Poll::Pending => "pending".into(),
                        Poll::Ready(Ok(v)) => format!("ready:ok:{}", take(v)),
                        Poll::Ready(Err(ReceiveError::Closed)) => "ready:err:closed".into(),
                        Poll::Ready(Err(ReceiveError::SendClosed)) => "ready:err:sendclosed".into(),
                    },
                    Fut::Stream(x) => match x.as_mut().poll_next(&mut cx) {
                        Poll::Pending => "pending".into(),
                        Poll::Ready(Some(v)) => format!("some:{}", take(v)),
                        Poll::Ready(None) => "none".into(),
                    },
                }
            }
            "dropf" => {
                self.futs.remove(&p(1));
                "unit".into()
            }
            _ => "badop".into(),
        }
    }
}

fn parse_hold(spec: &str) -> Vec<(usize, u64)> {
    let mut v = vec![];
    for x in spec.split_whitespace() {
        if let Some(r) = x.strip_prefix("hold=") {
            let mut it = r.split(':');
            if let (Some(a), Some(b)) = (it.next(), it.next()) {
                if let (Ok(a), Ok(b)) = (a.parse(), b.parse()) {
                    v.push((a, b));
                }
            }
        }
    }
    v
}

fn parse_policy(spec: &str) -> (Policy, u64, u64, u64) {
    let mut spur = 0;
    let mut tick = 1;
    let mut seed = 1;
    let f: Vec<&str> = spec.split_whitespace().collect();
    let mut pol = Policy::Seq;
    let mut pre = vec![];
    let mut i = 0;
    while i < f.len() {
        match f[i] {
            "seq" => pol = Policy::Seq,
            "pre" => pol = Policy::Pre(vec![]),
            "rnd" => {
                seed = f.get(i + 1).and_then(|x| x.parse().ok()).unwrap_or(1);
                let pm = f.get(i + 2).and_then(|x| x.parse().ok()).unwrap_or(100);
                pol = Policy::Rnd(seed, pm);
                i += 2;
            }
            x if x.starts_with("spur=") => spur = x[5..].parse().unwrap_or(0),
            x if x.starts_with("tick=") => tick = x[5..].parse().unwrap_or(1),
            x if x.starts_with("hold=") => {}
            x if x.contains(':') => {
                let mut it = x.split(':');
                if let (Some(a), Some(b)) = (it.next(), it.next()) {
                    if let (Ok(a), Ok(b)) = (a.parse(), b.parse()) {
                        pre.push((a, b));
                    }
                }
            }
            _ => {}
        }
        i += 1;
    }
    if let Policy::Pre(_) = pol {
        pol = Policy::Pre(pre);
    }
    (pol, spur, tick, seed)
}

fn run_one<T: Tagged>(pid: &str, cap: &str, threads: &[(usize, Vec<String>)], spec: &str, out: &mut impl Write) -> bool {
    let n = threads.len();
    let (pol, spur, tick, seed) = parse_policy(spec);
    LEDGER.lock().unwrap().clear();
    {
        let mut g = SCHED.lock().unwrap();
        *g = Some(Sched {
            state: vec![TS::NotStarted; n],
            ptoken: vec![false; n],
            current: NONE,
            trace: String::new(),
            clock: 0,
            tick,
            steps: 0,
            policy: pol,
            rng: seed.wrapping_mul(0x9E3779B97F4A7C15) | 1,
            spur,
            parked_rounds: vec![0; n],
            stuck: false,
            sigs: vec![],
            next_sig: 0,
            locks: HashMap::new(),
            active: true,
            limit: spec.split_whitespace().find_map(|x| x.strip_prefix("limit=").and_then(|v| v.parse().ok())).unwrap_or(200_000),
            overrun: false,
            last_body: String::new(),
            rep: 0,
            hold: parse_hold(spec),
        });
    }
    let (s0, r0) = if cap == "U" { unbounded::<T>() } else { bounded::<T>(cap.parse().unwrap()) };
    let results: Arc<Mutex<Vec<(usize, Vec<String>)>>> = Arc::new(Mutex::new(vec![]));
    let mut joins = vec![];
    for (tid, ops) in threads.iter().cloned() {
        let s = s0.clone();
        let r = r0.clone();
        let results = results.clone();
        joins.push(std::thread::spawn(move || {
            kanal::verif::set_vtid(Some(tid));
            let mut ctx = ThreadCtx::<T> { tid, s: Some(Box::new(s)), r: Some(Box::new(r)), futs: HashMap::new(), results: vec![] };
            // wait for the first turn
            {
                let mut g = SCHED.lock().unwrap();
                g.as_mut().unwrap().state[tid] = TS::Runnable;
                CV.notify_all();
                g = wait_turn(g, tid);
                drop(g);
            }
            for op in ops.iter() {
                note(tid, &format!("OPB {}", op));
                let r = match std::panic::catch_unwind(std::panic::AssertUnwindSafe(|| ctx.exec(op))) {
                    Ok(r) => r,
                    Err(_) => "panic".to_string(),
                };
                note(tid, &format!("OPE {}", r));
                ctx.results.push(r);
            }
            // futures and handles of this thread go away, still under the scheduler
            note(tid, "OPB teardown");
            let mut ks: Vec<u32> = ctx.futs.keys().copied().collect();
            ks.sort();
            for k in ks {
                ctx.futs.remove(&k);
            }
            ctx.s = None;
            ctx.r = None;
            note(tid, "OPE unit");
            results.lock().unwrap().push((tid, ctx.results.clone()));
            let mut g = SCHED.lock().unwrap();
            let s = g.as_mut().unwrap();
            s.state[tid] = TS::Done;
            if !s.stuck {
                yield_blocked(s, tid);
            }
            drop(g);
            kanal::verif::set_vtid(None);
        }));
    }
    // the original handles are dropped by the (unmanaged) main thread before the run starts,
    // so that only the threads' clones keep the sides alive
    {
        // wait until every thread registered
        let mut g = SCHED.lock().unwrap();
        while g.as_ref().unwrap().state.iter().any(|x| *x == TS::NotStarted) {
            g = CV.wait(g).unwrap();
        }
        drop(g);
    }
    drop(s0);
    drop(r0);
    {
        let mut g = SCHED.lock().unwrap();
        let s = g.as_mut().unwrap();
        hand_over(s, 0);
        // wait for the end of the execution: everybody done, or stuck
        // (the real-time watchdog looks at progress, not at duration: an execution is given up only when no
        // scheduling step has happened for six seconds - a thread spinning without ever reaching the scheduler)
        let mut last_steps = 0u64;
        while !g.as_ref().unwrap().stuck && !g.as_ref().unwrap().state.iter().all(|x| *x == TS::Done) {
            let (g2, to) = CV.wait_timeout(g, Duration::from_secs(6)).unwrap();
            g = g2;
            if to.timed_out() {
                let s = g.as_mut().unwrap();
                if s.steps != last_steps {
                    last_steps = s.steps;
                    continue;
                }
                s.stuck = true;
                s.overrun = true;
                s.current = NONE;
                CV.notify_all();
            }
        }
    }
    let (stuck, overrun, trace, states) = {
        let g = SCHED.lock().unwrap();
        let s = g.as_ref().unwrap();
        (s.stuck, s.overrun, s.trace.clone(), s.state.clone())
    };
    writeln!(out, "X {} {} | {}", pid, cap, spec).unwrap();
    out.write_all(trace.as_bytes()).unwrap();
    if stuck {
        let who: Vec<String> = states.iter().enumerate().filter(|(_, s)| **s != TS::Done).map(|(i, s)| format!("{}:{:?}", i, s)).collect();
        writeln!(out, "V {} {}", if overrun { "overrun" } else { "stuck" }, who.join(" ")).unwrap();
        writeln!(out, "Z").unwrap();
        out.flush().unwrap();
        // threads of a stuck execution cannot be joined: the process ends here
        return false;
    }
    for j in joins {
        let _ = j.join();
    }
    {
        let mut g = SCHED.lock().unwrap();
        g.as_mut().unwrap().active = false;
    }
    let mut res = results.lock().unwrap().clone();
    res.sort();
    for (tid, r) in res {
        writeln!(out, "R {} {}", tid, r.join(" | ")).unwrap();
    }
    let led = LEDGER.lock().unwrap().clone();
    writeln!(out, "D {}", led.iter().map(|(t, x)| format!("{}@{}", tagstr(*x), t)).collect::<Vec<_>>().join(" ")).unwrap();
    writeln!(out, "V ok").unwrap();
    writeln!(out, "Z").unwrap();
    true
}

pub fn main(_args: &[String]) {
    kanal::verif::install(Box::new(SchedHandler));
    if let Ok(p) = std::env::var("KV_PARALLELISM") {
        if let Ok(p) = p.parse::<usize>() {
            PAR.store(p, Ordering::Relaxed);
        }
    }
    let stdin = std::io::stdin();
    let stdout = std::io::stdout();
    let mut out = std::io::BufWriter::new(stdout.lock());
    let mut head: Option<(String, String, String)> = None;
    let mut threads: Vec<(usize, Vec<String>)> = vec![];
    for line in stdin.lock().lines() {
        let line = line.unwrap();
        let line = line.trim();
        if line.is_empty() {
            continue;
        }
        if let Some(rest) = line.strip_prefix("P ") {
            let f: Vec<&str> = rest.split_whitespace().collect();
            head = Some((f[0].to_string(), f[1].to_string(), f[2].to_string()));
            threads.clear();
        } else if let Some(rest) = line.strip_prefix("T ") {
            let (tid, ops) = rest.split_once(' ').unwrap_or((rest, ""));
            let ops: Vec<String> = ops.split(';').map(|s| s.trim().to_string()).filter(|s| !s.is_empty()).collect();
            threads.push((tid.parse().unwrap(), ops));
        } else if let Some(spec) = line.strip_prefix("S ") {
            let (pid, cap, cls) = head.clone().unwrap();
            let ok = match cls.as_str() {
                "hs" => run_one::<HS>(&pid, &cap, &threads, spec, &mut out),
                "h4" => run_one::<H4>(&pid, &cap, &threads, spec, &mut out),
                "h8" => run_one::<H8>(&pid, &cap, &threads, spec, &mut out),
                _ => run_one::<H32>(&pid, &cap, &threads, spec, &mut out),
            };
            out.flush().unwrap();
            if !ok {
                // a stuck execution leaves blocked threads behind: stop this process, the driver restarts after it
                std::process::exit(7);
            }
        }
    }
}
