"""kvmon - implementation-side monitors: each judges ONE property directly on the
outputs the real crate produced for a single-threaded call history (no model
involved), so that a correspondence break can be turned into a concrete
failing input.  A monitor returns a list of violation strings (empty = holds).

History format (see harness/src/h1.rs, coq/extract/driver.ml):
  header  "H <id> <cap> <class> <flavour>"
  calls   "send k h x", "poll f w", ...
  outputs "<result> d=[dropped tags] w=[wakers invoked] b=[tags handed back]"
  trailer "T d=[tags destroyed at tear-down]"
"""
import re

UNTAGGED = ("zst", "azst")
NODROP = ("plain",)


def plist(s):
    s = s.strip()[1:-1]
    return [x for x in s.split(",") if x != ""]


def parse_out(line):
    m = re.match(r"(\S+) d=(\[[^\]]*\]) w=(\[[^\]]*\]) b=(\[[^\]]*\])", line)
    if not m:
        return None
    return {"res": m.group(1), "d": plist(m.group(2)), "w": plist(m.group(3)), "b": plist(m.group(4))}


def received_of(res):
    for pre in ("ok:some:", "ready:ok:", "some:"):
        if res.startswith(pre):
            return [res[len(pre):]]
    m = re.match(r"drain:\d+:\[([^\]]*)\]", res)
    if m:
        return [x for x in m.group(1).split(",") if x]
    m = re.match(r"ok:(\d+|_)$", res)
    if m:
        return [m.group(1)]
    return []


SEND_KINDS = {"send": 3, "sendto": 3, "sendoptto": 3, "trysend": 2, "trysendopt": 2, "trysendrt": 2,
              "trysendoptrt": 2, "mksend": 3}


class Hist:
    """parsed history + implementation outputs"""
    def __init__(self, head, labels, outs):
        f = head.split()
        self.cap = None if f[2] == "U" else int(f[2])
        self.cls = f[3]
        self.flav = f[4]
        self.tagged = self.cls not in UNTAGGED
        self.droppy = self.cls not in NODROP
        self.labels = [l.split() for l in labels]
        body = outs[:len(labels)]
        self.outs = [parse_out(o) for o in body]
        self.trailer = None
        if len(outs) > len(labels) and outs[len(labels)].startswith("T d="):
            self.trailer = plist(outs[len(labels)][4:])
        self.complete = len(body) == len(labels) and all(o is not None for o in self.outs)


def offered_tag(l):
    k = l[0]
    if k in SEND_KINDS:
        t = l[SEND_KINDS[k]]
        return None if t == "-" else t
    return None


def is_fail(res):
    return res.startswith("err") or res == "ok:false" or res.startswith("ready:err")


# ---------------------------------------------------------------- C01 / C05
def mon_ledger(h, want_c01=True, want_c05=True, only_kinds=None):
    """exactly-once delivery / destroyed exactly once, on tagged droppable payloads;
    count-level on untagged ones."""
    v = []
    if not h.complete:
        return v
    rec, drop, back, offered, failed = {}, {}, {}, {}, set()
    fut_tag = {}
    for i, (l, o) in enumerate(zip(h.labels, h.outs)):
        t = offered_tag(l)
        if t is not None:
            offered[t] = l[0]
            if l[0] == "mksend":
                fut_tag[l[1]] = t
            elif is_fail(o["res"]):
                failed.add(t)
            if l[0] in ("sendoptto", "trysendopt", "trysendoptrt") and want_c05 and o["res"] != "panic":
                if is_fail(o["res"]) != (len(o["b"]) == 1):
                    v.append("call %d (%s): Option handed back=%s but result %s" % (i, " ".join(l), o["b"], o["res"]))
        if l[0] == "poll" and l[1] in fut_tag and o["res"].startswith("ready:err"):
            failed.add(fut_tag[l[1]])
        for x in received_of(o["res"]):
            rec[x] = rec.get(x, 0) + 1
            if h.tagged:
                if x not in offered and want_c01:
                    v.append("call %d (%s): received value %s that no send supplied" % (i, " ".join(l), x))
                if x in failed and want_c01:
                    v.append("call %d (%s): received value %s of a send that reported failure" % (i, " ".join(l), x))
        for x in o["d"]:
            drop[x] = drop.get(x, 0) + 1
        for x in o["b"]:
            back[x] = back.get(x, 0) + 1
        if h.tagged:
            for x in set(list(rec) + list(drop) + list(back)):
                n = rec.get(x, 0) + drop.get(x, 0) + back.get(x, 0)
                if n > 1:
                    what = "delivered twice" if rec.get(x, 0) > 1 else "destroyed/delivered more than once"
                    if (rec.get(x, 0) > 1 and want_c01) or want_c05:
                        v.append("call %d (%s): value %s %s (received=%d dropped=%d back=%d)" %
                                 (i, " ".join(l), x, what, rec.get(x, 0), drop.get(x, 0), back.get(x, 0)))
                        return v
    if h.trailer is not None and h.droppy:
        for x in h.trailer:
            drop[x] = drop.get(x, 0) + 1
        if h.tagged:
            for x, k in offered.items():
                n = rec.get(x, 0) + drop.get(x, 0) + back.get(x, 0)
                if only_kinds and k not in only_kinds:
                    continue
                if n == 0 and (want_c05 or want_c01):
                    v.append("value %s (offered by %s) was never received, dropped or handed back: leaked" % (x, k))
                elif n > 1 and want_c05:
                    v.append("value %s (offered by %s) destroyed/delivered %d times" % (x, k, n))
        else:
            tot = sum(rec.values()) + sum(drop.values()) + sum(back.values())
            if tot != len([1 for l in h.labels if offered_tag(l) is not None]) and want_c05:
                v.append("untagged payloads: %d offered but %d received+dropped+back" %
                         (len([1 for l in h.labels if offered_tag(l) is not None]), tot))
    return v


def mon_c01(h):
    return mon_ledger(h, True, False)


def mon_c05(h):
    return mon_ledger(h, False, True)


# ---------------------------------------------------------------- C02
def mon_c02(h):
    v = []
    if not h.complete or not h.tagged:
        return v
    entry, fut_tag, seq = {}, {}, []
    for i, (l, o) in enumerate(zip(h.labels, h.outs)):
        t = offered_tag(l)
        if l[0] == "mksend":
            fut_tag[l[1]] = t
        elif t is not None and o["res"] in ("ok", "ok:true"):
            entry[t] = i
        if l[0] == "poll" and l[1] in fut_tag:
            t = fut_tag[l[1]]
            if t not in entry and o["res"] in ("pending", "ready:ok"):
                entry[t] = i
        for x in received_of(o["res"]):
            seq.append((x, i))
    last = -1
    lastx = None
    for x, i in seq:
        if x in entry:
            if entry[x] < last:
                v.append("call %d: value %s (entered the channel at call %d) delivered after value %s (entered at call %d)"
                         % (i, x, entry[x], lastx, last))
                break
            last, lastx = entry[x], x
    return v


# ---------------------------------------------------------------- C12 / C10 / C11
class Ledger:
    def __init__(self):
        self.side = {"0": "S", "1": "R"}
        self.closed = False


def mon_handles(h, want):
    """want in {'C12','C10','C11'}"""
    v = []
    if not h.complete:
        return v
    side = {"0": "S", "1": "R"}
    closed = False
    fut_side = {}
    pending_at_close = set()
    fut_state = {}
    for i, (l, o) in enumerate(zip(h.labels, h.outs)):
        k, res = l[0], o["res"]
        ns = sum(1 for s in side.values() if s == "S")
        nr = sum(1 for s in side.values() if s == "R")
        ctx = "call %d (%s)" % (i, " ".join(l))
        if k == "clone" and res == "unit":
            if l[1] in side:
                side[l[2]] = side[l[1]]
        elif k == "droph" and res == "unit":
            side.pop(l[1], None)
        elif k == "close":
            if want == "C10":
                if closed and res != "err:closed":
                    v.append(ctx + ": second close returned %s" % res)
                if not closed and res != "ok":
                    v.append(ctx + ": first close returned %s" % res)
            if res == "ok":
                closed = True
                pending_at_close = set(f for f, s in fut_state.items() if s == "pending")
        elif k == "obs":
            if l[2] == "sendercount":
                exp = 0 if closed else ns
                if want == "C12" and res != "n:%d" % exp:
                    v.append(ctx + ": sender_count %s but %d live sender handles%s" % (res, ns, " (closed)" if closed else ""))
                if want == "C10" and closed and res != "n:0":
                    v.append(ctx + ": count %s after close" % res)
            if l[2] == "receivercount":
                exp = 0 if closed else nr
                if want == "C12" and res != "n:%d" % exp:
                    v.append(ctx + ": receiver_count %s but %d live receiver handles%s" % (res, nr, " (closed)" if closed else ""))
                if want == "C10" and closed and res != "n:0":
                    v.append(ctx + ": count %s after close" % res)
            if l[2] == "isclosed" and want == "C10" and res != ("b:true" if closed or (ns == 0 and nr == 0) else "b:false"):
                v.append(ctx + ": is_closed %s, closed=%s" % (res, closed))
            if l[2] == "isdisconnected" and want == "C11" and not closed and l[1] in side:
                other = nr if side[l[1]] == "S" else ns
                if res != ("b:true" if other == 0 else "b:false"):
                    v.append(ctx + ": is_disconnected %s with %d live handles on the other side" % (res, other))
        if k in ("mksend", "mkrecv", "mkstream"):
            fut_side[l[1]] = "S" if k == "mksend" else "R"
            fut_state[l[1]] = "zero"
        if k == "poll":
            if res == "pending":
                fut_state[l[1]] = "pending"
            elif res != "panic":
                fut_state[l[1]] = "done"
        if k == "dropf":
            fut_state.pop(l[1], None)
        # operations begun after close
        started_after_close = closed and k != "close"
        if want == "C10" and started_after_close:
            if received_of(res) and not (k == "poll" and l[1] in pending_at_close):
                v.append(ctx + ": a value was delivered after close returned")
            if k in ("send", "sendto", "trysend", "trysendrt", "recv", "recvto", "tryrecv", "tryrecvrt", "drain") \
                    or (k in ("sendoptto", "trysendopt", "trysendoptrt") and l[-1] != "-"):
                if res != "err:closed":
                    v.append(ctx + ": operation begun after close returned %s, not the closed error" % res)
            if k == "poll" and fut_state.get(l[1]) is not None:
                pass
        if want == "C10" and closed and k == "poll" and l[1] in pending_at_close:
            pending_at_close.discard(l[1])
            if not res.startswith("ready:err") and res != "none":
                v.append(ctx + ": future pending at close was not released with an error (%s)" % res)
        if want == "C11" and not closed:
            if "sendclosed" in res and ns > 0:
                v.append(ctx + ": send-side disconnect reported while %d sender handles live" % ns)
            if "recvclosed" in res and nr > 0:
                v.append(ctx + ": receive-side disconnect reported while %d receiver handles live" % nr)
            if nr == 0 and ns > 0 and k in ("send", "sendto", "trysend", "trysendrt") and res != "err:recvclosed":
                v.append(ctx + ": send with no receiver handle left returned %s" % res)
            if "err:closed" in res and k not in ("close",) and (ns > 0 and nr > 0) and k != "poll":
                v.append(ctx + ": closed error on an open channel with handles on both sides")
            if ns == 0 and nr > 0 and side.get(l[1] if len(l) > 1 else "") == "R" and res == "err:closed" \
                    and k in ("recv", "recvto", "tryrecv", "tryrecvrt", "drain"):
                v.append(ctx + ": a live receiver handle (%d counted by the history) was told 'closed' after the last sender left, "
                               "instead of the buffered values and then 'send closed'" % nr)
    return v


def mon_c12(h):
    return mon_handles(h, "C12")


def mon_c10(h):
    v = mon_handles(h, "C10")
    # buffered values destroyed by the time close returns
    if h.complete and h.tagged and h.droppy:
        done, gone = {}, set()
        fut_tag = {}
        for i, (l, o) in enumerate(zip(h.labels, h.outs)):
            t = offered_tag(l)
            if l[0] == "mksend":
                fut_tag[l[1]] = t
            elif t is not None and o["res"] in ("ok", "ok:true"):
                done[t] = i
            if l[0] == "poll" and l[1] in fut_tag and o["res"] == "ready:ok":
                done[fut_tag[l[1]]] = i
            for x in received_of(o["res"]) + o["d"] + o["b"]:
                gone.add(x)
            if l[0] == "close" and o["res"] == "ok":
                left = [x for x in done if x not in gone]
                if left:
                    v.append("call %d (close): values %s accepted by completed sends were not destroyed when close returned" % (i, left))
    return v


def mon_c11(h):
    return mon_handles(h, "C11")


# ---------------------------------------------------------------- C08
def mon_c08(h):
    v = []
    if not h.complete:
        return v
    cap = h.cap
    ok_sends = taken = 0
    over = False
    fut_tag = {}
    pend_recv = set()
    fut_kind = {}
    for i, (l, o) in enumerate(zip(h.labels, h.outs)):
        k, res = l[0], o["res"]
        ctx = "call %d (%s)" % (i, " ".join(l))
        if k == "obs" and l[2] == "len" and cap is not None:
            if int(res[2:]) > cap:
                v.append(ctx + ": len %s exceeds capacity %d" % (res, cap))
        if k in ("mkrecv", "mkstream", "mksend"):
            fut_kind[l[1]] = k
        if k == "poll" and fut_kind.get(l[1]) in ("mkrecv", "mkstream"):
            if res == "pending":
                pend_recv.add(l[1])
            else:
                pend_recv.discard(l[1])
        ntaken = len(received_of(res))
        if k == "dropf":
            if l[1] in pend_recv:
                # a pending receive dropped: it may have consumed one value (the documented caveat)
                ntaken += 1
            pend_recv.discard(l[1])
        if k in SEND_KINDS and k != "mksend" and res in ("ok", "ok:true"):
            ok_sends += 1
        if k == "poll" and fut_kind.get(l[1]) == "mksend" and res == "ready:ok":
            ok_sends += 1
        taken += ntaken
        # the property's counting rule, single-threaded: successful sends never exceed the values
        # taken by receive operations already begun (completed receives, plus at most one per
        # receive future that is pending) by more than the capacity
        if cap is not None and ok_sends - taken > cap + len(pend_recv) and not over:
            over = True
            v.append(ctx + ": %d sends have succeeded, %d values were taken, %d receives are pending: more than capacity %d allows"
                     % (ok_sends, taken, len(pend_recv), cap))
        if cap is None:
            if k in SEND_KINDS and res in ("ok:false", "pending", "err:timeout"):
                v.append(ctx + ": unbounded channel refused or blocked a send (%s)" % res)
            if k == "poll" and fut_kind.get(l[1]) == "mksend" and res == "pending":
                v.append(ctx + ": unbounded channel left a send pending")
    return v


# ---------------------------------------------------------------- C19
def mon_c19(h):
    v = []
    if not h.complete:
        return v
    for i, (l, o) in enumerate(zip(h.labels, h.outs)):
        if l[0] == "drain":
            res = o["res"]
            m = re.match(r"drain:(\d+):\[([^\]]*)\](.*)", res)
            if m:
                n = int(m.group(1))
                xs = [x for x in m.group(2).split(",") if x]
                if n != len(xs):
                    v.append("call %d (drain): returned %d but appended %d values" % (i, n, len(xs)))
                if "CORRUPT" in m.group(3):
                    v.append("call %d (drain): previous contents of the vector were disturbed" % i)
                # nothing may be left: an immediately following try_recv finds nothing
                if i + 1 < len(h.labels) and h.labels[i + 1][0] in ("tryrecv", "tryrecvrt") and \
                        h.outs[i + 1]["res"].startswith("ok:some"):
                    v.append("call %d (drain): a value was still available right after drain_into" % i)
            elif "CORRUPT" in res:
                v.append("call %d (drain): failed drain moved or disturbed values" % i)
    return v


# ---------------------------------------------------------------- C16 / C06 (single thread part)
def mon_c16(h):
    v = []
    if not h.complete:
        return v
    last_waker, state, kind = {}, {}, {}
    for i, (l, o) in enumerate(zip(h.labels, h.outs)):
        k, res = l[0], o["res"]
        ctx = "call %d (%s)" % (i, " ".join(l))
        pend = set(last_waker[f] for f, s in state.items() if s == "pending" and f in last_waker)
        for w in o["w"]:
            if w not in pend and not (k == "poll" and w == l[2]):
                v.append(ctx + ": woke waker %s, which is not the latest waker of any pending future (%s)" % (w, sorted(pend)))
        if k in ("mksend", "mkrecv", "mkstream"):
            kind[l[1]] = k
            state[l[1]] = "zero"
        if k == "poll" and l[1] in state:
            f = l[1]
            if state[f] == "done" and kind[f] != "mkstream" and res != "panic":
                v.append(ctx + ": completed future polled again returned %s instead of panicking" % res)
            if state[f] == "ended" and res != "none":
                v.append(ctx + ": ended stream yielded %s" % res)
            if res == "pending":
                state[f] = "pending"
                last_waker[f] = l[2]
            elif res == "none":
                state[f] = "ended"
            elif res.startswith("some:"):
                state[f] = "zero"
            elif res != "panic":
                state[f] = "done"
        if k == "dropf":
            state.pop(l[1], None)
    return v


MONITORS = {
    "C01": mon_c01, "C05": mon_c05, "C02": mon_c02, "C12": mon_c12, "C10": mon_c10, "C11": mon_c11,
    "C08": mon_c08, "C19": mon_c19, "C16": mon_c16,
    "C13": lambda h: mon_ledger(h, True, True, only_kinds=("sendto", "sendoptto")),
    "C14": lambda h: mon_ledger(h, True, True, only_kinds=("trysend", "trysendopt", "trysendrt", "trysendoptrt")) + mon_c19(h),
    "C15": lambda h: mon_ledger(h, True, True, only_kinds=("mksend",)),
    # every guarantee is claimed unchanged across flavours: all the monitors apply
    "C09": lambda h: mon_ledger(h, True, True) + mon_c02(h) + mon_c12(h) + mon_c10(h) + mon_c11(h) + mon_c08(h) + mon_c16(h),
    "C06": mon_c16,
    # integrity of every payload class includes being moved exactly once (count-level on untagged classes such as ZSTs)
    "C04": lambda h: mon_ledger(h, True, True),
}
