"""kvprops - per-property table (theorems, suites, cones, monitors) and the check itself."""
import os, sys, json, time, re, subprocess
import kvlib as K
import kvmon as M
import kvh2 as H2

SENDK = {"send", "sendto", "sendoptto", "trysend", "trysendopt", "trysendrt", "trysendoptrt", "mksend"}
RECVK = {"recv", "recvto", "tryrecv", "tryrecvrt", "drain", "mkrecv", "mkstream"}
TRYK = {"trysend", "trysendopt", "trysendrt", "trysendoptrt", "tryrecv", "tryrecvrt", "drain"}
ASYNK = {"mksend", "mkrecv", "mkstream", "poll", "dropf", "streamterm"}
ALLF = {"res", "d", "w", "b", "crash", "T"}


def cone_all(kind, fields, ctx):
    return True


def mk_cone(kinds=None, fields=None, after=None, obs=None, res_contains=None):
    """a divergence at a call of kind `kind` in output fields `fields` belongs to
    the property if it matches kinds/fields, or happens after a call of a kind in `after`"""
    def f(kind, flds, ctx):
        if after and any(k in after for k in ctx["before"]):
            return True
        if res_contains and any(s in ctx["lines"] for s in res_contains):
            return True
        if kind == "obs" and obs is not None:
            return ctx["obs"] in obs and (fields is None or bool(flds & fields))
        if kinds is not None and kind not in kinds:
            return False
        if fields is not None and not (flds & fields):
            return False
        return True
    return f


VALUE_KINDS = SENDK | RECVK | {"poll", "dropf", "close", "droph"}

PROPS = {
    "C01": dict(suites=["h1"], cone=mk_cone(kinds=VALUE_KINDS | {"T"}, fields={"res", "b", "d", "crash", "T"}),
                title="exactly-once delivery"),
    "C02": dict(suites=["h1"], cone=mk_cone(kinds=RECVK | {"poll"}, fields={"res", "crash"}), title="FIFO"),
    "C03": dict(suites=["h1"], cone=cone_all, title="atomicity"),
    "C05": dict(suites=["h1"], cone=mk_cone(fields={"d", "b", "T", "crash"}), title="destroyed exactly once"),
    "C08": dict(suites=["h1"], cone=mk_cone(kinds=SENDK | {"poll"}, fields={"res", "crash"},
                                            obs={"len", "isfull", "isempty", "capacity", "isbounded"}), title="capacity"),
    "C09": dict(suites=["h1"], cone=cone_all, title="flavours interchangeable"),
    "C10": dict(suites=["h1"], cone=mk_cone(kinds={"close"}, after={"close"}), title="close"),
    "C11": dict(suites=["h1"], cone=mk_cone(kinds={"droph"}, after={"droph"}, obs={"isdisconnected", "isterminated"},
                                            res_contains=("sendclosed", "recvclosed")), title="disconnect"),
    "C12": dict(suites=["h1"], cone=mk_cone(kinds={"clone", "droph", "close"}, obs={"sendercount", "receivercount"}),
                title="handle counts"),
    "C13": dict(suites=["h1"], cone=mk_cone(kinds={"sendto", "sendoptto", "recvto"}), need={"sendto", "sendoptto", "recvto"},
                title="timed operations"),
    "C14": dict(suites=["h1"], cone=mk_cone(kinds=TRYK), need=TRYK, title="non-blocking operations"),
    "C15": dict(suites=["h1"], cone=mk_cone(kinds={"dropf", "T"}, after={"dropf"}), need={"dropf"}, title="dropping a future"),
    "C16": dict(suites=["h1"], cone=mk_cone(kinds={"poll", "streamterm", "mksend", "mkrecv", "mkstream"}), need={"poll"},
                title="polling contract"),
    "C18": dict(suites=["h1"], cone=cone_all, title="single-threaded reference"),
    "C19": dict(suites=["h1"], cone=mk_cone(kinds={"drain"}), need={"drain"}, title="drain_into"),
}

for _p in ("C01", "C02", "C03", "C05", "C08", "C09", "C10", "C11", "C12", "C13", "C14", "C15", "C16", "C19"):
    PROPS[_p]["suites"] = ["h1", "h2"]
PROPS["C06"] = dict(suites=["h1", "h2"], cone=mk_cone(fields={"w", "crash"}), title="progress")
PROPS["C07"] = dict(suites=["h2"], cone=mk_cone(kinds=set()), title="memory-safe hand-off")
PROPS["C17"] = dict(suites=["h2"], cone=mk_cone(kinds=set()), title="internal lock")
PROPS["C04"] = dict(suites=["h1", "h2", "ptrsearch"], cone=mk_cone(kinds=VALUE_KINDS, fields={"res", "crash", "d", "b", "T"}),
                    title="payload integrity")
PROPS["C20"] = dict(suites=["traits"], cone=mk_cone(kinds=set()), title="Send / Sync")

H1_BUDGET = {"quick": (6000, 28), "thorough": (400000, 40)}

TRUSTED = [
    "Coq 8.16.1 kernel (coqc, full .vo build; vm_compute used, native_compute not used)",
    "no axioms: Print Assumptions of every pinned theorem must be 'Closed under the global context'",
    "extraction: ExtrOcamlBasic only (Extract Inductive bool, option, unit, list, prod, sumbool, sumor); no Extract Constant; OCaml 4.13.1",
    "translator /verif/kx (syn 2): symbolic execution of the protocol functions into canonical event automata and role tables (aut.rs), "
    "lock-discipline automata of the entry points, size dispatch by partial evaluation per size class (ptrx.rs), struct fields and unsafe impls: "
    "trusted to follow the source; cross-checked by H2 (run-time orderings, source lines, lock counts) and by rustc's verdicts",
    "OCaml driver coq/extract/driver.ml (parsing, printing, history generation) and python driver lib/*.py: glue, unverified",
    "correspondence harness /verif/harness (H1 interpreter, payload drop ledger, harness wakers) and the cfg(kanal_verif) shim in /repo/src/verif",
    "modelled, not verified: VecDeque, Arc, lock_api::Mutex, thread::park/unpark, Waker contract, Instant, rustc",
]


def field_diff(a, b):
    pa, pb = M.parse_out(a), M.parse_out(b)
    if a.startswith("<stopped") or b.startswith("<stopped"):
        return {"crash"}
    if a.startswith("T ") or b.startswith("T "):
        return {"T"}
    if pa is None or pb is None:
        return {"crash"}
    return {k for k in ("res", "d", "w", "b") if pa[k] != pb[k]}


def divergence_info(head, labels, idx, mlines, ilines):
    """classify a model/implementation divergence"""
    if idx is None or idx < 0 or mlines is None or ilines is None or idx >= len(ilines) or idx >= len(mlines):
        kind, flds = ("T" if idx is not None and idx >= len(labels) else (labels[idx].split()[0] if idx is not None and 0 <= idx < len(labels) else "crash")), {"crash"}
    else:
        flds = field_diff(mlines[idx], ilines[idx])
        kind = labels[idx].split()[0] if idx < len(labels) else "T"
    i = idx if idx is not None and idx >= 0 else len(labels)
    ctx = {"before": [l.split()[0] for l in labels[:i]],
           "obs": labels[i].split()[2] if i < len(labels) and labels[i].startswith("obs") else "",
           "lines": (mlines[idx] if mlines and 0 <= (idx or 0) < len(mlines) else "") + " " +
                    (ilines[idx] if ilines and 0 <= (idx or 0) < len(ilines) else "")}
    return kind, flds, ctx


def shrink_divergence(head, labels):
    def pred(h, ls):
        r = K.compare_one(h, ls)
        return r is not None and r != "illegal"
    small = K.shrink(head, labels, pred)
    r = K.compare_one(head, small)
    return small, r


def shrink_monitor(head, labels, mon):
    def pred(h, ls):
        rc, out = K.run_impl(K.one_history_text(h, ls), timeout=20)
        b = K.parse_blocks(out).get(h.split()[1])
        if b is None:
            return False
        # keep the history legal for the model (borrowed handles etc.)
        rcm, outm = K.run_model(K.one_history_text(h, ls))
        bm = K.parse_blocks(outm).get(h.split()[1])
        if bm is None or any(l.split(" ")[0] in ("invalid", "blocked") for l in bm[:-1]):
            return False
        return bool(mon(M.Hist(h, ls, b)))
    return K.shrink(head, labels, pred)


def corpus_text():
    d = os.path.join(K.ROOT, "corpus")
    out = []
    if os.path.isdir(d):
        n = 900000
        for f in sorted(os.listdir(d)):
            if f.endswith(".hist"):
                for head, labels in K.parse_hist(open(os.path.join(d, f)).read()):
                    parts = head.split()
                    parts[1] = str(n)
                    n += 1
                    out.append(K.one_history_text(" ".join(parts), labels))
    return "".join(out)


def stopped_witness(calls, il, ml):
    """the implementation hung or crashed where the reference completes: a concrete failing input"""
    if il and il[-1].startswith("<stopped"):
        i = len(il) - 1
        where = ("call %d (%s)" % (i, calls[i])) if i < len(calls) else "tear-down (dropping the remaining futures, then the handles)"
        return ["the real crate hangs or crashes at %s; the reference channel completes it with: %s" %
                (where, ml[i] if ml and i < len(ml) else "?")]
    return []


def examine(prop, head, labels, g):
    """turn one model/implementation mismatch into a violation record for `prop`, or None when the
    divergence is outside the property's cone"""
    spec = PROPS[prop]
    cone = spec["cone"]
    mon = M.MONITORS.get(prop)
    small, r = shrink_divergence(head, labels)
    if r is None or r == "illegal":
        small, r = labels, K.compare_one(head, labels)
        if r is None or r == "illegal":
            return None, None
    i2, ml, il = r
    kind, flds, ctx = divergence_info(head, small, i2 if isinstance(i2, int) else -1, ml, il)
    key = (kind, tuple(sorted(flds)), " ".join(re.sub(r"\d+", "#", l) for l in small))
    mv = mon(M.Hist(head, small, il)) if (mon and il) else []
    incone = cone(kind, flds, ctx)
    if incone and not mv:
        mv = stopped_witness(small, il, ml)
    need = spec.get("need")
    if not mv and not incone and need and any(l.split()[0] in need for l in labels):
        # are the property's own calls necessary for the failure?
        stripped = [l for l in labels if l.split()[0] not in need]
        r2 = K.compare_one(head, stripped) if stripped else None
        if r2 is None or r2 == "illegal":
            def pred(h, ls):
                rr = K.compare_one(h, ls)
                if rr is None or rr == "illegal":
                    return False
                j = rr[0] if isinstance(rr[0], int) and rr[0] >= 0 else len(ls)
                return any(l.split()[0] in need for l in ls[:j + 1])
            small = K.shrink(head, labels, pred)
            r = K.compare_one(head, small)
            if r is not None and r != "illegal":
                i2, ml, il = r
                kind, flds, ctx = divergence_info(head, small, i2 if isinstance(i2, int) else -1, ml, il)
                key = (kind, tuple(sorted(flds)), " ".join(re.sub(r"\d+", "#", l) for l in small))
                mv = mon(M.Hist(head, small, il)) if (mon and il) else []
                incone = True
                if not mv:
                    mv = stopped_witness(small, il, ml)
    if not mv and mon and g:
        # the unshrunk history may violate the monitor even if the shrunk divergence does not
        if mon(M.Hist(head, labels, g)):
            small2 = shrink_monitor(head, labels, mon)
            rc, out = K.run_impl(K.one_history_text(head, small2), timeout=20)
            il2 = K.parse_blocks(out).get(head.split()[1]) or []
            mv2 = mon(M.Hist(head, small2, il2))
            if mv2:
                mv, small, il = mv2, small2, il2
                rcm, outm = K.run_model(K.one_history_text(head, small2))
                ml = K.parse_blocks(outm).get(head.split()[1]) or []
    if not mv and incone and prop == "C16" and isinstance(i2, int) and 0 <= i2 < len(small) and i2 < len(il) and i2 < len(ml) \
            and small[i2].split()[0] in ("poll", "streamterm") and M.parse_out(il[i2]) and M.parse_out(ml[i2]) \
            and M.parse_out(il[i2])["res"] != M.parse_out(ml[i2])["res"]:
        # the polling contract is what a poll returns: a different result than the reference's is the failing input
        mv = ["call %d (%s) returned `%s` where the polling contract (reference) gives `%s`" % (i2, small[i2], il[i2], ml[i2])]
    if not mv and incone and prop == "C18" and isinstance(i2, int) and 0 <= i2 < len(small) and i2 < len(il) and i2 < len(ml):
        # C18's statement is the comparison itself: the call returns something else than the reference returns
        mv = ["call %d (%s) returned `%s` where the queue-plus-waiting-list reference returns `%s`" % (i2, small[i2], il[i2], ml[i2])]
    if mv:
        return key, {"witness": True, "header": head, "calls": small, "implementation": il, "model": ml,
                     "monitor": mv, "suite": "H1"}
    if incone:
        return key, {"witness": False, "header": head, "calls": small, "implementation": il, "model": ml,
                     "diverges_at_call": i2, "fields": sorted(flds), "suite": "H1",
                     "broken": "correspondence H1 (sequential differential against Atomic.astep) at a %s call" % kind}
    return key, None


def run_h1(prop, tier, seed, report):
    """returns list of violation dicts"""
    count, maxlen = H1_BUDGET[tier]
    stats, mism = K.h1_suite(seed, count, maxlen, shards=16 if tier == "thorough" else 8, extra_hist=corpus_text(),
                             exhaustive=(tier == "thorough"))
    report["h1"] = stats
    viols = []
    seen = set()
    outside = 0
    t_end = time.time() + (60 if tier == "quick" else 600)
    for head, labels, idx, e, g in mism[:60]:
        if time.time() > t_end:
            break
        key, v = examine(prop, head, labels, g)
        if key is None or key in seen:
            continue
        seen.add(key)
        if v is None:
            outside += 1
            continue
        viols.append(v)
        if v.get("witness") or len(viols) >= 4:
            break
    report["h1_divergences"] = len(mism)
    report["h1_divergences_outside_cone"] = outside
    return viols


def h2_corpus():
    """committed schedules that once exhibited a finding: replayed first on every run"""
    d = os.path.join(K.ROOT, "corpus")
    jobs = []
    if os.path.isdir(d):
        for f in sorted(os.listdir(d)):
            if f.endswith(".prog"):
                head, threads, specs = None, [], []
                for l in open(os.path.join(d, f)):
                    l = l.strip()
                    if l.startswith("P "):
                        head = l.split()
                    elif l.startswith("T "):
                        threads.append(l.split(" ", 2)[2])
                    elif l.startswith("S "):
                        specs.append(l[2:])
                if head:
                    jobs.append(("corpus-" + f, head[2], head[3], threads, specs))
    return jobs


def run_h2(prop, tier, seed, report):
    stats, fails = H2.explore(prop, tier, seed)
    # the corpus
    cj = h2_corpus()
    if cj:
        kinds = H2.KINDS.get(prop, set())
        for (pid, cap, spec, lines, threads, mv) in H2.run_batch(cj, 4):
            stats["executions"] = stats.get("executions", 0) + 1
            found = H2.judge(pid, cap, spec, lines, threads)
            for tag in ("A", "M", "K", "O", "S"):
                if mv.get(tag, "").startswith("reject"):
                    found.append((tag, mv[tag][7:]))
            for (k, msg) in found:
                if k in kinds:
                    fails.append({"kind": k, "message": msg, "program": {"id": pid, "capacity": cap, "threads": threads},
                                  "schedule": spec, "trace_tail": lines[-40:]})
    report["h2"] = stats
    viols, seen = [], set()
    fails = sorted(fails, key=lambda f: 0 if f["kind"] in ("RT", "deadline") else (2 if f["kind"] == "S" else 1))
    for f in fails:
        key = (f["kind"], re.sub(r"\d+", "#", f["message"])[:80])
        if key in seen:
            continue
        seen.add(key)
        what = {"A": "the extracted signal-protocol model (Sig.sstep) rejects the crate's event trace",
                "M": "the extracted lock model (Mutex.mstep) rejects the crate's event trace",
                "K": "a call took the channel lock a number of times its kind does not allow (not one critical section)",
                "O": "the results of the calls are not results of any operation-level interleaving of the atomic channel",
                "HB": "happens-before race on the crate's own trace (vector-clock detector)",
                "HBL": "the wait list is accessed by two threads with no happens-before between them (the lock does not order its critical sections)",
                "stuck": "an operation is blocked for ever although its counterpart finished",
                "ledger": "a tagged value was not received / destroyed / handed back exactly once",
                "deadline": "a timed call reported Timeout before its deadline",
                "RT": "a realtime call did not give up after one failed attempt at the internal lock",
                "S": "the run-time events do not come from the source sites that the pinned role mapping of the protocol model names "
                     "(the events themselves are accepted by the model: a tie to the source that no longer checks, not a failing input)",
                "corrupt": "a payload arrived corrupted"}[f["kind"]]
        if f["kind"] == "S":
            viols.append({"witness": False, "suite": "H2", "kind": "S", "program": f["program"], "schedule": f["schedule"],
                          "broken": "%s: %s" % (what, f["message"]),
                          "header": "capacity %s, threads %s" % (f["program"]["capacity"], " || ".join(f["program"]["threads"])),
                          "calls": ["schedule: " + f["schedule"]]})
            continue
        viols.append({"witness": True, "suite": "H2", "kind": f["kind"], "program": f["program"], "schedule": f["schedule"],
                      "monitor": ["%s: %s" % (what, f["message"])], "trace_tail": f["trace_tail"],
                      "header": "capacity %s, threads %s" % (f["program"]["capacity"], " || ".join(f["program"]["threads"])),
                      "calls": ["schedule: " + f["schedule"]]})
        if len(viols) >= 3:
            break
    return viols


def coq_eval(body, timeout=300):
    """evaluate a few vm_compute queries against the compiled development; returns coqc's output"""
    d = os.path.join(K.CACHE, "eval")
    os.makedirs(d, exist_ok=True)
    f = os.path.join(d, "Q_%d.v" % os.getpid())
    open(f, "w").write(body)
    rc, out = K.sh(["coqc", "-Q", os.path.join(K.COQ, "theories"), "KV", f], cwd=d, timeout=timeout)
    return rc, out


def run_traits(prop, tier, seed, report):
    """exhaustive comparison of the model's 56 Send/Sync verdicts with rustc's own"""
    rc, out = K.sh([K.KVH, "traits"], timeout=120)
    rustc = {}
    for l in out.split("\n"):
        f = l.split()
        if len(f) == 5:
            rustc[(f[0], f[1], f[2])] = (f[3], f[4])
    rc2, out2 = coq_eval("From KV Require Import TraitsBase Traits.\nFrom KV.gen Require Import Gen_Traits.\n"
                         "Definition dv (tsend tsync : bool) (tr : trait) (n : string) : bool :=\n"
                         "  derives struct_defs type_aliases explicit_impls tsend tsync 40 tr (TApp n [TParam]).\n"
                         "Eval vm_compute in (flat_map (fun n => flat_map (fun ts => flat_map (fun ty => [(n, ts, ty, dv ts ty Send n, dv ts ty Sync n)]) "
                         "[true; false]) [true; false]) (public_handles ++ public_futures)).\n")
    model = {}
    for m in re.finditer(r'\("(\w+)"(?:%string)?,\s*(true|false),\s*(true|false),\s*(true|false),\s*(true|false)\)', out2):
        model[(m.group(1), m.group(2), m.group(3))] = (m.group(4), m.group(5))
    report["traits"] = {"rustc_verdicts": 2 * len(rustc), "model_verdicts": 2 * len(model)}
    viols = []
    if rc != 0 or len(rustc) != 28:
        viols.append({"witness": False, "suite": "traits", "broken": "the rustc verdict probe did not build or run: " + out[-400:]})
        return viols
    cls = {("true", "true"): "u64", ("true", "false"): "Cell<u8>", ("false", "true"): "MutexGuard<'static, u8>", ("false", "false"): "Rc<()>"}
    for k in sorted(rustc):
        r, mo = rustc[k], model.get(k)
        tname = "%s<%s>" % (k[0], cls[(k[1], k[2])])
        # the property itself, on rustc's verdict
        want_send = k[1] == "true"
        if k[1] == "false" and (r[0] == "true" or r[1] == "true"):
            viols.append({"witness": True, "suite": "traits", "header": "rustc verdicts", "calls": [tname],
                          "monitor": ["rustc accepts `%s: %s` although the message type is not Send: a program moving or sharing it across threads now compiles"
                                      % (tname, "Send" if r[0] == "true" else "Sync")],
                          "program": "fn assert_send<X: Send>() {} fn main() { assert_send::<kanal::%s>(); }" % tname})
        elif k[1] == "true" and r[0] != "true":
            viols.append({"witness": True, "suite": "traits", "header": "rustc verdicts", "calls": [tname],
                          "monitor": ["rustc rejects `%s: Send` although the message type is Send" % tname]})
        elif k[1] == "true" and k[0] in ("Sender", "AsyncSender", "Receiver", "AsyncReceiver") and r[1] != "true":
            viols.append({"witness": True, "suite": "traits", "header": "rustc verdicts", "calls": [tname],
                          "monitor": ["rustc rejects `%s: Sync` although the message type is Send" % tname]})
        elif mo is not None and mo != r:
            viols.append({"witness": False, "suite": "traits",
                          "broken": "correspondence: the derivation model says (Send=%s, Sync=%s) for %s, rustc says (Send=%s, Sync=%s)"
                                    % (mo[0], mo[1], tname, r[0], r[1])})
    if len(model) != 28 and not viols:
        viols.append({"witness": False, "suite": "traits", "broken": "the model's verdict table could not be evaluated: " + out2[-300:]})
    return viols[:3]


def run_ptrsearch(prop, tier, seed, report):
    """model-side search, used when the C04 theorems no longer check against the regenerated size
    dispatch: finds a size and transfer path on which the bytes obtained differ from the bytes sent"""
    q = ["From KV Require Import PtrBase Ptr.", "From KV.gen Require Import Gen_Ptr.", "Open Scope string_scope."]
    paths = [("into a blocked receiver (recv)", 'path_sync_receiver ptr_sites SZ "lib.Receiver.recv#0" D'),
             ("into a blocked receiver (recv_timeout)", 'path_sync_receiver ptr_sites SZ "lib.Receiver.recv_timeout#0" D'),
             ("into a pending async receiver", "path_async_receiver ptr_sites SZ D"),
             ("out of a blocked sender", "path_sync_sender ptr_sites SZ D"),
             ("out of a pending async sender", "path_async_sender ptr_sites SZ D"),
             ("async sender reading its own value back", "path_async_sender_local ptr_sites SZ D")]
    sizes = [0, 1, 4, 7, 8, 9, 16]
    for name, e in paths:
        for sz in sizes:
            d = "[" + ";".join(str(i + 1) for i in range(sz)) + "]%N"
            q.append("Eval vm_compute in (%s)." % e.replace("SZ", str(sz)).replace("D", d))
    rc, out = coq_eval("\n".join(q) + "\n")
    results = re.findall(r"=\s*(Some\s*\[[^\]]*\]|None)", out.replace("\n", " "))
    viols = []
    i = 0
    for name, e in paths:
        for sz in sizes:
            if i < len(results):
                got = re.sub(r"\s|%N", "", results[i])
                want = "Some[" + ";".join(str(k + 1) for k in range(sz)) + "]"
                if got != want:
                    # a counterexample of the *translated model*: it is a failing input of the code only if the translator
                    # followed the code; it is reported as a lead, the implementation-side suites (H1 / H2 with the payload
                    # class of that size) decide whether the crate itself fails
                    viols.append({"witness": False, "suite": "model", "header": "size_of::<T>() = %d, path: %s" % (sz, name),
                                  "calls": ["bytes sent: %s" % want[4:]],
                                  "broken": "model-side counterexample, not confirmed on the implementation: with the size dispatch "
                                            "translated from the current source the byte-level model yields %s instead of the bytes sent at "
                                            "size_of::<T>() = %d on the path %s (None: an uninitialised word/cell is read or an unreachable "
                                            "leaf is reached)" % (got, sz, name)})
            i += 1
    report["ptrsearch"] = {"cases": i, "failing": len(viols)}
    return viols[:2]


def run_check(prop, tier, seed):
    t0 = time.time()
    if prop not in PROPS:
        print("unknown or unclaimed property " + prop)
        return 2
    spec = PROPS[prop]
    b = K.build_all()
    if not b.ok.get("harness", False) or not b.ok.get("extract", False):
        print("BUILD FAILURE: harness=%s extract=%s" % (b.ok.get("harness"), b.ok.get("extract")))
        print(b.logs.get("harness", "")[-1500:])
        print(b.logs.get("extract", "")[-1500:])
        # the instrumented build of the crate (or the extraction) does not build: nothing can be checked, so the
        # property is not shown to hold on this tree
        path = K.write_replay(prop, "obligation", {"witness": False, "suite": "build",
                              "broken": "the instrumented build of the current tree (cargo build of /verif/harness against /repo with --cfg kanal_verif) "
                                        "or the extraction does not build: no obligation of %s could be re-checked" % prop,
                              "harness_log": b.logs.get("harness", "")[-1500:], "extract_log": b.logs.get("extract", "")[-800:]})
        print("VIOLATION property=%s replay=%s no-failing-input-found" % (prop, path))
        return 1
    report = {}
    obligations, discharged, viols = [], [], []
    # --- proof obligations
    thms = K.theorems_of(prop)
    bad = K.grep_forbidden()
    obligations.append("no Admitted/Axiom/Parameter/unsafe flag in the development")
    if not bad:
        discharged.append(obligations[-1])
    else:
        viols.append({"witness": False, "broken": "forbidden construct: " + "; ".join(bad), "suite": "coq"})
    propfile = "theories/props/%s.v" % prop
    coq_ok = b.ok.get("coq", False)
    prop_ok = True
    if thms:
        rc, _ = K.sh(["make", "-q", propfile + "o"], cwd=K.COQ, timeout=120)
        prop_ok = (rc == 0)
        ass, _ = K.check_assumptions(prop, thms) if prop_ok else ({t: "not compiled" for t in thms}, "")
        for t in thms:
            obligations.append("theorem %s (props/%s.v) re-checked by coqc against regenerated gen/*.v; Print Assumptions closed" % (t, prop))
            if prop_ok and ass.get(t) == "closed":
                discharged.append(obligations[-1])
            else:
                viols.append({"witness": False, "suite": "coq",
                              "broken": "theorem %s no longer checks: %s; failing files: %s" %
                                        (t, ass.get(t), ", ".join(b.coq_failed_files) or "?"),
                              "coq_log": b.logs.get("coq", "")[-1500:]})
    if thms and prop_ok and tier == "thorough":
        # the independent checker re-checks the compiled theorems and everything they depend on
        ob = "coqchk -o re-checks props/%s.vo and all its dependencies: no axiom, nothing relying on type-in-type, unsafe fixpoints or assumed positivity" % prop
        obligations.append(ob)
        rc, out = K.sh(["coqchk", "-silent", "-o", "-Q", "theories", "KV", "KV.props.%s" % prop], cwd=K.COQ, timeout=1500)
        flat = " ".join(out.split())
        good = (rc == 0 and "Axioms: <none>" in flat and "type-in-type: <none>" in flat and "unsafe (co)fixpoints: <none>" in flat
                and "positivity is assumed: <none>" in flat)
        report["coqchk"] = "ok" if good else out[-600:]
        if good:
            discharged.append(ob)
        else:
            viols.append({"witness": False, "suite": "coq", "broken": "coqchk does not accept props/%s.vo as axiom-free: %s" % (prop, out[-400:])})
    report["theorems"] = thms
    report["coq_build_ok"] = coq_ok
    # --- correspondence suites
    for s in spec["suites"]:
        name = {"h1": "correspondence H1: every call result, drop, wake-up and handed-back value of random and corpus call "
                      "histories equal on the real crate and on the extracted Atomic.astep",
                "traits": "correspondence: the 56 Send/Sync verdicts of the derivation model equal rustc's own verdicts (exhaustive)",
                "ptrsearch": "model-side evaluation of every transfer path at sizes 0,1,4,7,8,9,16 over the regenerated size dispatch",
                "h2": "correspondence H2: event traces of scheduled multi-threaded runs of the real crate accepted by the extracted "
                      "Sig.sstep / Mutex.mstep, one critical section per call, outcomes explained by Atomic.astep; no happens-before "
                      "race, no stuck thread, ledger exact"}[s]
        obligations.append(name)
        sv = {"h1": run_h1, "h2": run_h2, "traits": run_traits, "ptrsearch": run_ptrsearch}[s](prop, tier, seed, report)
        if not sv:
            discharged.append(name)
        viols.extend(sv)
    # --- known findings
    kf, fixed = K.known_findings()
    real = []
    for v in viols:
        key = v.get("key")
        hit = [f for f in kf if f["property"] == prop and key and f["key"] == key]
        if hit:
            print("KNOWN-FINDING: property=%s %s" % (prop, hit[0]["what"]))
        else:
            real.append(v)
    for f in kf:
        pass
    # --- report
    h1 = report.get("h1", {})
    cov = {
        "obligations": len(obligations), "discharged": len(discharged),
        "obligation_list": obligations,
        "checker_cmd": "cd /verif/coq && coq_makefile -f _CoqProject -o Makefile && make -j16  (coqc 8.16.1); "
                       "Print Assumptions per theorem via lib/kvlib.py:check_assumptions",
        "trusted_base": TRUSTED,
        "evaluations": h1.get("histories", 0),
        "distinct_nontrivial": h1.get("distinct_nontrivial_histories", 0),
        "rule": "H1: model-guided random call histories (one PRNG, seed below) plus the committed corpus, run on the real crate and "
                "on the extracted model; a history is non-trivial when some call blocks/pends, fails, wakes a waker or drops a value; "
                "distinct = distinct (calls, capacity, payload class, flavour)",
        "samples": h1.get("samples", []),
        "traces_validated_against_impl": h1.get("histories", 0),
        "h1_calls": h1.get("labels", 0),
        "h1_call_kinds": h1.get("kinds", {}),
        "h1_payload_classes": h1.get("classes", {}),
        "h1_capacities": h1.get("caps", {}),
        "h1_history_lengths": h1.get("lengths", {}),
        "h1_result_kinds": h1.get("results", {}),
        "h1_distinct_outcome_lines": h1.get("distinct_outcome_lines", 0),
        "h1_divergences": report.get("h1_divergences", 0),
        "h1_exhaustive": h1.get("exhaustive", {}),
        "h1_enumerated_identical": h1.get("enumerated_identical", 0),
        "h1_divergences_outside_cone": report.get("h1_divergences_outside_cone", 0),
        "theorems": thms,
        "build_cached": getattr(b, "cached", False),
        "h2": {k: v for k, v in report.get("h2", {}).items()},
    }
    if not h1 and "traits" in report:
        cov["evaluations"] = report["traits"]["rustc_verdicts"]
        cov["distinct_nontrivial"] = report["traits"]["rustc_verdicts"]
        cov["exhaustive"] = True
        cov["rule"] = "7 public types x {Send, Sync} x 4 classes of message type (Send/Sync yes/no): rustc's verdict vs the model's"
        cov["samples"] = [{"type": "Sender<Rc<()>>", "rustc": "not Send, not Sync", "model": "not Send, not Sync"}]
    elif not h1:
        h2s = report.get("h2", {})
        cov["evaluations"] = h2s.get("executions", 0)
        cov["distinct_nontrivial"] = h2s.get("distinct_traces", 0)
        cov["rule"] = ("H2: program templates x schedules (sequential, single forced switches at every distinct (thread, source line), "
                       "seeded random switching, held peers, spurious wake-ups, both parallelism settings); distinct = distinct event traces")
        cov["samples"] = h2s.get("sample", [])
        cov["traces_validated_against_impl"] = h2s.get("executions", 0)
    K.write_evidence(prop, tier, seed, t0, cov, len(real),
                     ["the Atomic model is tied to the code by differential testing (H1), which is exploration, not proof",
                      "single-threaded histories only in H1; fine-grained interleavings are covered by the protocol models and H2"],
                     level="proof" if thms else "exploration")
    if real:
        # prefer a concrete witness
        real.sort(key=lambda v: (not v.get("witness"),))
        v = real[0]
        if not v.get("witness") and len(real) > 1:
            v = dict(v, other_findings=[x.get("broken", "") for x in real[1:] if x.get("broken")][:6])
        path = K.write_replay(prop, {"H1": "h1", "H2": "h2"}.get(v.get("suite"), "obligation"), v)
        tail = "" if v.get("witness") else " no-failing-input-found"
        if v.get("witness"):
            print("failing input: %s | %s" % (v["header"], " ; ".join(v["calls"])))
            for m in v["monitor"][:3]:
                print("  " + m)
        else:
            print("broken: " + v.get("broken", ""))
            if v.get("calls"):
                print("first divergence: %s | %s" % (v["header"], " ; ".join(v["calls"])))
                print("  model: %s" % (v.get("model") or [""])[min(v.get("diverges_at_call") or 0, len(v.get("model") or [""]) - 1)] if v.get("model") else "")
                print("  impl : %s" % (v.get("implementation") or [""])[min(v.get("diverges_at_call") or 0, len(v.get("implementation") or [""]) - 1)] if v.get("implementation") else "")
        print("VIOLATION property=%s replay=%s%s" % (prop, path, tail))
        return 1
    print("OK property=%s tier=%s obligations=%d discharged=%d h1_histories=%d h2_executions=%d wall=%.1fs" %
          (prop, tier, len(obligations), len(discharged), h1.get("histories", 0), report.get("h2", {}).get("executions", 0),
           time.time() - t0))
    return 0


def replay(prop, path):
    v = json.load(open(path))
    K.build_all()
    if v.get("suite") == "H2":
        for par in (4, 1):
            res = H2.replay_exec(v["program"], v["schedule"], par)
            for (pid, cap, spec, lines, threads, mv) in res:
                found = H2.judge(pid, cap, spec, lines, threads)
                for tag in ("A", "M", "K", "O"):
                    if mv.get(tag, "").startswith("reject"):
                        found.append((tag, mv[tag][7:]))
                print("\n".join(lines[-60:]))
                for k, m in found:
                    print("%s: %s" % (k, m))
                if any(k == v.get("kind") for k, _ in found):
                    print("VIOLATION property=%s replay=%s" % (prop, path))
                    return 1
        print("replay no longer fails")
        return 0
    if v.get("calls"):
        head, calls = v["header"], v["calls"]
        rc, out = K.run_impl(K.one_history_text(head, calls), timeout=30)
        il = K.parse_blocks(out).get(head.split()[1]) or []
        rcm, outm = K.run_model(K.one_history_text(head, calls))
        ml = K.parse_blocks(outm).get(head.split()[1]) or []
        print(head)
        for i, c in enumerate(calls):
            print("%-28s impl: %-40s model: %s" % (c, il[i] if i < len(il) else "<none>", ml[i] if i < len(ml) else "<none>"))
        print("trailer impl: %s model: %s" % (il[len(calls)] if len(il) > len(calls) else "", ml[len(calls)] if len(ml) > len(calls) else ""))
        mon = M.MONITORS.get(prop)
        mv = mon(M.Hist(head, calls, il)) if mon and il else []
        for m in mv:
            print("monitor: " + m)
        if mv or il != ml:
            print("VIOLATION property=%s replay=%s" % (prop, path))
            return 1
        print("replay no longer fails")
        return 0
    print(json.dumps(v, indent=1))
    return 1


DEFAULT_NOTE = ("Trusted: Coq kernel; extraction (ExtrOcamlBasic); the hand-written model's correspondence to the code is "
                "validated by differential testing (H1) at measured coverage, not proved; std/lock_api/futures behaviour is modelled.")
NOT_CLAIMED = {}


# which models the theorems of a property are about, and what ties them to /repo on every run
SCOPE = {
    "Atomic": "the Atomic model (one API operation = one atomic step; any history length, capacity, number of handles, blocked callers and futures; by induction over executions)",
    "Sig": "the signal hand-off protocol model Sig.v (every reachable protocol state, computed and proved closed inside Coq, for the role orderings regenerated from the current source)",
    "Mutex": "the lock model Mutex.v (any number of threads, every interleaving, any number of retries; for the orderings regenerated from the current source)",
    "Lock": "the lock-discipline automata regenerated from the current source (LockDiscipline.v: abstract interpreter proved sound, every path of every entry point)",
    "Reduce": "Reduce.v / AtomicReduce.v (any interleaving of lock events and critical sections equals its serialisation; instantiated with the atomic channel)",
    "Ptr": "the byte-level KanalPtr model over the size dispatch regenerated from the current source (every size of T, by size class)",
    "Traits": "the Send/Sync derivation model over the struct fields and unsafe impls regenerated from the current source",
    "Deadline": "the clock model of wait_timeout (Deadline.v)",
    "Vec": "the caller's vector in drain_into (Vec.v: checked usize arithmetic of the reserve hint, pushes under any allocator growth policy; every vector, every channel state)",
}
TIES = {
    "h1": "H1 differential of random + corpus call histories against the real crate",
    "h2": "H2 scheduled multi-threaded runs of the real crate judged by the extracted models (Sig.sstep, Mutex.mstep, Atomic.astep outcome inclusion), lock counts, happens-before detector, ledger",
    "kx": "kx translator (canonical event automata of signal.rs / mutex.rs / backoff.rs equal to the pinned ones; role orderings; lock-discipline automata; size dispatch)",
    "rustc": "rustc's own 56 Send/Sync verdicts compared with the model's table (exhaustive)",
}
MODELS_OF = {
    "C01": (["Atomic"], ["h1", "h2"]), "C02": (["Atomic"], ["h1", "h2"]),
    "C03": (["Lock", "Mutex", "Sig", "Reduce"], ["kx", "h2", "h1"]),
    "C04": (["Ptr", "Sig"], ["kx", "h1", "h2"]), "C05": (["Atomic"], ["h1", "h2"]),
    "C06": (["Atomic", "Sig", "Lock"], ["kx", "h1", "h2"]), "C07": (["Sig"], ["kx", "h2"]),
    "C08": (["Atomic"], ["h1", "h2"]), "C09": (["Atomic", "Sig"], ["h1", "h2"]), "C10": (["Atomic"], ["h1", "h2"]),
    "C11": (["Atomic"], ["h1", "h2"]), "C12": (["Atomic"], ["h1", "h2"]),
    "C13": (["Atomic", "Sig", "Deadline"], ["kx", "h1", "h2"]), "C14": (["Atomic", "Lock", "Mutex"], ["kx", "h1", "h2"]),
    "C15": (["Atomic", "Sig"], ["h1", "h2"]), "C16": (["Atomic"], ["h1", "h2"]),
    "C17": (["Mutex"], ["kx", "h2"]), "C18": (["Atomic"], ["h1"]), "C19": (["Atomic", "Vec", "Lock"], ["kx", "h1", "h2"]),
    "C20": (["Traits"], ["kx", "rustc"]),
}


def default_level_text(pid, thms):
    if thms:
        ms, ts = MODELS_OF.get(pid, (["Atomic"], ["h1"]))
        return ("Theorems %s proved in Coq (no axioms) about %s. Tied to /repo on every run by: %s." %
                (", ".join(thms), "; ".join(SCOPE[m] for m in ms), "; ".join(TIES[t] for t in ts)))
    return ("Correspondence only so far: the executable Coq model Atomic.astep and the real crate agree on every observable of "
            "random single-threaded call histories; the theorems for this property are not written yet.")


def default_technique(pid, thms):
    if thms:
        ms, ts = MODELS_OF.get(pid, (["Atomic"], ["h1"]))
        short = {"Atomic": "induction over executions of the Atomic model", "Sig": "reflexive closure of the finite signal-protocol state space",
                 "Mutex": "invariant of the lock model", "Lock": "proved-sound abstract interpretation of regenerated lock-discipline automata",
                 "Reduce": "lock-reduction (serialisation) theorem", "Ptr": "case analysis on the size class over the regenerated dispatch",
                 "Traits": "case analysis of the trait-derivation model", "Deadline": "clock model of the timed wait",
                 "Vec": "induction over the pushes of the vector model, any allocator growth policy"}
        tie = {"h1": "H1 model/implementation differential", "h2": "H2 scheduled executions judged by the extracted models",
               "kx": "translator-regenerated facts re-checked by coqc", "rustc": "rustc verdict comparison"}
        return "Coq proof (%s); tie: %s" % ("; ".join(short[m] for m in ms), ", ".join(tie[t] for t in ts))
    return "differential testing of the crate against an executable Coq model (theorems pending)"
