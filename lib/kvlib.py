"""kvlib - check driver for the kanal Coq verification (see DESIGN.md sections 7, 10).

One property check =
  1. rebuild everything that depends on /repo's working tree (harness with
     --cfg kanal_verif, translator kx -> coq/theories/gen/*.v, full Coq build,
     extracted model), under a file lock so concurrent checks share the work;
  2. verify the property's proof obligations: pinned theorems compiled, their
     Print Assumptions closed, no Admitted/Axiom in the development, generated
     side conditions hold;
  3. run the correspondence suites the property depends on;
  4. on a broken obligation or correspondence: search for a concrete failing
     input (implementation-side monitors over the real crate's outputs, and the
     model-side searchers), write a replay, print VIOLATION, exit 1;
  5. write evidence/<id>.json.
"""
import os, sys, json, time, subprocess, hashlib, fcntl, re, random, shutil

ROOT = os.path.dirname(os.path.dirname(os.path.abspath(__file__)))
REPO = os.environ.get("KV_REPO", "/repo")
CACHE = os.path.join(ROOT, ".cache")
COQ = os.path.join(ROOT, "coq")
HARNESS = os.path.join(ROOT, "harness")
KX = os.path.join(ROOT, "kx")
TARGET = os.path.join(CACHE, "target")
KMODEL = os.path.join(COQ, "extract", "kmodel")
KVH = os.path.join(TARGET, "release", "kvharness")
KXBIN = os.path.join(TARGET, "release", "kx")
ENV = dict(os.environ, CARGO_NET_OFFLINE="true", CARGO_TARGET_DIR=TARGET)

sys.path.insert(0, os.path.dirname(os.path.abspath(__file__)))


def sh(cmd, cwd=None, timeout=1200, env=None, inp=None):
    """run a command, return (rc, stdout+stderr)"""
    try:
        p = subprocess.run(cmd, cwd=cwd, env=env or ENV, input=inp, timeout=timeout,
                           stdout=subprocess.PIPE, stderr=subprocess.STDOUT,
                           shell=isinstance(cmd, str), text=True)
        return p.returncode, p.stdout
    except subprocess.TimeoutExpired as e:
        return 124, (e.stdout or "") + "\nTIMEOUT"


def log(msg):
    print("[kv] " + msg, flush=True)


# --------------------------------------------------------------------------
# build
# --------------------------------------------------------------------------

def src_digest():
    h = hashlib.sha256()
    for d, _, fs in sorted(os.walk(os.path.join(REPO, "src"))):
        for f in sorted(fs):
            p = os.path.join(d, f)
            h.update(p.encode())
            h.update(open(p, "rb").read())
    for f in ("Cargo.toml",):
        h.update(open(os.path.join(REPO, f), "rb").read())
    return h.hexdigest()


def verif_digest():
    h = hashlib.sha256()
    for top in ("coq/theories", "coq/extract", "harness/src", "kx/src"):
        for d, _, fs in sorted(os.walk(os.path.join(ROOT, top))):
            if "/gen" in d:
                continue
            for f in sorted(fs):
                if f.endswith((".v", ".ml", ".rs")):
                    p = os.path.join(d, f)
                    h.update(p.encode())
                    h.update(open(p, "rb").read())
    return h.hexdigest()


class Build:
    """result of build_all: which stages succeeded, with logs"""
    def __init__(self):
        self.ok = {}
        self.logs = {}
        self.coq_failed_files = []

    def all_ok(self):
        return all(self.ok.values())


def coq_files():
    out = []
    for sub in ("", "gen", "proofs", "props"):
        d = os.path.join(COQ, "theories", sub)
        if os.path.isdir(d):
            for f in sorted(os.listdir(d)):
                if f.endswith(".v"):
                    out.append(os.path.join("theories", sub, f) if sub else os.path.join("theories", f))
    return out


def write_coqproject():
    files = coq_files()
    txt = "-Q theories KV\n" + "\n".join(files) + "\n"
    p = os.path.join(COQ, "_CoqProject")
    old = open(p).read() if os.path.exists(p) else ""
    if old != txt:
        open(p, "w").write(txt)
    return files


def build_all(force=False):
    """(re)build harness, translator output, Coq development, extracted model."""
    os.makedirs(CACHE, exist_ok=True)
    lockf = open(os.path.join(CACHE, "build.lock"), "w")
    fcntl.flock(lockf, fcntl.LOCK_EX)
    b = Build()
    try:
        stamp_p = os.path.join(CACHE, "build.stamp")
        digest = src_digest() + ":" + verif_digest()
        if not force and os.path.exists(stamp_p):
            try:
                st = json.load(open(stamp_p))
                if st.get("digest") == digest and os.path.exists(KVH) and os.path.exists(KMODEL):
                    b.ok = st["ok"]
                    b.logs = st.get("logs", {})
                    b.coq_failed_files = st.get("coq_failed_files", [])
                    b.cached = True
                    return b
            except Exception:
                pass
        b.cached = False
        # 1. harness (against /repo's working tree, hooks on)
        lock_src = os.path.join(REPO, "Cargo.lock")
        if os.path.exists(lock_src):
            shutil.copy(lock_src, os.path.join(HARNESS, "Cargo.lock"))
        rc, out = sh(["cargo", "build", "--release", "--offline"], cwd=HARNESS, timeout=900)
        b.ok["harness"] = rc == 0
        b.logs["harness"] = out[-4000:]
        # 2. translator kx -> gen/*.v
        if os.path.isdir(KX):
            rc, out = sh(["cargo", "build", "--release", "--offline"], cwd=KX, timeout=900)
            b.ok["kx_build"] = rc == 0
            b.logs["kx_build"] = out[-3000:]
            if rc == 0:
                gen = os.path.join(COQ, "theories", "gen")
                os.makedirs(gen, exist_ok=True)
                tmp = os.path.join(CACHE, "gen.tmp")
                shutil.rmtree(tmp, ignore_errors=True)
                os.makedirs(tmp)
                rc, out = sh([KXBIN, os.path.join(REPO, "src"), tmp], timeout=120)
                b.ok["kx_run"] = rc == 0
                b.logs["kx_run"] = out[-3000:]
                if rc == 0:
                    for f in sorted(os.listdir(tmp)):
                        new = open(os.path.join(tmp, f)).read()
                        dst = os.path.join(gen, f)
                        if not os.path.exists(dst) or open(dst).read() != new:
                            open(dst, "w").write(new)
        # 3. Coq: full .vo build, keep going to learn every file that fails
        write_coqproject()
        rc, out = sh("coq_makefile -f _CoqProject -o Makefile", cwd=COQ, timeout=60)
        # one file never gets more than five minutes (a proof that starts computing on generated data must fail, not stall)
        rc, out = sh("timeout 1500 make -k -j16 COQC='timeout 300 coqc' 2>&1", cwd=COQ, timeout=1600)
        b.ok["coq"] = rc == 0
        b.logs["coq"] = out[-6000:]
        failed = re.findall(r'File "\./(theories/[^"]+\.v)", line \d+, characters [\d-]+:\s*\n\s*Error', out)
        for m in re.finditer(r"\*\*\* \[[^\]]*?(theories/\S+?)\.vo", out):
            failed.append(m.group(1) + ".v")
        b.coq_failed_files = sorted(set(failed))
        # 4. extraction + OCaml driver
        ex = os.path.join(COQ, "extract")
        rc, out = sh("coqc -Q ../theories KV Extract.v 2>&1 && ocamlfind ocamlopt -O3 -package str "
                     "kmodel.mli kmodel.ml h2check.ml driver.ml -o kmodel 2>&1 || ocamlfind ocamlopt -package str "
                     "kmodel.mli kmodel.ml h2check.ml driver.ml -o kmodel 2>&1", cwd=ex, timeout=600)
        b.ok["extract"] = rc == 0 and os.path.exists(KMODEL)
        b.logs["extract"] = out[-3000:]
        json.dump({"digest": digest, "ok": b.ok, "logs": b.logs, "coq_failed_files": b.coq_failed_files},
                  open(stamp_p, "w"))
        return b
    finally:
        fcntl.flock(lockf, fcntl.LOCK_UN)
        lockf.close()


# --------------------------------------------------------------------------
# proof obligations
# --------------------------------------------------------------------------

FORBIDDEN = re.compile(r"\b(Admitted|admit|Axiom|Axioms|Parameter|Parameters|Conjecture|Conjectures|"
                       r"Admit Obligations|Unset Guard Checking|Unset Positivity Checking|"
                       r"Unset Universe Checking|bypass_check|type-in-type|impredicative-set)\b")


def strip_comments(s):
    out, depth, i = [], 0, 0
    while i < len(s):
        if s.startswith("(*", i):
            depth += 1
            i += 2
        elif s.startswith("*)", i) and depth > 0:
            depth -= 1
            i += 2
        else:
            if depth == 0:
                out.append(s[i])
            i += 1
    return "".join(out)


def grep_forbidden():
    """Admitted / Axiom / ... anywhere in the development (comments stripped);
    Variable/Hypothesis outside a section."""
    bad = []
    for f in coq_files() + ["extract/Extract.v"]:
        p = os.path.join(COQ, f)
        if not os.path.exists(p):
            continue
        s = strip_comments(open(p).read())
        for m in FORBIDDEN.finditer(s):
            bad.append("%s: %s" % (f, m.group(0)))
        depth = 0
        for line in s.split("\n"):
            t = line.strip()
            if re.match(r"Section\s", t):
                depth += 1
            elif re.match(r"End\s", t) and depth > 0:
                depth -= 1
            elif depth == 0 and re.match(r"(Variable|Variables|Hypothesis|Hypotheses|Context)\b", t):
                bad.append("%s: %s outside a section" % (f, t.split()[0]))
    return bad


def theorems_of(prop):
    """pinned theorems of props/<prop>.v : names after 'Theorem'"""
    p = os.path.join(COQ, "theories", "props", prop + ".v")
    if not os.path.exists(p):
        return []
    s = strip_comments(open(p).read())
    return re.findall(r"^\s*Theorem\s+([A-Za-z0-9_']+)", s, re.M)


ALLOWED_AXIOMS = set()   # the development uses no axioms; see DESIGN.md section 8


def check_assumptions(prop, thms):
    """run Print Assumptions on every pinned theorem against the compiled .vo files"""
    if not thms:
        return {}, ""
    d = os.path.join(CACHE, "assump")
    os.makedirs(d, exist_ok=True)
    f = os.path.join(d, "A_%s.v" % prop)
    with open(f, "w") as fh:
        fh.write("From KV.props Require Import %s.\n" % prop)
        for t in thms:
            fh.write('Goal True. idtac "BEGIN %s". Abort.\nPrint Assumptions %s.\nGoal True. idtac "END %s". Abort.\n' % (t, t, t))
    rc, out = sh(["coqc", "-Q", os.path.join(COQ, "theories"), "KV", "-o", os.path.join(d, "A_%s.vo" % prop), f],
                 cwd=d, timeout=300)
    res = {}
    for t in thms:
        m = re.search(r"BEGIN %s\n(.*?)END %s" % (re.escape(t), re.escape(t)), out, re.S)
        if rc != 0 or not m:
            res[t] = "unchecked: " + out[-300:]
        else:
            body = m.group(1).strip()
            if body.startswith("Closed under the global context"):
                res[t] = "closed"
            else:
                axs = re.findall(r"^([A-Za-z0-9_.']+)\s*:", body, re.M)
                extra = [a for a in axs if a not in ALLOWED_AXIOMS]
                res[t] = "closed" if not extra else "axioms: " + ",".join(extra)
    return res, out


# --------------------------------------------------------------------------
# H1: sequential differential
# --------------------------------------------------------------------------

def parse_blocks(text):
    """split harness/model output into {hid: [lines]}"""
    blocks, cur, hid = {}, None, None
    for line in text.split("\n"):
        if line.startswith("H "):
            hid = line.split()[1]
            cur = []
        elif line == "E":
            if hid is not None:
                blocks[hid] = cur
            hid, cur = None, None
        elif cur is not None:
            cur.append(line)
    if hid is not None and cur is not None:
        # the process stopped inside this history: keep what it printed, marked
        blocks[hid] = cur + ["<stopped: hang or crash>"]
    return blocks


def parse_hist(text):
    hs, cur, head = [], None, None
    for line in text.split("\n"):
        line = line.strip()
        if not line:
            continue
        if line.startswith("H "):
            head = line
            cur = []
        elif line == "E":
            hs.append((head, cur))
        else:
            cur.append(line)
    return hs


def run_model(hist_text):
    rc, out = sh([KMODEL, "run"], inp=hist_text, timeout=600)
    return rc, out


def run_impl(hist_text, par=None, timeout=600, fast=False):
    env = dict(ENV)
    if fast:
        env["KV_WATCHDOG_MS"] = "40"
    if par:
        env["KV_PARALLELISM"] = str(par)
    try:
        p = subprocess.run([KVH, "h1"], input=hist_text, env=env, timeout=timeout,
                           stdout=subprocess.PIPE, stderr=subprocess.PIPE, text=True)
        return p.returncode, p.stdout
    except subprocess.TimeoutExpired as e:
        return 124, (e.stdout or "") if isinstance(e.stdout, str) else ""


def one_history_text(head, labels):
    return head + "\n" + "\n".join(labels) + "\nE\n"


def compare_one(head, labels, fast=True):
    """returns None if model and implementation agree on this history, else
    (index of first differing line or -1 for crash/hang, model lines, impl lines)"""
    txt = one_history_text(head, labels)
    rc_m, out_m = run_model(txt)
    rc_i, out_i = run_impl(txt, timeout=20, fast=fast)
    if rc_i != 0 and fast:
        # a stop under the short watchdog is confirmed with the standard one
        rc_i, out_i = run_impl(txt, timeout=20, fast=False)
    hid = head.split()[1]
    bm = parse_blocks(out_m).get(hid)
    bi = parse_blocks(out_i).get(hid)
    if bm is None:
        return ("model-error", [], [])
    if any(l.split(" ")[0] in ("invalid", "hang", "blocked") for l in bm[:-1]):
        return "illegal"
    if bi is None:
        return (-1, bm, ["<crash/hang rc=%s>" % rc_i])
    for i, (a, c) in enumerate(zip(bm, bi)):
        if a != c:
            return (i, bm, bi)
    if len(bm) != len(bi):
        return (min(len(bm), len(bi)), bm, bi)
    return None


def shrink(head, labels, pred):
    """greedy delta debugging: drop labels while pred(head, labels) stays true"""
    cur = list(labels)
    n = 2
    while len(cur) >= 2:
        chunk = max(1, len(cur) // n)
        reduced = False
        i = 0
        while i < len(cur):
            cand = cur[:i] + cur[i + chunk:]
            if cand and pred(head, cand):
                cur = cand
                reduced = True
            else:
                i += chunk
        if not reduced:
            if chunk == 1:
                break
            n = min(len(cur), n * 2)
    return cur


def h1_suite(seed, count, maxlen, shards=8, extra_hist=None, exhaustive=False):
    """generate `count` model-guided histories, run them on the crate, diff.
    returns dict(stats..., mismatches=[(head, labels, idx, model, impl)])"""
    d = os.path.join(CACHE, "h1", "run_%d_%d" % (os.getpid(), seed))
    shutil.rmtree(d, ignore_errors=True)
    os.makedirs(d)
    per = max(1, count // shards)
    procs = []
    for s in range(shards):
        hf, ef = os.path.join(d, "hist%d.txt" % s), os.path.join(d, "exp%d.txt" % s)
        procs.append((subprocess.Popen([KMODEL, "gen", str(seed * 1000 + s), str(per), str(maxlen), hf, ef]), hf, ef))
    mism, stats = [], {"histories": 0, "labels": 0, "kinds": {}, "classes": {}, "caps": {}, "results": {},
                       "lengths": {}, "distinct_outcome_lines": 0}
    distinct = set()
    nontrivial = set()
    samples = []
    files = []
    for p, hf, ef in procs:
        p.wait()
        files.append((hf, ef))
    if extra_hist:
        hf = os.path.join(d, "corpus_hist.txt")
        open(hf, "w").write(extra_hist)
        rc, out = run_model(extra_hist)
        ef = os.path.join(d, "corpus_exp.txt")
        open(ef, "w").write(out)
        files.insert(0, (hf, ef))
    enum_counts = {}
    if exhaustive:
        # every executable history up to depth 3 over the full alphabet, and up to depth 4 over a reduced one
        for name, depth, red in (("enum_d3_full", 3, 0), ("enum_d4_reduced", 4, 1)):
            hf, ef = os.path.join(d, name + ".hist"), os.path.join(d, name + ".exp")
            rc, out = sh([KMODEL, "enum", str(depth), str(red), hf, ef], timeout=600)
            try:
                enum_counts[name] = int(out.strip().split()[-1])
            except Exception:
                enum_counts[name] = 0
            files.append((hf, ef))
    stats["exhaustive"] = enum_counts
    impl_procs = []
    for hf, ef in files:
        impl_procs.append((subprocess.Popen([KVH, "h1"], stdin=open(hf), stdout=subprocess.PIPE,
                                            stderr=subprocess.DEVNULL, text=True, env=ENV), hf, ef))
    for p, hf, ef in impl_procs:
        try:
            out, _ = p.communicate(timeout=180)
        except subprocess.TimeoutExpired:
            p.kill()
            out, _ = p.communicate()
        if "enum_" in hf and p.returncode == 0 and out == open(ef).read():
            # identical output for the whole enumeration: nothing to examine
            n = out.count("\nE\n") + (1 if out.startswith("E\n") else 0)
            stats["histories"] += n
            stats["enumerated_identical"] = stats.get("enumerated_identical", 0) + n
            continue
        got = parse_blocks(out)
        hung = None
        if p.returncode != 0:
            # the harness stopped (hang watchdog, abort, segfault) inside the last history it announced
            hs = re.findall(r"^H (\S+)$", out, re.M)
            hung = hs[-1] if hs else None
            stats["impl_stopped"] = stats.get("impl_stopped", 0) + 1
        exp = parse_blocks(open(ef).read())
        for head, labels in parse_hist(open(hf).read()):
            f = head.split()
            hid = f[1]
            stats["histories"] += 1
            stats["labels"] += len(labels)
            stats["classes"][f[3]] = stats["classes"].get(f[3], 0) + 1
            stats["caps"][f[2]] = stats["caps"].get(f[2], 0) + 1
            lb = str(min(len(labels) // 8 * 8, 40))
            stats["lengths"][lb] = stats["lengths"].get(lb, 0) + 1
            e, g = exp.get(hid), got.get(hid)
            if hung is not None and g is None and hid != hung:
                # never run because the process stopped earlier: not a divergence of this history
                stats["not_run"] = stats.get("not_run", 0) + 1
                continue
            for l in labels:
                k = l.split()[0]
                stats["kinds"][k] = stats["kinds"].get(k, 0) + 1
            if e:
                nt = False
                for l, o in zip(labels, e):
                    r = o.split(" ")[0]
                    rk = re.sub(r"\d+", "#", r)
                    key = l.split()[0] + "/" + rk
                    stats["results"][key] = stats["results"].get(key, 0) + 1
                    distinct.add(l.split()[0] + " " + re.sub(r"\d+", "#", o))
                    if "w=[]" not in o or "d=[]" not in o or "pending" in r or "err" in r or "some" in r:
                        nt = True
                if nt:
                    nontrivial.add(hashlib.md5(("|".join(labels) + head.split(" ", 2)[2]).encode()).hexdigest())
            if len(samples) < 3 and len(labels) >= 6 and e:
                samples.append({"header": head, "calls": labels, "outputs": e})
            if e is None or g is None or e != g:
                idx = -1
                if e and g:
                    idx = next((i for i, (a, c) in enumerate(zip(e, g)) if a != c), min(len(e), len(g)))
                mism.append((head, labels, idx, e, g))
    stats["distinct_outcome_lines"] = len(distinct)
    stats["distinct_nontrivial_histories"] = len(nontrivial)
    stats["samples"] = samples
    shutil.rmtree(d, ignore_errors=True)
    return stats, mism


# --------------------------------------------------------------------------
# property table
# --------------------------------------------------------------------------

def load_props():
    out = {}
    for l in open(os.path.join(ROOT, "properties.jsonl")):
        l = l.strip()
        if l:
            p = json.loads(l)
            out[p["id"]] = p
    return out


def known_findings():
    kf, fixed = [], []
    p = os.path.join(ROOT, "KNOWN_FINDINGS")
    if os.path.exists(p):
        for l in open(p):
            l = l.strip()
            if not l or l.startswith("#"):
                continue
            if l.startswith("fixed:"):
                fixed.append(l)
            elif l.startswith("finding:"):
                m = re.match(r"finding:\s*property=(\S+)\s+key=(\S+)\s+(.*)", l)
                if m:
                    kf.append({"property": m.group(1), "key": m.group(2), "what": m.group(3)})
    return kf, fixed


def write_replay(prop, kind, payload):
    d = os.path.join(ROOT, "replays")
    os.makedirs(d, exist_ok=True)
    body = json.dumps({"property": prop, "kind": kind, **payload}, indent=1, sort_keys=True)
    hsh = hashlib.sha1(body.encode()).hexdigest()[:10]
    p = os.path.join(d, "%s-%s.json" % (prop, hsh))
    open(p, "w").write(body)
    return p


def write_evidence(prop, tier, seed, t0, coverage, violations, assumptions, level="proof"):
    d = os.path.join(ROOT, "evidence")
    os.makedirs(d, exist_ok=True)
    ev = {"property_id": prop, "tier": tier, "seed": seed, "level": level, "coverage": coverage,
          "assumptions": assumptions, "wall_s": round(time.time() - t0, 2), "violations": violations}
    open(os.path.join(d, prop + ".json"), "w").write(json.dumps(ev, indent=1))


import kvprops  # noqa: E402  (property table, monitors, suites)


def run_check(prop, tier, seed):
    return kvprops.run_check(prop, tier, seed)


def replay(prop, path):
    return kvprops.replay(prop, path)
