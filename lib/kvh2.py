"""kvh2 - H2: scheduled multi-threaded executions of the real crate, judged by
  * the extracted Coq acceptors (coq/extract/h2check.ml: Sig.sstep per signal, Mutex.mstep, lock
    counts per call, outcome in the set of outcomes of the atomic channel Atomic.astep),
  * an independent vector-clock happens-before detector over the same traces (this file),
  * a ledger of tagged payloads (each offered value received / dropped / handed back exactly once),
  * the scheduler's stuck-thread verdict.
"""
import os, re, subprocess, random, hashlib, json
import kvlib as K

SITES = os.path.join(K.COQ, "theories", "gen", "sites.tsv")
COVERED = set()     # (flavour/owner pc/peer pc/event) transitions of Sig.v exercised by accepted traces of this run


# ------------------------------------------------------------------ program templates
def futs(kind, x=None):
    if kind == "send":
        return "mksend 1 %d ; poll 1 1 ; poll 1 1" % x
    return "mkrecv 1 ; poll 1 1 ; poll 1 1"


def templates():
    """(family, cap, threads) ; threads = list of op strings (one per thread).
    A thread that only sends drops its receiver handle first (and vice versa), so that every
    blocked operation is released when the threads of the other side finish: no template can
    deadlock by design, and a stuck execution is a lost wake-up or a missed termination."""
    S, R = "dropr ; ", "drops ; "
    out = []
    sends = ["send 1", "sendto 1 6", "sendoptto 1 6", "trysend 1", "trysendrt 1", "mksend 1 1 ; poll 1 1 ; poll 1 1 ; poll 1 2"]
    recvs = ["recv", "recvto 6", "tryrecv", "tryrecvrt", "drain 0", "mkrecv 1 ; poll 1 1 ; poll 1 1 ; poll 1 2"]
    for cap in ("0", "1"):
        for s in sends:
            for r in recvs:
                out.append(("F1", cap, [S + s, R + r]))
    # F2 timed against a peer that arrives around the deadline
    for cap in ("0", "1"):
        out.append(("F2", cap, [S + "sendto 1 8", R + "tryrecv ; tryrecv ; recvto 8"]))
        out.append(("F2", cap, [R + "recvto 8", S + "trysend 1 ; trysend 2"]))
        out.append(("F2", cap, [S + "sendoptto 1 8 ; sendoptto 2 8", R + "recvto 8"]))
        out.append(("F2", cap, [S + "trysend 7 ; sendto 1 8", "close"]))
        out.append(("F2", cap, [S + "trysend 7 ; sendoptto 1 8", "close"]))
        out.append(("F2", cap, [S + "trysend 7 ; sendoptto 1 8", "drops ; dropr"]))
        out.append(("F2", cap, [R + "recvto 8", "close"]))
        out.append(("F2", cap, [R + "recvto 8", "dropr ; drops"]))
        out.append(("F2", cap, [S + "trysend 7 ; sendto 1 8", "drops ; dropr"]))
    # F3 blocked / pending operation released by close or by the last handle of the other side
    for cap in ("0", "1"):
        pre = "trysend 9 ; " if cap == "1" else ""
        out.append(("F3", cap, [S + pre + "send 1", "drops ; close"]))
        out.append(("F3", cap, [S + pre + "send 1", "drops ; dropr", "drops ; dropr"]))
        out.append(("F3", cap, [S + pre + "send 1", R + "tryrecvrt", "drops ; dropr"]))
        out.append(("F3", cap, [R + "recv", "dropr ; drops"]))
        # a pending future re-polled with another waker while the channel is being closed / the other side leaves
        out.append(("F3", cap, [S + pre + "mksend 1 1 ; poll 1 1 ; poll 1 2 ; poll 1 2", "close"]))
        out.append(("F3", cap, [S + pre + "mksend 1 1 ; poll 1 1 ; poll 1 2 ; poll 1 2", "drops ; dropr"]))
        out.append(("F3", cap, [R + "mkrecv 1 ; poll 1 1 ; poll 1 2 ; poll 1 2", "close"]))
        out.append(("F3", cap, [R + "mkrecv 1 ; poll 1 1 ; poll 1 2 ; poll 1 2", "dropr ; drops"]))
        # a blocked sender, the last receiver going away, and another sender arriving at that moment
        out.append(("F3", cap, [S + pre + "send 1", "drops ; dropr", S + "sendto 2 6"]))
        out.append(("F3", cap, [S + pre + "mksend 1 1 ; poll 1 1 ; poll 1 1", "drops ; dropr", S + "send 2"]))
        out.append(("F3", cap, [R + "recv", "dropr ; drops", R + "recvto 6"]))
        out.append(("F3", cap, [R + "recv", "close"]))
        out.append(("F3", cap, [R + "recv", S + "trysendrt 4", "dropr ; drops"]))
        out.append(("F3", cap, [S + pre + "mksend 1 1 ; poll 1 1 ; poll 1 1", "close"]))
        out.append(("F3", cap, [R + "mkrecv 1 ; poll 1 1 ; poll 1 1", "drops ; close"]))
        out.append(("F3", cap, [R + "mkrecv 1 ; poll 1 1 ; poll 1 1", "dropr ; drops"]))
        out.append(("F3", cap, [S + pre + "mksend 1 1 ; poll 1 1 ; poll 1 1", "drops ; dropr"]))
    # F4 future life cycle against a peer: waker change, spurious polls, drop at any point
    out.append(("F4", "0", [R + "mkrecv 1 ; poll 1 1 ; poll 1 2 ; poll 1 2 ; dropf 1", S + "trysend 5 ; trysend 6"]))
    out.append(("F4", "0", [S + "mksend 1 7 ; poll 1 1 ; poll 1 2 ; poll 1 2 ; dropf 1", R + "tryrecv ; tryrecv"]))
    out.append(("F4", "1", [S + "trysend 3 ; mksend 1 7 ; poll 1 1 ; poll 1 2 ; dropf 1", R + "tryrecv ; tryrecv"]))
    out.append(("F4", "0", [R + "mkrecv 1 ; poll 1 1 ; dropf 1", S + "send 5"]))
    out.append(("F4", "0", [S + "mksend 1 7 ; poll 1 1 ; dropf 1", R + "recvto 6"]))
    out.append(("F4", "0", [R + "mkrecv 1 ; mkrecv 2 ; poll 1 1 ; poll 2 2 ; dropf 1 ; poll 2 3", S + "trysend 5 ; trysend 6"]))
    out.append(("F4", "1", [S + "trysend 3 ; mksend 1 7 ; mksend 2 8 ; poll 1 1 ; poll 2 2 ; dropf 1 ; poll 2 3", R + "tryrecv ; tryrecv ; tryrecv"]))
    # F5 contention on the lock, non-blocking operations
    out.append(("F5", "1", ["trysend 1 ; len", "tryrecv ; len", "trysendrt 2 ; tryrecvrt"]))
    out.append(("F5", "2", ["trysend 1 ; trysend 2", "tryrecvrt ; tryrecvrt", "trysendrt 3 ; drain 1"]))
    out.append(("F5", "0", [S + "trysendrt 1 ; trysendrt 2", R + "recvto 5", R + "tryrecvrt"]))
    # a full buffer with a parked sender behind it: the realtime receive refills the buffer from the waiter
    out.append(("F5", "1", [S + "send 1 ; send 2", R + "tryrecvrt ; tryrecvrt", "len ; len"]))
    out.append(("F5", "1", [S + "mksend 1 7 ; trysendrt 1 ; poll 1 1 ; poll 1 1", R + "tryrecvrt ; tryrecvrt", "len ; trysend 3"]))
    # F6 several blocked senders, one cancelled from the middle, refill, drain
    out.append(("F6", "1", [S + "trysend 1 ; send 2", S + "sendto 3 7", R + "tryrecv ; tryrecv ; drain 0"]))
    out.append(("F6", "1", [S + "trysend 1 ; send 2", S + "mksend 1 3 ; poll 1 1 ; dropf 1", R + "recvto 9 ; recvto 9"]))
    out.append(("F6", "0", [S + "send 1", S + "send 2", R + "drain 2 ; drain 0"]))
    out.append(("F6", "1", [S + "send 1 ; send 2 ; send 3", R + "recv ; recv ; drain 1"]))
    out.append(("F6", "1", [S + "trysend 1 ; send 2", S + "sendto 3 7", S + "send 4", R + "recvto 9 ; drain 0"]))
    # F6b refill of the buffer from a blocked sender, through each copy of the receive prologue,
    # with a third thread sending / observing while it happens
    for rcv in ("recv", "recvto 9", "tryrecv", "tryrecvrt", "mkrecv 1 ; poll 1 1", "mkstream 1 ; poll 1 1", "drain 0"):
        out.append(("F6", "1", [S + "trysend 1 ; send 2", R + rcv + " ; len ; tryrecv ; tryrecv", S + "trysend 5 ; len"]))
    # F7 stream over several waits
    out.append(("F7", "0", [R + "mkstream 1 ; poll 1 1 ; poll 1 1 ; poll 1 1 ; poll 1 1", S + "send 1 ; send 2"]))
    out.append(("F7", "1", [R + "mkstream 1 ; poll 1 1 ; poll 1 2 ; poll 1 1 ; poll 1 1", S + "trysend 1 ; trysend 2", "dropr ; drops"]))
    # F8 handles: clone through the other flavour, counts, close
    out.append(("F8", "1", ["clones ; scount", "cloner ; rcount", "close ; isclosed"]))
    out.append(("F8", "1", ["cloner ; rcount ; isclosed", "close ; rcount"]))
    out.append(("F8", "0", [S + "clones ; scount", R + "recvto 5 ; scount"]))
    # observers that combine several fields, against the operations that change them
    out.append(("F8", "U", [S + "trysend 1 ; drops", R + "isterm ; isterm ; tryrecv ; isterm"]))
    out.append(("F8", "1", [S + "trysend 1 ; isfull ; drops", R + "isempty ; isdisc ; isterm ; tryrecv"]))
    out.append(("F8", "1", ["isdisc ; isfull ; isempty", "close ; isdisc"]))
    # every way of cloning a handle (same flavour, other flavour, through a conversion) against close
    for k in (1, 2, 3):
        out.append(("F8", "1", ["clones %d ; scount" % k, "cloner %d ; rcount" % k, "close ; isclosed"]))
        out.append(("F8", "1", ["cloner %d ; rcount ; isclosed" % k, "clones %d ; scount" % ((k + 1) % 4), "close ; rcount"]))
    return out


FAMILIES = {
    "C01": "F1 F2 F3 F4 F6 F7", "C02": "F6 F7", "C03": "F1 F2 F3 F4 F5 F6 F7 F8", "C04": "F1", "C05": "F1 F2 F3 F4 F6",
    "C06": "F1 F3 F4", "C07": "F1 F2 F3 F4 F6 F7", "C08": "F1 F6", "C09": "F1 F8", "C10": "F2 F3", "C11": "F3 F8",
    "C12": "F8", "C13": "F2 F6", "C14": "F5", "C15": "F4", "C16": "F4 F7", "C17": "F5 F1", "C19": "F6", "C18": "",
}

# which kinds of H2 failure count for which property
KINDS = {
    "C01": {"ledger", "O"}, "C02": {"O"}, "C03": {"O", "K", "HBL"}, "C04": {"corrupt", "A", "HB", "ledger", "O"}, "C05": {"ledger", "O"},
    "C06": {"stuck", "A"}, "C07": {"A", "HB", "M", "S"}, "C08": {"O"}, "C09": {"O", "A", "stuck", "ledger"}, "C10": {"O"},
    "C11": {"O", "stuck", "K"}, "C12": {"O", "K"}, "C13": {"O", "A", "ledger", "stuck", "K", "deadline"}, "C14": {"O", "K", "stuck", "RT"},
    "C15": {"O", "A", "ledger", "stuck", "HB"}, "C16": {"O", "A", "stuck"}, "C17": {"M", "HBL", "RT", "stuck"}, "C19": {"O", "K"},
}


# ------------------------------------------------------------------ happens-before detector
def is_acq(o):
    return o in (2, 3, 4)


def is_rel(o):
    return o in (1, 3, 4)


def join(a, b):
    if b:
        for k, v in b.items():
            if a.get(k, 0) < v:
                a[k] = v


def hb_check(events):
    """events: list of parsed event tuples; returns first race description or None"""
    vc, pending, rel, unpark = {}, {}, {}, {}
    lastw, reads = {}, {}

    def ordered(acc, t):
        at, ac = acc[0], acc[1]
        return at == t or vc[t].get(at, 0) >= ac

    def access(t, var, write, step, what, src):
        lw = lastw.get(var)
        me = (t, vc[t].get(t, 0), step, what, src)
        if lw and not ordered(lw, t):
            return "%s of %s by thread %d at step %s (%s) is not ordered after the %s by thread %d at step %s (%s)" % (
                what, var, t, step, src, lw[3], lw[0], lw[2], lw[4])
        if write:
            for r in reads.get(var, {}).values():
                if not ordered(r, t):
                    return "%s of %s by thread %d at step %s (%s) is not ordered after the %s by thread %d at step %s (%s)" % (
                        what, var, t, step, src, r[3], r[0], r[2], r[4])
            lastw[var] = me
            reads[var] = {}
        else:
            reads.setdefault(var, {})[t] = me
        return None

    for (step, t, kind, loc, a, b, o, o2, res, src) in events:
        v = vc.setdefault(t, {})
        v[t] = v.get(t, 0) + 1
        p = pending.setdefault(t, {})
        r = None
        if kind == "LOAD":
            (join(v, rel.get(loc)) if is_acq(o) else join(p, rel.get(loc)))
        elif kind == "STORE":
            rel[loc] = dict(v) if is_rel(o) else None
        elif kind == "CAS":
            if res >= 256:
                (join(v, rel.get(loc)) if is_acq(o) else join(p, rel.get(loc)))
                if is_rel(o):
                    n = dict(rel.get(loc) or {})
                    join(n, v)
                    rel[loc] = n
            else:
                (join(v, rel.get(loc)) if is_acq(o2) else join(p, rel.get(loc)))
        elif kind == "FENCE":
            if is_acq(o):
                join(v, p)
        elif kind == "UNPARK":
            u = unpark.setdefault(int(a), {})
            join(u, v)
        elif kind == "PARK":
            if res == 1:
                join(v, unpark.get(t))
        elif kind == "ACC" and loc.startswith("S") and loc != "S?":
            if a == "slot_read":
                r = access(t, loc + ".slot", False, step, "slot read", src)
            elif a == "slot_write":
                r = access(t, loc + ".slot", True, step, "slot write", src)
            elif a == "waker_read":
                r = access(t, loc + ".waker", False, step, "waker read", src)
            elif a == "waker_write":
                r = access(t, loc + ".waker", True, step, "waker write", src)
            elif a == "waker_kind":
                r = access(t, loc + ".mem", False, step, "read of the signal", src)
            elif a in ("end", "publish"):
                what = "end of the signal's life (frame / future reuse)" if a == "end" else "publication"
                for var in (".slot", ".waker", ".mem"):
                    r = r or access(t, loc + var, True, step, what, src)
            if not r and a in ("publish", "claim", "cancel_ok", "cancel_fail", "still_listed", "not_listed"):
                r = access(t, "chan.wait_list", True, step, "wait-list operation (%s)" % a, src)
        if r:
            return r
    return None


# ------------------------------------------------------------------ running
def prog_text(pid, cap, cls, threads, specs):
    lines = ["P %s %s %s" % (pid, cap, cls)]
    for i, ops in enumerate(threads):
        lines.append("T %d %s" % (i, ops))
    for s in specs:
        lines.append("S " + s)
    lines.append("E")
    return "\n".join(lines) + "\n"


EV = re.compile(r"^(\d+) (\d+) ([A-Z]+) (\S+) (\S+) (\S+) (\d+) (\d+) (\d+) (\S+)$")


def parse_exec_blocks(text):
    """yield (pid, cap, spec, lines) per execution"""
    cur = None
    for line in text.split("\n"):
        if line.startswith("X "):
            m = re.match(r"X (\S+) (\S+) \| (.*)", line)
            cur = [m.group(1), m.group(2), m.group(3), []] if m else None
        elif line == "Z":
            if cur:
                yield tuple(cur)
            cur = None
        elif cur is not None:
            cur[3].append(line)
    if cur:
        yield tuple(cur)


def judge(pid, cap, spec, lines, threads):
    """implementation-side judgements of one execution (HB, ledger, stuck, corruption)"""
    fails = []
    events = []
    for l in lines:
        m = EV.match(l)
        if m:
            events.append((m.group(1), int(m.group(2)), m.group(3), m.group(4), m.group(5), m.group(6), int(m.group(7)),
                           int(m.group(8)), int(m.group(9)), m.group(10)))
    verdict = next((l for l in lines if l.startswith("V ")), "V ?")
    if verdict.startswith("V stuck") or verdict.startswith("V overrun"):
        fails.append(("stuck", "the execution cannot go on: " + verdict[2:] + " (threads blocked for ever while every other thread has finished or is blocked)"))
    # deadlines: a timed call reports Timeout only after a clock reading at or past first reading + duration
    cur = {}
    for l in lines:
        f = l.split(" ")
        if len(f) >= 4 and f[2] == "OPB":
            d = None
            if f[3] in ("sendto", "sendoptto") and len(f) >= 6:
                d = int(f[5])
            elif f[3] == "recvto" and len(f) >= 5:
                d = int(f[4])
            cur[f[1]] = {"d": d, "now": []}
        elif len(f) >= 9 and f[2] == "NOW" and f[1] in cur:
            cur[f[1]]["now"].append(int(f[8]))
        elif len(f) >= 4 and f[2] == "OPE" and f[1] in cur:
            c = cur.pop(f[1])
            if c["d"] is not None and f[3] == "err:timeout":
                if not c["now"] or max(c["now"]) < c["now"][0] + c["d"]:
                    fails.append(("deadline", "thread %s: Timeout returned although no clock reading reached the deadline (first reading %s + duration %d; readings %s)"
                                  % (f[1], c["now"][:1], c["d"], c["now"][-4:])))
    # realtime variants: one attempt at the lock per acquisition; a failed attempt is never followed by another one
    rt = {}
    for l in lines:
        f = l.split(" ")
        if len(f) >= 4 and f[2] == "OPB":
            rt[f[1]] = {"op": f[3], "failed": None} if f[3].endswith("rt") else None
        elif len(f) >= 10 and f[2] == "CAS" and f[3].startswith("L") and rt.get(f[1]):
            c = rt[f[1]]
            if c["failed"] is not None:
                fails.append(("RT", "thread %s: %s went on trying for the internal lock (step %s, %s) after its attempt at step %s had failed: "
                              "a realtime call waited for the lock" % (f[1], c["op"], f[0], f[9], c["failed"])))
                rt[f[1]] = None
            elif int(f[8]) < 256:
                c["failed"] = f[0]
        elif len(f) >= 4 and f[2] == "OPE":
            rt[f[1]] = None
    r = hb_check(events)
    if r:
        fails.append(("HBL" if "chan.wait_list" in r else "HB", r))
    if verdict == "V ok":
        res = {}
        for l in lines:
            if l.startswith("R "):
                f = l.split(" ", 2)
                res[int(f[1])] = [x.strip() for x in (f[2] if len(f) > 2 else "").split("|")]
        dl = next((l for l in lines if l.startswith("D")), "D")
        drops = [x.split("@")[0] for x in dl.split()[1:]]
        offered, got, back = [], [], []
        for i, ops in enumerate(threads):
            for j, op in enumerate([o.strip() for o in ops.split(";")]):
                f = op.split()
                rr = res.get(i, [])
                out = rr[j] if j < len(rr) else ""
                if f[0] in ("send", "sendto", "sendoptto", "trysend", "trysendrt"):
                    offered.append(f[1])
                if f[0] == "mksend":
                    offered.append(f[2])
                m = re.search(r"back:(\d+)", out)
                if m:
                    back.append(m.group(1))
                m = re.match(r"(?:ok:some:|ready:ok:|some:|ok:)(\d+)$", out.split(" ")[0])
                if m:
                    got.append(m.group(1))
                m = re.match(r"(?:drain:\d+|err:closed):\[([^\]]*)\]", out)
                if m:
                    got.extend([x for x in m.group(1).split(",") if x])
        for x in got + drops + back:
            if int(x) >= 0xdead0000:
                fails.append(("corrupt", "a payload arrived corrupted (checksum marker %s)" % x))
        for x in set(offered):
            n = got.count(x) + drops.count(x) + back.count(x)
            if n != 1:
                fails.append(("ledger", "value %s: received %d, dropped %d, handed back %d times (must be exactly once in total)" %
                              (x, got.count(x), drops.count(x), back.count(x))))
        for x in got:
            if x not in offered:
                fails.append(("ledger", "received value %s that nobody sent" % x))
    return fails


def run_batch(jobs, par=4, timeout=300):
    """jobs: list of (pid, cap, cls, threads, specs). Runs them in ONE harness process (restarted after a stuck execution).
    returns list of (pid, cap, spec, lines, threads, model_verdicts)"""
    env = dict(K.ENV, KV_PARALLELISM=str(par), KV_SITES=SITES)
    results = []
    pending = list(jobs)
    byid = {}
    while pending:
        text = "".join(prog_text(*j) for j in pending)
        for j in pending:
            byid[j[0]] = j
        try:
            p = subprocess.run([K.KVH, "h2"], input=text, env=env, stdout=subprocess.PIPE, stderr=subprocess.DEVNULL,
                               text=True, timeout=timeout)
            out, rc = p.stdout, p.returncode
        except subprocess.TimeoutExpired as e:
            out, rc = (e.stdout.decode() if isinstance(e.stdout, bytes) else (e.stdout or "")), 124
        blocks = list(parse_exec_blocks(out))
        for (pid, cap, spec, lines) in blocks:
            results.append([pid, cap, spec, lines, byid[pid][3], {}])
        if rc == 0:
            break
        # the process stopped after a stuck execution: continue after it
        done = {}
        for (pid, cap, spec, lines) in blocks:
            done.setdefault(pid, set()).add(spec)
        nxt = []
        for j in pending:
            rest = [s for s in j[4] if s not in done.get(j[0], set())]
            if rest:
                nxt.append((j[0], j[1], j[2], j[3], rest))
        if len(nxt) == len(pending) and all(len(a[4]) == len(b[4]) for a, b in zip(nxt, pending)):
            break   # no progress (crash before any output)
        pending = nxt
    # model-side verdicts
    text = []
    for r in results:
        text.append("X %s %s | %s" % (r[0], r[1], r[2]))
        text.extend(r[3])
        text.append("Z")
    rc, out = K.sh([K.KMODEL, "h2check"], inp="\n".join(text) + "\n", env=env, timeout=600)
    i = -1
    cov = set()
    for line in out.split("\n"):
        if line.startswith("C "):
            cov.update(line.split()[1:])
        if line.startswith("X "):
            i += 1
        elif i >= 0 and i < len(results) and line[:2] in ("A ", "M ", "K ", "O ", "S "):
            results[i][5][line[0]] = line[2:]
    COVERED.update(cov)
    return results


def preemption_specs(lines, nthreads, limit):
    """single forced switches, at the first occurrences of every distinct (thread, source line)"""
    seen, specs = {}, []
    for l in lines:
        m = EV.match(l)
        if not m:
            continue
        step, t, src = int(m.group(1)), int(m.group(2)), m.group(10)
        k = (t, src)
        seen[k] = seen.get(k, 0) + 1
        if seen[k] <= 2:
            for to in range(nthreads):
                if to != t:
                    specs.append("pre %d:%d" % (step, to))
    random.Random(1).shuffle(specs)
    return specs[:limit]


def window_specs(lines, nthreads, suffix, limit):
    """pairs of forced switches around the hand-shake of the signal protocol: away from a thread at one
    of its protocol events and back a few steps later (the interleavings single switches cannot reach)"""
    anchors = []
    for l in lines:
        m = EV.match(l)
        if m and m.group(10).startswith("signal.rs") and m.group(3) in ("ACC", "CAS", "STORE", "PARK", "UNPARK", "LOAD"):
            anchors.append((int(m.group(1)), int(m.group(2))))
    specs = []
    rnd = random.Random(len(lines))
    for (step, t) in anchors:
        for to in range(nthreads):
            if to == t:
                continue
            for j in (1, 2, 3, 4, 6, 9):
                specs.append("pre %d:%d %d:%d%s" % (step, to, step + j, t, suffix))
    rnd.shuffle(specs)
    return specs[:limit]


def freeze_specs(lines, nthreads, limit):
    """a lock holder stalled for a long stretch right after its acquisition, everybody else running on"""
    specs, seen = [], {}
    for l in lines:
        f = l.split(" ")
        if len(f) >= 10 and f[2] == "CAS" and f[3].startswith("L") and int(f[8]) >= 256:
            t = int(f[1])
            seen[t] = seen.get(t, 0) + 1
            if seen[t] <= 3:
                for to in range(nthreads):
                    if to != t:
                        specs.append("pre %d:%d hold=%d:%d" % (int(f[0]) + 1, to, t, int(f[0]) + 700))
    random.Random(7).shuffle(specs)
    return specs[:limit]


def explore(prop, tier, seed):
    """run the families of `prop`; returns (stats, failures) ; failure = dict(kind, message, program, schedule, trace)"""
    fams = FAMILIES.get(prop, "").split()
    if not fams:
        return {"executions": 0}, []
    rng = random.Random(seed)
    tpls = [t for t in templates() if t[0] in fams]
    quick = tier == "quick"
    # sample templates in the quick tier; deterministic per seed
    if quick and len(tpls) > 24:
        f1 = [t for t in tpls if t[0] == "F1"]
        rest = [t for t in tpls if t[0] != "F1"]
        rng.shuffle(f1)
        tpls = rest + f1[:max(6, 24 - len(rest))]
    classes = ["h8", "h32", "hs", "h4"]
    jobs = []
    for i, (fam, cap, threads) in enumerate(tpls):
        cls = classes[(i + seed) % 4] if prop != "C04" else classes[i % 4]
        base = ["seq", "seq spur=1", "rnd %d 150" % (seed * 100 + i), "rnd %d 400 tick=2" % (seed * 100 + i + 50),
                "seq hold=1:800", "seq hold=0:800 spur=1", "seq hold=1:800 spur=2", "seq hold=0:800"]
        if not quick:
            base += ["rnd %d %d" % (seed * 1000 + i * 50 + k, 60 + 25 * (k % 20)) for k in range(60)] + \
                    ["rnd %d 300 spur=2" % (seed + i), "rnd %d 200 spur=1 tick=3" % (seed + i + 7), "rnd %d 500 hold=1:300" % (seed + i + 9)]
        jobs.append(("%s-%d" % (fam, i), cap, cls, threads, base))
    if prop in ("C17", "ALL"):
        # a lock holder stalled for millions of steps while a blocking waiter spins through every phase of its back-off
        # (repeated failed attempts are logged once with a count): the waiter may enter only after the holder has left
        jobs.append(("F5-freeze", "1", "h8", ["trysend 1 ; len", "tryrecv ; len"], ["pre 2:1 hold=0:3200000 limit=6000000"]))
    if prop in ("C17", "C14", "ALL"):
        # a realtime caller arriving while the lock holder is stalled inside its critical section: it must give up at once
        jobs.append(("F5-rtfreeze", "1", "h8", ["trysend 1 ; len", "tryrecvrt ; trysendrt 5 ; tryrecvrt"], ["pre 2:1 hold=0:400", "pre 2:1 hold=0:60"]))
    # first pass: base schedules; second pass: single preemptions derived from the seq trace
    import concurrent.futures as cf
    shards = [jobs[k::16] for k in range(16)]
    allres = []
    with cf.ThreadPoolExecutor(16) as ex:
        futs_ = [ex.submit(run_batch, sh, 4 if k % 2 == 0 else 1) for k, sh in enumerate(shards) if sh]
        for f in futs_:
            allres.extend(f.result())
    jobs2 = []
    per = 40 if quick else 400
    for r in allres:
        if r[2] == "seq" or r[2].startswith("seq hold="):
            j = next(j for j in jobs if j[0] == r[0])
            suffix = r[2][3:]          # the hold / spur options of the base schedule are kept
            sp = [s + suffix for s in preemption_specs(r[3], len(j[3]), per if r[2] == "seq" else max(4, per // 2))]
            sp += window_specs(r[3], len(j[3]), suffix, 30 if quick else 250)
            if r[2] == "seq":
                sp += freeze_specs(r[3], len(j[3]), 4 if quick else 12)
            if sp:
                jobs2.append((j[0], j[1], j[2], j[3], sp))
    shards = [jobs2[k::16] for k in range(16)]
    with cf.ThreadPoolExecutor(16) as ex:
        futs_ = [ex.submit(run_batch, sh, 4 if k % 2 == 0 else 1) for k, sh in enumerate(shards) if sh]
        for f in futs_:
            allres.extend(f.result())
    kinds = KINDS.get(prop, set())
    fails, other = [], 0
    distinct = set()
    events = 0
    srcs = set()
    for (pid, cap, spec, lines, threads, mv) in allres:
        events += sum(1 for l in lines if EV.match(l))
        for l in lines:
            m = EV.match(l)
            if m:
                srcs.add((m.group(3), m.group(10)))
        distinct.add(hashlib.md5("\n".join(re.sub(r"^\d+ ", "", l) for l in lines).encode()).hexdigest())
        found = judge(pid, cap, spec, lines, threads)
        for tag in ("A", "M", "K", "O", "S"):
            v = mv.get(tag, "")
            if v.startswith("reject"):
                found.append((tag, v[7:]))
        for (k, msg) in found:
            rec = {"kind": k, "message": msg, "program": {"id": pid, "capacity": cap, "threads": threads}, "schedule": spec,
                   "trace_tail": [l for l in lines if not l.startswith("R ") and not l.startswith("D")][-40:]}
            if k in kinds:
                fails.append(rec)
            else:
                other += 1
    rc, mt = K.sh([K.KMODEL, "sigtransitions"], timeout=120)
    model_tr = set(mt.split())
    stats = {"executions": len(allres), "distinct_traces": len(distinct), "events": events, "templates": len(tpls),
             "protocol_transitions_in_model": len(model_tr), "protocol_transitions_exercised": len(COVERED & model_tr),
             "protocol_transitions_not_exercised": sorted(model_tr - COVERED),
             "families": fams, "distinct_sites_exercised": len(srcs), "failures_outside_cone": other,
             "sample": [{"program": allres[0][4], "schedule": allres[0][2], "first_events": allres[0][3][:12]}] if allres else []}
    return stats, fails


def replay_exec(program, schedule, par=4):
    res = run_batch([(program["id"], program["capacity"], program.get("class", "h8"), program["threads"], [schedule])], par)
    return res
