//! kx - translator from /repo/src/*.rs to the generated parts of the Coq development
//! (coq/theories/gen/*.v).  It extracts only static facts that no run on x86 can
//! observe, with a real parser (syn 2):
//!
//!   Gen_Sites.v   every atomic operation of mutex.rs / signal.rs: enclosing fn, ordinal,
//!                 receiver field, method, literal operands, ordering argument(s)
//!   Gen_Skel.v    control skeleton (calls of interest, branches, loops, returns) of every fn
//!                 of mutex.rs, backoff.rs::spin_cond, signal.rs; and the lock profile of every
//!                 fn of lib.rs / future.rs (lock acquisitions, guard drops, waits, hand-offs)
//!   Gen_Ptr.v     size_of::<T>() decision trees of pointer.rs and of the dispatch sites in
//!                 lib.rs / future.rs that must agree with it
//!   Gen_Traits.v  struct fields and unsafe Send/Sync impls with their bounds
//!
//! usage: kx <repo/src> <outdir>
use proc_macro2::{Delimiter, TokenStream, TokenTree};
use quote::ToTokens;
use std::collections::BTreeMap;
use std::fmt::Write as _;
use std::fs;
use syn::{Block, Expr, ImplItem, Item, Stmt};

mod aut;
mod ptrx;

// ---------------------------------------------------------------- helpers

pub(crate) fn toks<T: ToTokens>(t: &T) -> String {
    let s = t.to_token_stream().to_string();
    let s = s.split_whitespace().collect::<Vec<_>>().join(" ");
    // memory orderings are reported separately (Gen_Sites.v); shapes do not depend on them
    let mut out = s;
    for o in ["Relaxed", "Release", "Acquire", "AcqRel", "SeqCst"] {
        out = out.replace(&format!("Ordering :: {}", o), "Ordering :: _");
    }
    out
}

fn coq_str(s: &str) -> String {
    format!("\"{}\"", s.replace('"', "\"\""))
}

pub(crate) fn is_cfg_verif(attrs: &[syn::Attribute]) -> bool {
    attrs.iter().any(|a| toks(a).contains("kanal_verif"))
}

pub(crate) fn expr_attrs(e: &Expr) -> &[syn::Attribute] {
    match e {
        Expr::If(x) => &x.attrs,
        Expr::Call(x) => &x.attrs,
        Expr::MethodCall(x) => &x.attrs,
        Expr::Block(x) => &x.attrs,
        Expr::Unsafe(x) => &x.attrs,
        Expr::Match(x) => &x.attrs,
        Expr::Macro(x) => &x.attrs,
        Expr::Assign(x) => &x.attrs,
        Expr::Let(x) => &x.attrs,
        Expr::Loop(x) => &x.attrs,
        Expr::While(x) => &x.attrs,
        Expr::ForLoop(x) => &x.attrs,
        Expr::Return(x) => &x.attrs,
        _ => &[],
    }
}

/// a function found in a file: qualified name + body
struct Func {
    name: String,
    block: Block,
}

fn collect_impl_items(prefix: &str, items: &[ImplItem], out: &mut Vec<Func>) {
    for it in items {
        if let ImplItem::Fn(f) = it {
            if is_cfg_verif(&f.attrs) {
                continue;
            }
            out.push(Func { name: format!("{}.{}", prefix, f.sig.ident), block: f.block.clone() });
        }
    }
}

pub(crate) fn last_brace_group(ts: TokenStream) -> Option<TokenStream> {
    let mut last = None;
    for t in ts {
        if let TokenTree::Group(g) = t {
            if g.delimiter() == Delimiter::Brace {
                last = Some(g.stream());
            }
        }
    }
    last
}

fn collect_funcs(file: &syn::File, out: &mut Vec<Func>) {
    for item in &file.items {
        match item {
            Item::Fn(f) => {
                if is_cfg_verif(&f.attrs) {
                    continue;
                }
                out.push(Func { name: f.sig.ident.to_string(), block: (*f.block).clone() });
            }
            Item::Impl(im) => {
                if is_cfg_verif(&im.attrs) {
                    continue;
                }
                let ty = toks(&im.self_ty);
                let ty = ty.split('<').next().unwrap().trim().to_string();
                let prefix = match &im.trait_ {
                    Some((_, p, _)) => format!("{}.{}", ty, p.segments.last().unwrap().ident),
                    None => ty,
                };
                collect_impl_items(&prefix, &im.items, out);
            }
            Item::Macro(m) => {
                // macro_rules! name { () => { <impl items> } }
                if let Some(id) = &m.ident {
                    if let Some(body) = last_brace_group(m.mac.tokens.clone()) {
                        let wrapped: TokenStream = format!("impl X {{ {} }}", body).parse().unwrap_or_default();
                        if let Ok(im) = syn::parse2::<syn::ItemImpl>(wrapped) {
                            collect_impl_items(&id.to_string(), &im.items, out);
                        }
                    }
                }
            }
            _ => {}
        }
    }
}

// ---------------------------------------------------------------- skeletons

#[derive(Clone, Copy, PartialEq)]
enum Mode {
    Full,     // protocol files: every call of interest
    LockProf, // lib.rs / future.rs: lock acquisitions, guard drops, waits, hand-offs
    Ptr,      // size dispatch
}

const ATOMIC: &[&str] = &["load", "store", "compare_exchange", "compare_exchange_weak", "swap", "fetch_add", "fetch_sub", "fetch_or", "fetch_and"];

const FULL_CALLS: &[&str] = &[
    "fence", "park", "unpark", "yield_now", "yield_now_std", "sleep", "spin_hint", "spin_wait", "spin_loop", "current",
    "get_parallelism", "available_parallelism", "spin_cond", "try_lock", "lock_no_inline", "lock", "unlock", "cond", "now", "wake",
    "clone", "unwrap", "read", "write", "copy", "send", "recv", "terminate", "get", "randomize", "random_u7", "random_u32",
];

const LOCK_CALLS: &[&str] = &[
    "acquire_internal", "try_acquire_internal", "drop", "wait", "wait_timeout", "async_blocking_wait", "terminate_signals",
    "send", "recv", "is_closed", "len", "is_empty", "is_full", "capacity", "receiver_count", "sender_count", "close",
    "is_disconnected", "is_terminated", "clone", "clone_sync", "clone_async", "try_send", "try_recv", "drain_into", "poll",
    "register_waker", "lock", "try_lock",
];

const PTR_CALLS: &[&str] = &[
    "read", "write", "copy_nonoverlapping", "zeroed", "assume_init", "store_as_kanal_ptr", "forget", "new", "uninit",
    "new_from", "new_owned", "new_write_address_ptr", "new_unchecked", "set_ptr", "assume_init_drop", "load_and_drop", "as_ptr", "as_mut_ptr",
];

thread_local! {
    /// private functions of lib.rs / future.rs / internal.rs that (transitively) take the channel lock:
    /// name -> true when they use the blocking acquisition somewhere
    static LOCKING_HELPERS: std::cell::RefCell<BTreeMap<String, bool>> = std::cell::RefCell::new(BTreeMap::new());
}

fn locking_helper(name: &str) -> Option<bool> {
    LOCKING_HELPERS.with(|m| m.borrow().get(name).cloned())
}

/// all functions of a file with their visibility: (simple name, private, body)
fn collect_with_vis(file: &syn::File, out: &mut Vec<(String, bool, Block)>) {
    fn impl_items(items: &[ImplItem], in_trait: bool, out: &mut Vec<(String, bool, Block)>) {
        for it in items {
            if let ImplItem::Fn(f) = it {
                if is_cfg_verif(&f.attrs) {
                    continue;
                }
                let private = !in_trait && matches!(f.vis, syn::Visibility::Inherited);
                out.push((f.sig.ident.to_string(), private, f.block.clone()));
            }
        }
    }
    for item in &file.items {
        match item {
            Item::Fn(f) => {
                if !is_cfg_verif(&f.attrs) {
                    out.push((f.sig.ident.to_string(), matches!(f.vis, syn::Visibility::Inherited), (*f.block).clone()));
                }
            }
            Item::Impl(im) => {
                if !is_cfg_verif(&im.attrs) {
                    impl_items(&im.items, im.trait_.is_some(), out);
                }
            }
            Item::Macro(m) => {
                if let Some(body) = last_brace_group(m.mac.tokens.clone()) {
                    let wrapped: TokenStream = format!("impl X {{ {} }}", body).parse().unwrap_or_default();
                    if let Ok(im) = syn::parse2::<syn::ItemImpl>(wrapped) {
                        impl_items(&im.items, false, out);
                    }
                }
            }
            _ => {}
        }
    }
}

fn compute_locking_helpers(files: &[&syn::File]) {
    let mut fns = vec![];
    for f in files {
        collect_with_vis(f, &mut fns);
    }
    struct V {
        names: Vec<String>,
    }
    impl<'ast> syn::visit::Visit<'ast> for V {
        fn visit_expr_call(&mut self, c: &'ast syn::ExprCall) {
            if let Expr::Path(p) = &*c.func {
                if let Some(s) = p.path.segments.last() {
                    self.names.push(s.ident.to_string());
                }
            }
            syn::visit::visit_expr_call(self, c);
        }
        fn visit_expr_method_call(&mut self, m: &'ast syn::ExprMethodCall) {
            self.names.push(m.method.to_string());
            syn::visit::visit_expr_method_call(self, m);
        }
    }
    let mut calls: BTreeMap<String, Vec<String>> = BTreeMap::new();
    let mut private: BTreeMap<String, bool> = BTreeMap::new();
    for (n, p, b) in &fns {
        let mut v = V { names: vec![] };
        syn::visit::Visit::visit_block(&mut v, b);
        calls.entry(n.clone()).or_default().extend(v.names);
        // a name is a private helper only if every function of that name is private
        let e = private.entry(n.clone()).or_insert(true);
        *e = *e && *p;
    }
    let mut locking: BTreeMap<String, bool> = BTreeMap::new();
    loop {
        let mut changed = false;
        for (n, cs) in &calls {
            if !private.get(n).cloned().unwrap_or(false) || n == "acquire_internal" || n == "try_acquire_internal" {
                continue;
            }
            let mut any = false;
            let mut blocking = false;
            for c in cs {
                if c == "acquire_internal" {
                    any = true;
                    blocking = true;
                } else if c == "try_acquire_internal" {
                    any = true;
                } else if let Some(b) = locking.get(c) {
                    any = true;
                    blocking = blocking || *b;
                }
            }
            if any && locking.get(n) != Some(&blocking) {
                locking.insert(n.clone(), blocking);
                changed = true;
            }
        }
        if !changed {
            break;
        }
    }
    LOCKING_HELPERS.with(|m| *m.borrow_mut() = locking);
}

struct Sk {
    mode: Mode,
    lines: Vec<String>,
    depth: usize,
    /// atomic sites found (Full mode): (method, receiver, operands, orderings)
    sites: Vec<(String, String, Vec<String>, Vec<String>, usize)>,
}

pub(crate) fn ordering_of(e: &Expr) -> Option<String> {
    let s = e.to_token_stream().to_string().split_whitespace().collect::<Vec<_>>().join(" ");
    for o in ["Relaxed", "Release", "Acquire", "AcqRel", "SeqCst"] {
        if s == format!("Ordering :: {}", o) || s == o || s.ends_with(&format!(":: {}", o)) {
            return Some(o.to_string());
        }
    }
    None
}

fn last_field(e: &Expr) -> String {
    match e {
        Expr::Field(f) => toks(&f.member),
        Expr::Paren(p) => last_field(&p.expr),
        Expr::Reference(r) => last_field(&r.expr),
        Expr::Path(p) => p.path.segments.last().map(|s| s.ident.to_string()).unwrap_or_default(),
        Expr::MethodCall(m) => format!("{}()", m.method),
        _ => toks(e),
    }
}

impl Sk {
    fn emit(&mut self, s: String) {
        self.lines.push(format!("{}{}", "  ".repeat(self.depth), s));
    }
    fn interesting(&self, name: &str) -> bool {
        match self.mode {
            Mode::Full => ATOMIC.contains(&name) || FULL_CALLS.contains(&name),
            Mode::LockProf => LOCK_CALLS.contains(&name) || locking_helper(name).is_some(),
            Mode::Ptr => PTR_CALLS.contains(&name),
        }
    }
    fn cond_interesting(&self, c: &str) -> bool {
        match self.mode {
            Mode::Ptr => c.contains("size_of"),
            _ => true,
        }
    }

    /// emits a structured construct only if its body recorded something
    fn scoped<F: FnOnce(&mut Sk)>(&mut self, head: String, f: F) -> bool {
        let mark = self.lines.len();
        self.emit(head);
        self.depth += 1;
        let before = self.lines.len();
        f(self);
        self.depth -= 1;
        if self.lines.len() == before {
            self.lines.truncate(mark);
            false
        } else {
            self.emit("}".to_string());
            true
        }
    }

    fn block(&mut self, b: &Block) {
        for s in &b.stmts {
            self.stmt(s);
        }
    }

    fn stmt(&mut self, s: &Stmt) {
        match s {
            Stmt::Local(l) => {
                if is_cfg_verif(&l.attrs) {
                    return;
                }
                if let Some(init) = &l.init {
                    self.expr(&init.expr);
                    if let Some((_, e)) = &init.diverge {
                        self.expr(e);
                    }
                }
            }
            Stmt::Item(_) => {}
            Stmt::Expr(e, _) => {
                if is_cfg_verif(expr_attrs(e)) {
                    return;
                }
                self.expr(e)
            }
            Stmt::Macro(m) => {
                if is_cfg_verif(&m.attrs) {
                    return;
                }
                self.mac(&m.mac)
            }
        }
    }

    fn mac(&mut self, m: &syn::Macro) {
        let name = m.path.segments.last().map(|s| s.ident.to_string()).unwrap_or_default();
        if name == "panic" || name == "unreachable" || name == "unimplemented" || name == "todo" {
            self.emit(name);
        }
    }

    fn call_line(&mut self, name: &str, recv: Option<&Expr>, args: Vec<&Expr>, line: usize) {
        let ords: Vec<String> = args.iter().filter_map(|a| ordering_of(a)).collect();
        if self.mode == Mode::Full && ATOMIC.contains(&name) && recv.is_some() {
            let r = last_field(recv.unwrap());
            let operands: Vec<String> = args.iter().filter(|a| ordering_of(a).is_none()).map(|a| toks(*a)).collect();
            self.sites.push((name.to_string(), r.clone(), operands.clone(), ords.clone(), line));
            self.emit(format!("{}.{}({}){}", r, name, operands.join(", "), if ords.is_empty() { String::new() } else { format!(" [{}]", ords.join(", ")) }));
            return;
        }
        if self.mode == Mode::Full && name == "fence" {
            self.sites.push((name.to_string(), String::new(), vec![], ords.clone(), line));
        }
        if self.mode == Mode::LockProf && !LOCK_CALLS.contains(&name) {
            if let Some(blocking) = locking_helper(name) {
                // a private helper that takes the channel lock: counted as the acquisition it performs
                self.emit((if blocking { "acquire_internal" } else { "try_acquire_internal" }).to_string());
                return;
            }
        }
        let r = match recv {
            Some(e) => {
                let lf = last_field(e);
                format!("{}.", if self.mode == Mode::Ptr { ptr_alias(&lf) } else { lf })
            }
            None => String::new(),
        };
        let detail = match self.mode {
            Mode::LockProf if name == "drop" => format!("({})", args.iter().map(|a| toks(*a)).collect::<Vec<_>>().join(", ")),
            Mode::Full if !ords.is_empty() => format!(" [{}]", ords.join(", ")),
            Mode::Full if name == "wake" || name == "send" || name == "recv" || name == "terminate" => {
                format!("({})", args.iter().map(|a| toks(*a)).collect::<Vec<_>>().join(", "))
            }
            _ => String::new(),
        };
        self.emit(format!("{}{}{}", r, name, detail));
    }

    fn expr(&mut self, e: &Expr) {
        match e {
            Expr::MethodCall(m) => {
                if is_cfg_verif(&m.attrs) {
                    return;
                }
                self.expr(&m.receiver);
                for a in &m.args {
                    self.expr(a);
                }
                let name = m.method.to_string();
                if self.interesting(&name) {
                    self.call_line(&name, Some(&m.receiver), m.args.iter().collect(), m.method.span().start().line);
                }
            }
            Expr::Call(c) => {
                if is_cfg_verif(&c.attrs) {
                    return;
                }
                for a in &c.args {
                    self.expr(a);
                }
                let path = toks(&c.func);
                if path.contains("verif ::") {
                    return;
                }
                let name = match &*c.func {
                    Expr::Path(p) => p.path.segments.last().map(|s| s.ident.to_string()).unwrap_or_default(),
                    other => {
                        self.expr(other);
                        String::new()
                    }
                };
                if !name.is_empty() && self.interesting(&name) {
                    // keep a qualifying segment for constructors
                    let q = match &*c.func {
                        Expr::Path(p) if p.path.segments.len() >= 2 => {
                            let n = p.path.segments.len();
                            format!("{}::{}", p.path.segments[n - 2].ident, name)
                        }
                        _ => name.clone(),
                    };
                    self.call_line(&q, None, c.args.iter().collect(), syn::spanned::Spanned::span(&c.func).start().line);
                }
            }
            Expr::If(i) => {
                let c = toks(&i.cond);
                // calls inside the condition come first
                self.expr_cond(&i.cond);
                let ci = self.cond_interesting(&c);
                let head = if ci { format!("if {} {{", c) } else { "if _ {".to_string() };
                let has_else = i.else_branch.is_some();
                let mark = self.lines.len();
                let depth = self.depth;
                self.emit(head);
                self.depth += 1;
                let b0 = self.lines.len();
                self.block(&i.then_branch);
                let then_n = self.lines.len() - b0;
                self.depth = depth;
                let mut else_n = 0;
                if has_else {
                    self.emit("} else {".to_string());
                    self.depth += 1;
                    let b1 = self.lines.len();
                    match &*i.else_branch.as_ref().unwrap().1 {
                        Expr::Block(b) => self.block(&b.block),
                        other => self.expr(other),
                    }
                    else_n = self.lines.len() - b1;
                    self.depth = depth;
                }
                if then_n + else_n == 0 {
                    self.lines.truncate(mark);
                } else {
                    self.emit("}".to_string());
                }
            }
            Expr::Match(m) => {
                self.expr(&m.expr);
                let scrut = toks(&m.expr);
                let arms: Vec<_> = m.arms.iter().filter(|a| !is_cfg_verif(&a.attrs)).collect();
                self.scoped(format!("match {} {{", if self.mode == Mode::Ptr { "_".to_string() } else { scrut }), |sk| {
                    for a in arms {
                        let pat = toks(&a.pat);
                        sk.scoped(format!("{} => {{", pat), |sk| sk.expr(&a.body));
                    }
                });
            }
            Expr::Loop(l) => {
                self.scoped("loop {".to_string(), |sk| sk.block(&l.body));
            }
            Expr::While(w) => {
                self.expr_cond(&w.cond);
                let c = toks(&w.cond);
                self.scoped(format!("while {} {{", c), |sk| sk.block(&w.body));
            }
            Expr::ForLoop(f) => {
                self.expr(&f.expr);
                // the iteration count is deliberately not recorded (spin constants may be retuned)
                self.scoped("for {".to_string(), |sk| sk.block(&f.body));
            }
            Expr::Block(b) => self.block(&b.block),
            Expr::Unsafe(u) => self.block(&u.block),
            Expr::Return(r) => {
                if let Some(e) = &r.expr {
                    self.expr(e);
                }
                if self.mode != Mode::Ptr {
                    self.emit("return".to_string());
                }
            }
            Expr::Break(_) => {
                if self.mode == Mode::Full {
                    self.emit("break".to_string())
                }
            }
            Expr::Continue(_) => {
                if self.mode == Mode::Full {
                    self.emit("continue".to_string())
                }
            }
            Expr::Macro(m) => self.mac(&m.mac),
            Expr::Assign(a) => {
                self.expr(&a.right);
                self.expr(&a.left);
                if self.mode == Mode::Ptr {
                    let l = toks(&a.left);
                    if l.contains("self . 0") || l.contains(". get ()") {
                        self.emit("assign_word".to_string());
                    }
                }
            }
            Expr::Binary(b) => {
                self.expr(&b.left);
                self.expr(&b.right);
                if self.mode == Mode::Full {
                    let t = toks(b);
                    if t.contains("LOCKED") || t.contains("TERMINATED") {
                        self.emit(format!("cmp {}", t));
                    }
                }
            }
            Expr::Unary(u) => self.expr(&u.expr),
            Expr::Paren(p) => self.expr(&p.expr),
            Expr::Reference(r) => self.expr(&r.expr),
            Expr::Field(f) => self.expr(&f.base),
            Expr::Cast(c) => self.expr(&c.expr),
            Expr::Try(t) => self.expr(&t.expr),
            Expr::Tuple(t) => {
                for x in &t.elems {
                    self.expr(x)
                }
            }
            Expr::Struct(s) => {
                for f in &s.fields {
                    self.expr(&f.expr)
                }
            }
            Expr::Closure(c) => {
                self.scoped("closure {".to_string(), |sk| sk.expr(&c.body));
            }
            Expr::Let(l) => self.expr(&l.expr),
            Expr::Index(i) => {
                self.expr(&i.expr);
                self.expr(&i.index)
            }
            Expr::Group(g) => self.expr(&g.expr),
            _ => {}
        }
    }

    fn expr_cond(&mut self, e: &Expr) {
        self.expr(e)
    }
}

fn skeleton(f: &Func, mode: Mode) -> Sk {
    let mut sk = Sk { mode, lines: vec![], depth: 0, sites: vec![] };
    sk.block(&f.block);
    sk
}

// ---------------------------------------------------------------- size dispatch trees (Gen_Ptr.v)

/// decision tree on size_of::<T>(): PIf (op, rhs) then else | PLeaf actions
pub(crate) enum PT {
    Leaf(Vec<String>),
    If(String, String, Box<PT>, Box<PT>),
    Unsupported(String),
}

fn size_cond(c: &Expr) -> Option<(String, String)> {
    if let Expr::Binary(b) = c {
        let l = toks(&b.left);
        let r = toks(&b.right);
        let op = toks(&b.op);
        let is_sz = |s: &str| s == "size_of :: < T > ()";
        let rhs = |s: &str| -> Option<String> {
            if s == "size_of :: < * mut T > ()" || s == "size_of :: < * const T > ()" || s == "size_of :: < usize > ()" {
                Some("PtrSize".into())
            } else if s == "0" {
                Some("Zero".into())
            } else {
                None
            }
        };
        if is_sz(&l) {
            if let Some(rv) = rhs(&r) {
                return Some((op, rv));
            }
        }
        // mirrored comparison: rhs OP size_of::<T>()
        if is_sz(&r) {
            if let Some(lv) = rhs(&l) {
                let m = match op.as_str() {
                    ">" => "<",
                    "<" => ">",
                    ">=" => "<=",
                    "<=" => ">=",
                    o => o,
                };
                return Some((m.to_string(), lv));
            }
        }
    }
    None
}

pub(crate) fn leaf_actions(stmts: &[Stmt]) -> Vec<String> {
    let f = Func { name: String::new(), block: Block { brace_token: Default::default(), stmts: stmts.to_vec() } };
    let sk = skeleton(&f, Mode::Ptr);
    sk.lines.iter().map(|l| l.trim().to_string()).filter(|l| l != "}").collect()
}

fn ptree_of_stmts(stmts: &[Stmt]) -> PT {
    // find the first statement that is (or ends in) an `if` on size_of; statements before it go to both leaves' prefix
    for (i, s) in stmts.iter().enumerate() {
        let e = match s {
            Stmt::Expr(e, _) => Some(e),
            Stmt::Local(l) => l.init.as_ref().map(|x| &*x.expr),
            _ => None,
        };
        if let Some(e) = e {
            if let Some(t) = ptree_of_expr(e) {
                let pre = leaf_actions(&stmts[..i]);
                let post = leaf_actions(&stmts[i + 1..]);
                return wrap(pre, t, post);
            }
        }
    }
    PT::Leaf(leaf_actions(stmts))
}

fn wrap(pre: Vec<String>, t: PT, post: Vec<String>) -> PT {
    match t {
        PT::Leaf(mut a) => {
            let mut v = pre;
            v.append(&mut a);
            v.extend(post);
            PT::Leaf(v)
        }
        PT::If(o, r, a, b) => PT::If(o, r, Box::new(wrap(pre.clone(), *a, post.clone())), Box::new(wrap(pre, *b, post))),
        u => u,
    }
}

fn unwrap_expr(e: &Expr) -> &Expr {
    match e {
        Expr::Unsafe(u) if u.block.stmts.len() == 1 => {
            if let Stmt::Expr(x, _) = &u.block.stmts[0] {
                return unwrap_expr(x);
            }
            e
        }
        Expr::Paren(p) => unwrap_expr(&p.expr),
        Expr::Call(c) if c.args.len() == 1 && (toks(&c.func) == "Ok" || toks(&c.func) == "Some") => unwrap_expr(&c.args[0]),
        Expr::Return(r) if r.expr.is_some() => unwrap_expr(r.expr.as_ref().unwrap()),
        _ => e,
    }
}

thread_local! {
    /// names of locals and fields that hold a Signal or a MaybeUninit (pointer mode): name -> canonical name,
    /// so that renaming `sig` / `ret` / `data` does not change the actions of a dispatch leaf
    static PTR_ALIAS: std::cell::RefCell<BTreeMap<String, String>> = std::cell::RefCell::new(BTreeMap::new());
}

fn ptr_alias(name: &str) -> String {
    PTR_ALIAS.with(|m| m.borrow().get(name).cloned()).unwrap_or_else(|| name.to_string())
}

fn learn_ptr_aliases(file: &syn::File) {
    struct V;
    impl<'ast> syn::visit::Visit<'ast> for V {
        fn visit_local(&mut self, l: &'ast syn::Local) {
            if let Some(init) = &l.init {
                let name = match &l.pat {
                    syn::Pat::Ident(i) => Some(i.ident.to_string()),
                    syn::Pat::Type(t) => match &*t.pat {
                        syn::Pat::Ident(i) => Some(i.ident.to_string()),
                        _ => None,
                    },
                    _ => None,
                };
                if let Some(n) = name {
                    let t = toks(&init.expr);
                    if t.starts_with("Signal ::") || t.contains("Signal :: new") {
                        PTR_ALIAS.with(|m| m.borrow_mut().insert(n, "sig".into()));
                    } else if t.starts_with("MaybeUninit") || t.starts_with("core :: mem :: MaybeUninit") {
                        PTR_ALIAS.with(|m| m.borrow_mut().insert(n, "ret".into()));
                    }
                }
            }
            syn::visit::visit_local(self, l);
        }
        fn visit_item_struct(&mut self, st: &'ast syn::ItemStruct) {
            for f in st.fields.iter() {
                if let Some(id) = &f.ident {
                    let t = toks(&f.ty);
                    if t.starts_with("Signal <") || t.starts_with("Signal<") {
                        PTR_ALIAS.with(|m| m.borrow_mut().insert(id.to_string(), "sig".into()));
                    } else if t.starts_with("MaybeUninit") {
                        PTR_ALIAS.with(|m| m.borrow_mut().insert(id.to_string(), "data".into()));
                    }
                }
            }
        }
    }
    let mut v = V;
    syn::visit::Visit::visit_file(&mut v, file);
    // macro bodies (impl items) too
    for item in &file.items {
        if let Item::Macro(mc) = item {
            if let Some(body) = last_brace_group(mc.mac.tokens.clone()) {
                let wrapped: TokenStream = format!("impl X {{ {} }}", body).parse().unwrap_or_default();
                if let Ok(im) = syn::parse2::<syn::ItemImpl>(wrapped) {
                    syn::visit::Visit::visit_item_impl(&mut v, &im);
                }
            }
        }
    }
}

thread_local! {
    /// parameterless `fn name<T>() -> bool { <one expression over size_of> }` helpers: name -> body
    static SIZE_PREDS: std::cell::RefCell<BTreeMap<String, Expr>> = std::cell::RefCell::new(BTreeMap::new());
}

fn collect_size_preds(file: &syn::File) {
    fn consider(sig: &syn::Signature, block: &Block) {
        if !sig.inputs.is_empty() || block.stmts.len() != 1 {
            return;
        }
        if let Stmt::Expr(e, None) = &block.stmts[0] {
            if toks(e).contains("size_of") && !matches!(e, Expr::If(_)) {
                SIZE_PREDS.with(|m| m.borrow_mut().insert(sig.ident.to_string(), e.clone()));
            }
        }
    }
    for it in &file.items {
        match it {
            syn::Item::Fn(f) => consider(&f.sig, &f.block),
            syn::Item::Impl(im) => {
                for x in &im.items {
                    if let ImplItem::Fn(f) = x {
                        consider(&f.sig, &f.block)
                    }
                }
            }
            _ => {}
        }
    }
}

fn is_size_pred(name: &str) -> bool {
    let last = name.rsplit('.').next().unwrap_or(name);
    SIZE_PREDS.with(|m| m.borrow().contains_key(last))
}

/// a size condition with helper predicates unfolded and negations pulled out: (condition, negated)
fn norm_cond(c: &Expr) -> (Expr, bool) {
    match c {
        Expr::Paren(p) => norm_cond(&p.expr),
        Expr::Unary(u) if matches!(u.op, syn::UnOp::Not(_)) => {
            let (e, n) = norm_cond(&u.expr);
            (e, !n)
        }
        Expr::Call(call) if call.args.is_empty() => {
            if let Expr::Path(p) = &*call.func {
                if let Some(seg) = p.path.segments.last() {
                    let body = SIZE_PREDS.with(|m| m.borrow().get(&seg.ident.to_string()).cloned());
                    if let Some(b) = body {
                        return norm_cond(&b);
                    }
                }
            }
            (c.clone(), false)
        }
        _ => (c.clone(), false),
    }
}

fn ptree_of_expr(e: &Expr) -> Option<PT> {
    let e = unwrap_expr(e);
    if let Expr::If(i) = e {
        let (cond, neg) = norm_cond(&i.cond);
        if toks(&cond).contains("size_of") {
            let t = ptree_of_stmts(&i.then_branch.stmts);
            let el = match &i.else_branch {
                Some((_, eb)) => match &**eb {
                    Expr::Block(b) => ptree_of_stmts(&b.block.stmts),
                    other => ptree_of_expr(other).unwrap_or_else(|| PT::Leaf(leaf_actions(&[Stmt::Expr(other.clone(), None)]))),
                },
                None => PT::Leaf(vec![]),
            };
            let (t, el) = if neg { (el, t) } else { (t, el) };
            return Some(match size_cond(&cond) {
                Some((op, rhs)) => PT::If(op, rhs, Box::new(t), Box::new(el)),
                None => PT::Unsupported(toks(&cond)),
            });
        }
    }
    None
}

fn coq_ptree(t: &PT) -> String {
    match t {
        PT::Leaf(a) => format!("PLeaf [{}]", a.iter().map(|s| coq_str(s)).collect::<Vec<_>>().join("; ")),
        PT::If(op, rhs, a, b) => {
            let o = match op.as_str() {
                ">" => "CGt",
                ">=" => "CGe",
                "<" => "CLt",
                "<=" => "CLe",
                "==" => "CEq",
                "!=" => "CNe",
                _ => "CGt",
            };
            format!("PIf {} {} ({}) ({})", o, rhs, coq_ptree(a), coq_ptree(b))
        }
        PT::Unsupported(s) => format!("PUnsupported {}", coq_str(s)),
    }
}

/// all size dispatches inside a function body, in source order (for the sites in lib.rs / future.rs)
fn find_dispatches(b: &Block, out: &mut Vec<PT>) {
    struct V<'a> {
        out: &'a mut Vec<PT>,
    }
    impl<'a, 'ast> syn::visit::Visit<'ast> for V<'a> {
        fn visit_expr_if(&mut self, i: &'ast syn::ExprIf) {
            if toks(&norm_cond(&i.cond).0).contains("size_of") {
                if let Some(t) = ptree_of_expr(&Expr::If(i.clone())) {
                    self.out.push(t);
                    return;
                }
            }
            syn::visit::visit_expr_if(self, i);
        }
    }
    let mut v = V { out };
    syn::visit::Visit::visit_block(&mut v, b);
}

// ---------------------------------------------------------------- traits (Gen_Traits.v)

fn coq_ty(t: &syn::Type) -> String {
    // first-order rendering of the types that occur in the crate's structs
    match t {
        syn::Type::Path(p) => {
            let seg = p.path.segments.last().unwrap();
            let name = seg.ident.to_string();
            let args: Vec<String> = match &seg.arguments {
                syn::PathArguments::AngleBracketed(a) => a
                    .args
                    .iter()
                    .filter_map(|g| match g {
                        syn::GenericArgument::Type(t) => Some(coq_ty(t)),
                        _ => None,
                    })
                    .collect(),
                _ => vec![],
            };
            if name == "T" && args.is_empty() {
                "TParam".to_string()
            } else {
                format!("(TApp {} [{}])", coq_str(&name), args.join("; "))
            }
        }
        syn::Type::Ptr(p) => format!("(TRawPtr {})", coq_ty(&p.elem)),
        syn::Type::Reference(r) => format!("(TRef {})", coq_ty(&r.elem)),
        syn::Type::Paren(p) => coq_ty(&p.elem),
        other => format!("(TApp {} [])", coq_str(&toks(other))),
    }
}

fn main() {
    let args: Vec<String> = std::env::args().collect();
    if args.len() == 3 && args[1] == "--lock" {
        let mut fns = vec![];
        for f in ["lib.rs", "future.rs", "internal.rs"] {
            let text = fs::read_to_string(format!("{}/{}", args[2], f)).unwrap();
            aut::collect(f, &syn::parse_file(&text).unwrap(), &mut fns);
        }
        let prims = aut::lock_prims(&fns);
        println!("prims {:?}", prims);
        for f in &fns {
            if !f.exported || f.file == "internal" {
                continue;
            }
            let c = aut::automaton_mode(&fns, f, aut::AMode::Lock, &prims);
            if !c.has_protocol_event {
                continue;
            }
            println!("== {}", f.qname);
            for l in &c.lines {
                println!("   {}", l);
            }
            for u in &c.unsupported {
                println!("   UNSUPPORTED {}", u);
            }
        }
        return;
    }
    if args.len() == 3 && args[1] == "--aut" {
        // debugging aid: print the canonical automata of the protocol functions
        let mut fns = vec![];
        for f in ["mutex.rs", "backoff.rs", "signal.rs"] {
            let text = fs::read_to_string(format!("{}/{}", args[2], f)).unwrap();
            let pf = syn::parse_file(&text).unwrap();
            aut::learn_names(f, &pf);
            aut::collect(f, &pf, &mut fns);
        }
        let called = aut::called_names(&fns);
        for f in &fns {
            let helper = !f.in_trait && called.contains(&f.name) && (!f.exported || f.ty.is_empty());
            if helper || (!f.exported && !f.in_trait) {
                continue;
            }
            let c = aut::automaton(&fns, f);
            if !c.has_protocol_event {
                continue;
            }
            println!("== {}", f.qname);
            for l in &c.lines {
                println!("   {}", l);
            }
            for (i, st, ss) in &c.roles {
                println!("   role {} {} <- {}", i, st, ss.iter().map(|s| format!("{}:{} {}.{} {}{}", s.file, s.line, s.field, s.kind, s.ord, s.ord2.as_ref().map(|x| format!("/{}", x)).unwrap_or_default())).collect::<Vec<_>>().join(" | "));
            }
            for u in &c.unsupported {
                println!("   UNSUPPORTED {}", u);
            }
        }
        return;
    }
    if args.len() != 3 {
        eprintln!("usage: kx <repo/src> <outdir>");
        std::process::exit(2);
    }
    let (src, out) = (&args[1], &args[2]);
    let files = ["mutex.rs", "backoff.rs", "signal.rs", "internal.rs", "lib.rs", "future.rs", "pointer.rs"];
    let mut parsed: BTreeMap<&str, syn::File> = BTreeMap::new();
    for f in files {
        let text = fs::read_to_string(format!("{}/{}", src, f)).unwrap_or_else(|e| {
            eprintln!("kx: cannot read {}: {}", f, e);
            std::process::exit(1)
        });
        match syn::parse_file(&text) {
            Ok(p) => {
                parsed.insert(f, p);
            }
            Err(e) => {
                eprintln!("kx: cannot parse {}: {}", f, e);
                std::process::exit(1)
            }
        }
    }

    // ---------------- Gen_Sites.v + Gen_Skel.v
    let mut sites = String::new();
    let mut skel = String::new();
    writeln!(sites, "(* generated by kx from /repo/src - do not edit *)\nFrom Coq Require Import String List NArith.\nFrom KV Require Import Mem.\nImport ListNotations.\nOpen Scope string_scope.\n").unwrap();
    writeln!(skel, "(* generated by kx from /repo/src - do not edit *)\nFrom Coq Require Import String List.\nImport ListNotations.\nOpen Scope string_scope.\n").unwrap();
    let mut site_rows: Vec<String> = vec![];
    let mut site_lines: Vec<String> = vec![];
    let mut skel_rows: Vec<(String, Vec<String>)> = vec![];
    let mut lock_rows: Vec<(String, Vec<String>)> = vec![];
    // the protocol functions: canonical event automata (see aut.rs); one role per atomic transition
    {
        let mut fns = vec![];
        for f in ["mutex.rs", "backoff.rs", "signal.rs"] {
            aut::learn_names(f, &parsed[f]);
            aut::collect(f, &parsed[f], &mut fns);
        }
        let called = aut::called_names(&fns);
        for f in &fns {
            // entries: trait methods, methods of the types, and free functions nobody in these files calls;
            // private helpers and free functions called from here (spin_cond, wherever it lives) are inlined
            let helper = !f.in_trait && called.contains(&f.name) && (!f.exported || f.ty.is_empty());
            if helper || (!f.exported && !f.in_trait) {
                continue;
            }
            let c = aut::automaton(&fns, f);
            if !c.has_protocol_event {
                continue;
            }
            let mut lines = c.lines.clone();
            for u in &c.unsupported {
                lines.push(format!("UNSUPPORTED {}", u));
            }
            for (i, stem, ss) in &c.roles {
                let mut o1 = ss[0].ord.clone();
                let mut o2 = ss[0].ord2.clone();
                for x in ss.iter().skip(1) {
                    o1 = aut::meet(&o1, &x.ord);
                    o2 = match (&o2, &x.ord2) {
                        (Some(a), Some(b)) => Some(aut::meet(a, b)),
                        _ => None,
                    };
                }
                for x in ss {
                    site_lines.push(format!("{}.rs {} {} {} {}", x.file, x.line, f.qname, i, x.kind));
                }
                let o2s = match &o2 {
                    Some(o) => format!("(Some {})", o),
                    None => "None".into(),
                };
                // operands in canonical form: what stands between the parentheses of the role's label
                let ops: Vec<String> = match (stem.find('('), stem.rfind(')')) {
                    (Some(a), Some(b)) if b > a + 1 => stem[a + 1..b].split(',').map(|x| x.trim().to_string()).collect(),
                    _ => vec![],
                };
                site_rows.push(format!(
                    "  mkSite {} {} {} {} [{}] {} {}",
                    coq_str(&f.qname),
                    i,
                    coq_str(&ss[0].field),
                    coq_str(&ss[0].kind),
                    ops.iter().map(|s| coq_str(s)).collect::<Vec<_>>().join("; "),
                    o1,
                    o2s
                ));
            }
            skel_rows.push((f.qname.clone(), lines));
        }
    }
    compute_locking_helpers(&[&parsed["lib.rs"], &parsed["future.rs"], &parsed["internal.rs"]]);
    for f in ["lib.rs", "future.rs", "internal.rs"] {
        let mut funcs = vec![];
        collect_funcs(&parsed[f], &mut funcs);
        for fun in &funcs {
            let sk = skeleton(fun, Mode::LockProf);
            let q = format!("{}.{}", f.trim_end_matches(".rs"), fun.name);
            if !sk.lines.is_empty() {
                lock_rows.push((q, sk.lines));
            }
        }
    }
    site_rows.sort();
    skel_rows.sort();
    writeln!(sites, "Definition atomic_sites : list asite := [\n{}\n].\n", site_rows.join(";\n")).unwrap();
    let mut consts: Vec<String> = vec![];
    for item in &parsed["signal.rs"].items {
        if let Item::Const(c) = item {
            consts.push(format!("  ({}, {})", coq_str(&c.ident.to_string()), coq_str(&toks(&c.expr))));
        }
    }
    writeln!(sites, "Definition signal_consts : list (string * string) := [\n{}\n].", consts.join(";\n")).unwrap();
    let row = |(n, ls): &(String, Vec<String>)| format!("  ({}, [{}])", coq_str(n), ls.iter().map(|l| coq_str(l)).collect::<Vec<_>>().join(";\n      "));
    writeln!(skel, "Definition protocol_skeletons : list (string * list string) := [\n{}\n].\n", skel_rows.iter().map(row).collect::<Vec<_>>().join(";\n")).unwrap();
    writeln!(skel, "Definition lock_profiles : list (string * list string) := [\n{}\n].", lock_rows.iter().map(row).collect::<Vec<_>>().join(";\n")).unwrap();
    fs::write(format!("{}/Gen_Sites.v", out), sites).unwrap();
    // side table for the trace acceptor's glue: source line of every atomic site (not part of the Coq development)
    fs::write(format!("{}/sites.tsv", out), site_lines.join("\n") + "\n").unwrap();
    fs::write(format!("{}/Gen_Skel.v", out), skel).unwrap();

    // ---------------- Gen_Lock.v: lock-discipline automata of the entry points of lib.rs / future.rs
    {
        let mut fns = vec![];
        for f in ["lib.rs", "future.rs", "internal.rs"] {
            aut::collect(f, &parsed[f], &mut fns);
        }
        let prims = aut::lock_prims(&fns);
        let mut rows: Vec<String> = vec![];
        for f in &fns {
            if !f.exported || f.file == "internal" {
                continue;
            }
            let c = aut::automaton_mode(&fns, f, aut::AMode::Lock, &prims);
            if !c.has_protocol_event {
                continue;
            }
            let mut edges: Vec<String> = vec![];
            for l in &c.lines {
                // "s<a> -- <label> --> s<b>"
                let parts: Vec<&str> = l.splitn(2, " -- ").collect();
                let rest: Vec<&str> = parts[1].rsplitn(2, " --> ").collect();
                let a = parts[0].trim_start_matches('s');
                let b = rest[0].trim_start_matches('s');
                edges.push(format!("({}, {}, {})", a, coq_str(rest[1]), b));
            }
            for u in &c.unsupported {
                edges.push(format!("(0, {}, 0)", coq_str(&format!("unsupported[{}]", u))));
            }
            rows.push(format!("  ({}, [{}])", coq_str(&f.qname), edges.join("; ")));
        }
        let mut lk = String::new();
        writeln!(lk, "(* generated by kx from /repo/src - do not edit *)\nFrom Coq Require Import String List.\nImport ListNotations.\nOpen Scope string_scope.\n").unwrap();
        writeln!(lk, "(* (function, transitions (from, event, to)) : acquire / try_acquire=some|none / release / cs (use of the protected data) / wait / ret[] / panic! *)").unwrap();
        writeln!(lk, "Definition lock_automata : list (string * list (nat * string * nat)) := [\n{}\n].", rows.join(";\n")).unwrap();
        fs::write(format!("{}/Gen_Lock.v", out), lk).unwrap();
    }

    // ---------------- Gen_Ptr.v
    for f in ["pointer.rs", "lib.rs", "future.rs"] {
        collect_size_preds(&parsed[f]);
    }
    for f in ["lib.rs", "future.rs"] {
        learn_ptr_aliases(&parsed[f]);
    }
    let mut ptr = String::new();
    writeln!(ptr, "(* generated by kx from /repo/src - do not edit *)\nFrom Coq Require Import String List.\nFrom KV Require Import PtrBase.\nImport ListNotations.\nOpen Scope string_scope.\n").unwrap();
    let mut prow: Vec<String> = vec![];
    {
        let mut funcs = vec![];
        collect_funcs(&parsed["pointer.rs"], &mut funcs);
        let helpers = ptrx::helpers_of(&parsed["pointer.rs"]);
        for fun in &funcs {
            if is_size_pred(&fun.name) {
                continue;
            }
            let t = ptrx::function_tree(&helpers, &fun.block);
            prow.push(format!("  ({}, {})", coq_str(&format!("pointer.{}", fun.name)), coq_ptree(&t)));
        }
    }
    for f in ["lib.rs", "future.rs"] {
        let mut funcs = vec![];
        collect_funcs(&parsed[f], &mut funcs);
        let helpers = ptrx::helpers_of(&parsed[f]);
        for fun in &funcs {
            let ds = ptrx::sites_of(&helpers, &fun.block);
            for (i, t) in ds.iter().enumerate() {
                // the private helpers of the futures that read / destroy the value kept in the future are named by what
                // they do, not by what they are called
                let text = coq_ptree(t);
                let simple = fun.name.rsplit('.').next().unwrap_or("").to_string();
                let mut name = fun.name.clone();
                if !["new", "poll", "recv", "recv_timeout", "send", "send_timeout", "drop", "poll_next"].contains(&simple.as_str()) {
                    let role = if text.contains("ptr::read") {
                        Some("read_local_data")
                    } else if text.contains("assume_init_drop") {
                        Some("drop_local_data")
                    } else {
                        None
                    };
                    if let Some(r) = role {
                        name = format!("{}.{}", fun.name.rsplitn(2, '.').nth(1).unwrap_or(""), r);
                    }
                }
                prow.push(format!("  ({}, {})", coq_str(&format!("{}.{}#{}", f.trim_end_matches(".rs"), name, i)), text));
            }
        }
    }
    writeln!(ptr, "Definition ptr_sites : list (string * ptree) := [\n{}\n].", prow.join(";\n")).unwrap();
    fs::write(format!("{}/Gen_Ptr.v", out), ptr).unwrap();

    // ---------------- Gen_Traits.v
    let mut tr = String::new();
    writeln!(tr, "(* generated by kx from /repo/src - do not edit *)\nFrom Coq Require Import String List.\nFrom KV Require Import TraitsBase.\nImport ListNotations.\nOpen Scope string_scope.\n").unwrap();
    let mut structs: Vec<String> = vec![];
    let mut impls: Vec<String> = vec![];
    let mut aliases: Vec<String> = vec![];
    for f in ["internal.rs", "signal.rs", "lib.rs", "future.rs", "mutex.rs", "pointer.rs"] {
        for item in &parsed[f].items {
            match item {
                Item::Struct(s) => {
                    if is_cfg_verif(&s.attrs) {
                        continue;
                    }
                    let fields: Vec<String> = s.fields.iter().map(|fd| coq_ty(&fd.ty)).collect();
                    structs.push(format!("  ({}, [{}])", coq_str(&s.ident.to_string()), fields.join("; ")));
                }
                Item::Enum(e) => {
                    let mut fields = vec![];
                    for v in &e.variants {
                        for fd in &v.fields {
                            fields.push(coq_ty(&fd.ty));
                        }
                    }
                    structs.push(format!("  ({}, [{}])", coq_str(&e.ident.to_string()), fields.join("; ")));
                }
                Item::Type(t) => {
                    if toks(&t.attrs.iter().map(|a| toks(a)).collect::<Vec<_>>().join(" ")).contains("std-mutex") && toks(&t.attrs.iter().map(|a| toks(a)).collect::<Vec<_>>().join(" ")).contains("feature = \"std-mutex\"") && !toks(&t.attrs.iter().map(|a| toks(a)).collect::<Vec<_>>().join(" ")).contains("not") {
                        continue;
                    }
                    aliases.push(format!("  ({}, {})", coq_str(&t.ident.to_string()), coq_ty(&t.ty)));
                }
                Item::Impl(im) => {
                    if let Some((neg, path, _)) = &im.trait_ {
                        let tn = path.segments.last().unwrap().ident.to_string();
                        if tn == "Send" || tn == "Sync" {
                            let ty = toks(&im.self_ty);
                            let ty = ty.split('<').next().unwrap().trim().to_string();
                            // bounds on T: in the generics and in the where clause
                            let mut bounds: Vec<String> = vec![];
                            let mut other_where: Vec<String> = vec![];
                            for p in &im.generics.params {
                                if let syn::GenericParam::Type(tp) = p {
                                    for b in &tp.bounds {
                                        bounds.push(toks(b));
                                    }
                                }
                            }
                            if let Some(w) = &im.generics.where_clause {
                                for p in &w.predicates {
                                    if let syn::WherePredicate::Type(pt) = p {
                                        if toks(&pt.bounded_ty) == "T" {
                                            for b in &pt.bounds {
                                                bounds.push(toks(b));
                                            }
                                        } else {
                                            other_where.push(format!("({}, [{}])", coq_ty(&pt.bounded_ty), pt.bounds.iter().map(|b| coq_str(&toks(b))).collect::<Vec<_>>().join("; ")));
                                        }
                                    }
                                }
                            }
                            impls.push(format!(
                                "  mkImpl {} {} {} [{}] [{}]",
                                coq_str(&ty),
                                coq_str(&tn),
                                if neg.is_some() { "true" } else { "false" },
                                bounds.iter().map(|b| coq_str(b)).collect::<Vec<_>>().join("; "),
                                other_where.join("; ")
                            ));
                        }
                    }
                    // associated types of interest (GuardMarker)
                    for it in &im.items {
                        if let ImplItem::Type(t) = it {
                            aliases.push(format!("  ({}, {})", coq_str(&t.ident.to_string()), coq_ty(&t.ty)));
                        }
                    }
                }
                _ => {}
            }
        }
    }
    writeln!(tr, "Definition struct_defs : list (string * list ty) := [\n{}\n].\n", structs.join(";\n")).unwrap();
    writeln!(tr, "Definition type_aliases : list (string * ty) := [\n{}\n].\n", aliases.join(";\n")).unwrap();
    writeln!(tr, "Definition explicit_impls : list timpl := [\n{}\n].", impls.join(";\n")).unwrap();
    fs::write(format!("{}/Gen_Traits.v", out), tr).unwrap();
}
