//! aut - event automata of the protocol functions (signal.rs, mutex.rs, backoff.rs).
//!
//! Each entry function is executed symbolically over its syntax tree, with calls to the other
//! functions of these three files inlined (closure arguments included).  The result is a finite
//! automaton whose transitions are the *protocol events* of the function in evaluation order:
//! atomic operations on `state` / `locked` (a compare-exchange forks into `=ok` / `=err`), fences,
//! park / unpark, pauses (yield, sleep, spin hint, any leaf helper of backoff.rs), clock readings,
//! accesses to the signal's waker and slot, tests of conditions that depend on protocol values
//! (`if[state.load < LOCKED]=T`), and returns with their symbolic value
//! (`ret[state.load == UNLOCKED]`).  Conditions that are decided by the shape of a value
//! (`Ok`/`Err`, `Some`/`None`, `Ready`/`Pending`, booleans) are resolved, local names are replaced
//! by what they stand for, loop bounds and conditions over plain counters are unlabelled choices.
//! The automaton is determinised, minimised and numbered canonically, so that rewrites which keep
//! the event-level behaviour of a function - extracting or inlining helpers, early return vs else,
//! `match` vs `if let` vs `.is_err()`, renaming, other loop forms, other spin constants - give the
//! same text.  Orderings are not part of the labels: every atomic transition of the canonical
//! automaton is a *role*, and its ordering is the weakest one among the source sites that play it.
use crate::{is_cfg_verif, ordering_of, toks};
use std::collections::{BTreeMap, BTreeSet, HashMap};
use syn::spanned::Spanned;
use syn::{Block, Expr, ImplItem, Item, Pat, Stmt};

thread_local! {
    /// `const NAME: .. = literal;` of the translated files: labels carry the value, not the name
    static CONSTS: std::cell::RefCell<BTreeMap<String, String>> = std::cell::RefCell::new(BTreeMap::new());
    /// struct fields recognised by their type: the atomic word of the signal / of the lock, the slot, the waker
    static FIELD_ALIAS: std::cell::RefCell<BTreeMap<String, String>> = std::cell::RefCell::new(BTreeMap::new());
}

thread_local! {
    /// enums of the translated files: name -> variants (name, arity); and field (alias) -> enum name
    static ENUMS: std::cell::RefCell<BTreeMap<String, Vec<(String, usize)>>> = std::cell::RefCell::new(BTreeMap::new());
    static FIELD_ENUM: std::cell::RefCell<BTreeMap<String, String>> = std::cell::RefCell::new(BTreeMap::new());
}

/// the constructors of the enum stored in the field that ends the access path `text`
fn variants_of_path(text: &str) -> Option<Vec<(String, usize)>> {
    let last = text.rsplit('.').next()?;
    let en = FIELD_ENUM.with(|m| m.borrow().get(last).cloned())?;
    ENUMS.with(|m| m.borrow().get(&en).cloned())
}

fn const_value(name: &str) -> Option<String> {
    CONSTS.with(|m| m.borrow().get(name).cloned())
}
fn field_alias(name: &str) -> String {
    FIELD_ALIAS.with(|m| m.borrow().get(name).cloned()).unwrap_or_else(|| name.to_string())
}

fn field_alias_for(ty: &str, file: &str) -> Option<String> {
    if ty.contains("Atomic") {
        Some(if file.starts_with("mutex") { "locked".to_string() } else { "state".to_string() })
    } else if ty.contains("KanalPtr") {
        Some("ptr".to_string())
    } else if ty.contains("KanalWaker") {
        Some("waker".to_string())
    } else {
        None
    }
}

/// constants and field types of one source file (call before building automata)
pub fn learn_names(file: &str, f: &syn::File) {
    for item in &f.items {
        match item {
            Item::Const(c) => {
                if let Expr::Lit(l) = &*c.expr {
                    CONSTS.with(|m| m.borrow_mut().insert(c.ident.to_string(), toks(&l.lit)));
                }
            }
            Item::Enum(en) => {
                if is_cfg_verif(&en.attrs) {
                    continue;
                }
                let vs: Vec<(String, usize)> = en.variants.iter().map(|v| (v.ident.to_string(), v.fields.len())).collect();
                ENUMS.with(|m| m.borrow_mut().insert(en.ident.to_string(), vs));
            }
            Item::Struct(st) => {
                for fld in st.fields.iter() {
                    if let Some(id) = &fld.ident {
                        let ty = toks(&fld.ty);
                        let first = ty.split(|c: char| !c.is_alphanumeric() && c != '_').find(|x| !x.is_empty()).unwrap_or("").to_string();
                        FIELD_ENUM.with(|m| m.borrow_mut().insert(field_alias_for(&ty, file).unwrap_or(id.to_string()), first));
                        if let Some(a) = field_alias_for(&ty, file) {
                            FIELD_ALIAS.with(|m| m.borrow_mut().insert(id.to_string(), a));
                        }
                    }
                }
            }
            _ => {}
        }
    }
}

#[derive(Clone)]
pub struct FnDef {
    pub file: String,
    pub ty: String,
    pub name: String,
    pub qname: String,
    pub params: Vec<String>,
    pub has_self: bool,
    pub exported: bool,
    /// printed return type
    pub ret: String,
    pub in_trait: bool,
    pub block: Block,
}

pub fn collect(file: &str, f: &syn::File, out: &mut Vec<FnDef>) {
    let stem = file.trim_end_matches(".rs").to_string();
    for item in &f.items {
        match item {
            Item::Fn(x) => {
                if is_cfg_verif(&x.attrs) {
                    continue;
                }
                out.push(mk(&stem, "", "", &x.sig, !matches!(x.vis, syn::Visibility::Inherited), &x.block));
            }
            Item::Impl(im) => {
                if is_cfg_verif(&im.attrs) {
                    continue;
                }
                let ty = toks(&im.self_ty);
                let ty = ty.split('<').next().unwrap().trim().to_string();
                let tr = im.trait_.as_ref().map(|(_, p, _)| p.segments.last().unwrap().ident.to_string());
                for it in &im.items {
                    if let ImplItem::Fn(x) = it {
                        if is_cfg_verif(&x.attrs) {
                            continue;
                        }
                        let exported = tr.is_some() || !matches!(x.vis, syn::Visibility::Inherited);
                        out.push(mk(&stem, &ty, tr.as_deref().unwrap_or(""), &x.sig, exported, &x.block));
                    }
                }
            }
            Item::Macro(m) => {
                if let (Some(id), Some(body)) = (&m.ident, crate::last_brace_group(m.mac.tokens.clone())) {
                    let wrapped: proc_macro2::TokenStream = format!("impl X {{ {} }}", body).parse().unwrap_or_default();
                    if let Ok(im) = syn::parse2::<syn::ItemImpl>(wrapped) {
                        for it in &im.items {
                            if let ImplItem::Fn(x) = it {
                                if is_cfg_verif(&x.attrs) {
                                    continue;
                                }
                                let exported = !matches!(x.vis, syn::Visibility::Inherited);
                                let mut d = mk(&stem, &id.to_string(), "", &x.sig, exported, &x.block);
                                // the qualified name of a macro-generated method does not mention the macro
                                let base = format!("{}.{}", stem, d.name);
                                let k = out.iter().filter(|o: &&FnDef| o.qname == base || o.qname.starts_with(&format!("{}#", base))).count();
                                d.qname = if k == 0 { base } else { format!("{}#{}", base, k + 1) };
                                out.push(d);
                            }
                        }
                    }
                }
            }
            _ => {}
        }
    }
}

fn mk(stem: &str, ty: &str, tr: &str, sig: &syn::Signature, exported: bool, block: &Block) -> FnDef {
    let mut params = vec![];
    let mut has_self = false;
    for a in &sig.inputs {
        match a {
            syn::FnArg::Receiver(_) => has_self = true,
            syn::FnArg::Typed(t) => params.push(match &*t.pat {
                Pat::Ident(i) => i.ident.to_string(),
                p => toks(p),
            }),
        }
    }
    let name = sig.ident.to_string();
    let mut q = stem.to_string();
    if !ty.is_empty() {
        q.push('.');
        q.push_str(ty);
    }
    if !tr.is_empty() {
        q.push('.');
        q.push_str(tr);
    }
    q.push('.');
    q.push_str(&name);
    let ret = match &sig.output {
        syn::ReturnType::Default => String::new(),
        syn::ReturnType::Type(_, t) => toks(&**t),
    };
    FnDef { file: stem.to_string(), ty: ty.to_string(), name, qname: q, params, has_self, exported, ret, in_trait: !tr.is_empty(), block: block.clone() }
}

// ------------------------------------------------------------------ symbolic values

#[derive(Clone, PartialEq, Eq, PartialOrd, Ord, Debug)]
enum Shape {
    /// the guard of the channel's internal lock (lock-discipline mode)
    Guard,
    Unknown,
    Bool(bool),
    Ctor(String, Vec<Val>),
    Closure(usize),
}

#[derive(Clone, PartialEq, Eq, PartialOrd, Ord, Debug)]
struct Val {
    text: String,
    shape: Shape,
    /// depends on a run-time value of the protocol (a loaded state, a clock reading, an argument)
    proto: bool,
}

impl Val {
    fn unit() -> Val {
        Val { text: String::new(), shape: Shape::Unknown, proto: false }
    }
    fn pure(t: &str) -> Val {
        Val { text: t.to_string(), shape: Shape::Unknown, proto: false }
    }
    fn proto(t: &str) -> Val {
        Val { text: t.to_string(), shape: Shape::Unknown, proto: true }
    }
    fn boolean(b: bool) -> Val {
        Val { text: b.to_string(), shape: Shape::Bool(b), proto: false }
    }
    fn ctor(name: &str, args: Vec<Val>) -> Val {
        let t = if args.is_empty() {
            name.to_string()
        } else {
            format!("{}({})", name, args.iter().map(|a| a.text.clone()).collect::<Vec<_>>().join(", "))
        };
        let p = args.iter().any(|a| a.proto);
        Val { text: t, shape: Shape::Ctor(name.to_string(), args), proto: p }
    }
}

type Env = BTreeMap<String, Val>;

#[derive(Clone)]
struct Path {
    node: usize,
    env: Env,
}

#[derive(Default)]
struct Out {
    normal: Vec<(Path, Val)>,
    ret: Vec<(usize, Val)>,
    brk: Vec<Path>,
    cont: Vec<Path>,
}

impl Out {
    fn absorb_control(&mut self, o: &mut Out) {
        self.ret.append(&mut o.ret);
        self.brk.append(&mut o.brk);
        self.cont.append(&mut o.cont);
    }
}

#[derive(Clone, Debug)]
pub struct Site {
    pub field: String,
    pub kind: String,
    pub operands: Vec<String>,
    pub ord: String,
    pub ord2: Option<String>,
    pub file: String,
    pub line: usize,
}

pub struct Graph {
    n: usize,
    edges: Vec<(usize, Option<String>, usize)>,
    /// NFA edge index -> site
    sites: HashMap<usize, Site>,
}

const END: usize = 0;

#[derive(Clone, Copy, PartialEq)]
pub enum AMode {
    /// signal.rs / mutex.rs / backoff.rs: the hand-off and lock protocols
    Protocol,
    /// lib.rs / future.rs / internal.rs: acquisition and release of the channel lock, uses of the protected
    /// data, waits
    Lock,
}

struct B<'a> {
    mode: AMode,
    /// lock-discipline mode: the functions that take the lock directly (name -> blocking?)
    prims: BTreeMap<String, bool>,
    fns: &'a [FnDef],
    g: Graph,
    closures: Vec<(Vec<String>, Expr, Env, String, String)>,
    stack: Vec<String>,
    cur_ty: Vec<String>,
    cur_file: Vec<String>,
    unsupported: Vec<String>,
    /// what `self` stands for inside an inlined method of a field's type
    self_val: Vec<Val>,
}

fn negated(t: &str) -> Option<String> {
    if t.starts_with("!(") && t.ends_with(')') {
        // the parenthesis opened at position 1 must be the one closed at the end
        let mut depth = 0i32;
        for (i, c) in t.char_indices().skip(1) {
            match c {
                '(' => depth += 1,
                ')' => {
                    depth -= 1;
                    if depth == 0 {
                        return if i == t.len() - 1 { Some(t[2..t.len() - 1].to_string()) } else { None };
                    }
                }
                _ => {}
            }
        }
    }
    None
}

fn negate(t: &str) -> String {
    match negated(t) {
        Some(inner) => inner,
        None => format!("!({})", t),
    }
}

fn last_seg(e: &Expr) -> Option<String> {
    if let Expr::Path(p) = e {
        return p.path.segments.last().map(|s| s.ident.to_string());
    }
    None
}

fn path_text(e: &Expr) -> Option<String> {
    if let Expr::Path(p) = e {
        return Some(p.path.segments.iter().map(|s| s.ident.to_string()).collect::<Vec<_>>().join("::"));
    }
    None
}

const ATOMIC_METHODS: [&str; 12] = [
    "load", "store", "compare_exchange", "compare_exchange_weak", "swap", "fetch_add", "fetch_sub", "fetch_or", "fetch_and",
    "fetch_xor", "fetch_max", "fetch_min",
];

impl<'a> B<'a> {
    fn node(&mut self) -> usize {
        self.g.n += 1;
        self.g.n - 1
    }
    fn edge(&mut self, a: usize, l: Option<String>, b: usize) -> usize {
        self.g.edges.push((a, l, b));
        self.g.edges.len() - 1
    }
    fn step(&mut self, p: &Path, label: &str) -> Path {
        let n = self.node();
        self.edge(p.node, Some(label.to_string()), n);
        Path { node: n, env: p.env.clone() }
    }
    fn tau(&mut self, p: &Path) -> Path {
        let n = self.node();
        self.edge(p.node, None, n);
        Path { node: n, env: p.env.clone() }
    }
    /// merge paths with equal environments (and values) into one node
    fn join(&mut self, v: Vec<(Path, Val)>) -> Vec<(Path, Val)> {
        if v.len() < 2 {
            return v;
        }
        let mut groups: BTreeMap<(Vec<(String, Val)>, Val), Vec<usize>> = BTreeMap::new();
        let mut order = vec![];
        for (p, val) in &v {
            let k = (p.env.iter().map(|(a, b)| (a.clone(), b.clone())).collect::<Vec<_>>(), val.clone());
            if !groups.contains_key(&k) {
                order.push(k.clone());
            }
            groups.entry(k).or_default().push(p.node);
        }
        let mut out = vec![];
        for k in order {
            let nodes = &groups[&k];
            let env: Env = k.0.iter().cloned().collect();
            if nodes.len() == 1 {
                out.push((Path { node: nodes[0], env }, k.1.clone()));
            } else {
                let j = self.node();
                for n in nodes {
                    self.edge(*n, None, j);
                }
                out.push((Path { node: j, env }, k.1.clone()));
            }
        }
        out
    }

    fn find_fn(&self, ty: Option<&str>, name: &str, method: bool) -> Option<&'a FnDef> {
        let cands: Vec<&FnDef> = self.fns.iter().filter(|f| f.name == name && (f.has_self == method || !method)).collect();
        if cands.is_empty() {
            return None;
        }
        if let Some(t) = ty {
            if let Some(f) = cands.iter().find(|f| f.ty == t) {
                return Some(f);
            }
            if !method {
                return None;
            }
        }
        let cur = self.cur_ty.last().cloned().unwrap_or_default();
        if let Some(f) = cands.iter().find(|f| f.ty == cur) {
            return Some(f);
        }
        if method {
            // a method of another type of these files: only when there is no doubt which
            return if cands.len() == 1 { Some(cands[0]) } else { None };
        }
        cands.into_iter().find(|f| f.ty.is_empty())
    }

    // ---------------------------------------------------------------- lock-discipline mode helpers
    fn has_guard(v: &Val) -> bool {
        match &v.shape {
            Shape::Guard => true,
            Shape::Ctor(_, a) => a.iter().any(Self::has_guard),
            _ => false,
        }
    }
    /// a use of the protected data (consecutive uses are one event)
    fn cs(&mut self, p: &Path) -> Path {
        if p.env.get("<last>").map(|v| v.text == "cs").unwrap_or(false) {
            return p.clone();
        }
        let mut q = self.step(p, "cs");
        q.env.insert("<last>".into(), Val::pure("cs"));
        q
    }
    fn ev(&mut self, p: &Path, label: &str) -> Path {
        let mut q = self.step(p, label);
        q.env.remove("<last>");
        q
    }
    /// bindings that go out of scope: a guard among them is released there
    fn leave(&mut self, q: Path, outer: &BTreeSet<String>) -> Path {
        self.leave_v(q, outer, false)
    }
    /// `moved_out`: the value of the scope carries the guard away (it is not released here)
    fn leave_v(&mut self, mut q: Path, outer: &BTreeSet<String>, moved_out: bool) -> Path {
        if self.mode == AMode::Lock && !moved_out {
            let gone: Vec<String> = q.env.iter().filter(|(k, v)| !outer.contains(*k) && k.as_str() != "<last>" && Self::has_guard(v)).map(|(k, _)| k.clone()).collect();
            for _ in gone {
                q = self.ev(&q, "release");
            }
        }
        let keep_last = q.env.get("<last>").cloned();
        q.env.retain(|k, _| outer.contains(k) || k.starts_with("<shape:"));
        if let Some(l) = keep_last {
            q.env.insert("<last>".into(), l);
        }
        q
    }
    fn release_all(&mut self, mut q: Path) -> Path {
        if self.mode == AMode::Lock {
            let n = q.env.iter().filter(|(k, v)| k.as_str() != "<last>" && Self::has_guard(v)).count();
            for _ in 0..n {
                q = self.ev(&q, "release");
            }
            q.env.retain(|_, v| !Self::has_guard(v));
        }
        q
    }
    /// arguments that are plain locals holding a guard: moved into the callee
    fn moved_guards(args: &syn::punctuated::Punctuated<Expr, syn::token::Comma>, env: &Env) -> Vec<String> {
        let mut out = vec![];
        for a in args {
            if let Expr::Path(p) = a {
                if p.path.segments.len() == 1 {
                    let n = p.path.segments[0].ident.to_string();
                    if env.get(&n).map(Self::has_guard).unwrap_or(false) {
                        out.push(n);
                    }
                }
            }
        }
        out
    }

    /// a value of a known enum whose constructor is not known yet: one branch per constructor, remembered
    fn case_split(&mut self, p: Path, v: &Val) -> Vec<(Path, Val)> {
        if self.mode != AMode::Protocol || v.shape != Shape::Unknown {
            return vec![(p, v.clone())];
        }
        let vars = match variants_of_path(&v.text) {
            Some(x) if !x.is_empty() => x,
            _ => return vec![(p, v.clone())],
        };
        let mut out = vec![];
        for (name, arity) in vars {
            let mut q = self.step(&p, &format!("case[{}={}]", v.text, name));
            let args: Vec<Val> = (0..arity).map(|k| Val { text: format!("{}.{}.{}", v.text, name, k), shape: Shape::Unknown, proto: v.proto }).collect();
            let nv = Val { text: v.text.clone(), shape: Shape::Ctor(name.clone(), args), proto: v.proto };
            q.env.insert(format!("<shape:{}>", v.text), nv.clone());
            out.push((q, nv));
        }
        out
    }
    fn recall_shape(env: &Env, v: Val) -> Val {
        if v.shape == Shape::Unknown {
            if let Some(k) = env.get(&format!("<shape:{}>", v.text)) {
                return k.clone();
            }
        }
        v
    }

    // ---------------------------------------------------------------- blocks and statements
    fn block(&mut self, b: &Block, p: Path) -> Out {
        let mut out = Out::default();
        let mut cur: Vec<(Path, Val)> = vec![(p, Val::unit())];
        let n = b.stmts.len();
        for (i, s) in b.stmts.iter().enumerate() {
            let last = i + 1 == n;
            let mut next = vec![];
            for (p, _) in cur {
                let mut o = self.stmt(s, p, last);
                out.absorb_control(&mut o);
                next.append(&mut o.normal);
            }
            if !last {
                for x in next.iter_mut() {
                    x.1 = Val::unit();
                }
            }
            cur = self.join(next);
            if cur.is_empty() {
                break;
            }
        }
        // bindings of the block go out of scope: keep only what the caller's environment can see
        out.normal = cur;
        out
    }

    fn stmt(&mut self, s: &Stmt, p: Path, last: bool) -> Out {
        match s {
            Stmt::Local(l) => {
                if is_cfg_verif(&l.attrs) {
                    return Out { normal: vec![(p, Val::unit())], ..Default::default() };
                }
                match &l.init {
                    Some(init) => {
                        let mut o = self.eval(&init.expr, p);
                        let mut res = Out::default();
                        res.absorb_control(&mut o);
                        for (mut p, v) in o.normal {
                            let mutable = matches!(&l.pat, Pat::Ident(i) if i.mutability.is_some()) && !Self::has_guard(&v);
                            if mutable {
                                if let Pat::Ident(i) = &l.pat {
                                    p.env.insert(i.ident.to_string(), Val::pure("<counter>"));
                                }
                            } else {
                                self.bind(&l.pat, &v, &mut p.env);
                            }
                            res.normal.push((p, Val::unit()));
                        }
                        res
                    }
                    None => Out { normal: vec![(p, Val::unit())], ..Default::default() },
                }
            }
            Stmt::Item(_) => Out { normal: vec![(p, Val::unit())], ..Default::default() },
            Stmt::Expr(e, semi) => {
                if is_cfg_verif(crate::expr_attrs(e)) {
                    return Out { normal: vec![(p, Val::unit())], ..Default::default() };
                }
                let mut o = self.eval(e, p);
                if semi.is_some() || !last {
                    for x in o.normal.iter_mut() {
                        x.1 = Val::unit();
                    }
                }
                o
            }
            Stmt::Macro(m) => {
                if is_cfg_verif(&m.attrs) {
                    return Out { normal: vec![(p, Val::unit())], ..Default::default() };
                }
                self.mac(&m.mac, p)
            }
        }
    }

    fn mac(&mut self, m: &syn::Macro, p: Path) -> Out {
        let name = m.path.segments.last().map(|s| s.ident.to_string()).unwrap_or_default();
        match name.as_str() {
            "unreachable" | "panic" | "todo" | "unimplemented" => {
                self.edge(p.node, Some(format!("{}!", if name == "unreachable" { "unreachable" } else { "panic" })), END);
                Out::default()
            }
            _ => Out { normal: vec![(p, Val::unit())], ..Default::default() },
        }
    }

    fn bind(&mut self, pat: &Pat, v: &Val, env: &mut Env) {
        match pat {
            Pat::Ident(i) => {
                if i.mutability.is_some() && !Self::has_guard(v) {
                    env.insert(i.ident.to_string(), Val::pure("<counter>"));
                } else {
                    env.insert(i.ident.to_string(), v.clone());
                }
            }
            Pat::Reference(r) => self.bind(&r.pat, v, env),
            Pat::Paren(r) => self.bind(&r.pat, v, env),
            Pat::Type(t) => self.bind(&t.pat, v, env),
            Pat::TupleStruct(ts) => {
                let ctor = ts.path.segments.last().map(|s| s.ident.to_string()).unwrap_or_default();
                for (k, sub) in ts.elems.iter().enumerate() {
                    let sv = match &v.shape {
                        Shape::Ctor(_, args) if k < args.len() => args[k].clone(),
                        _ => Val { text: format!("{}.{}.{}", v.text, ctor, k), shape: Shape::Unknown, proto: v.proto },
                    };
                    self.bind(sub, &sv, env);
                }
            }
            Pat::Tuple(t) => {
                for (k, sub) in t.elems.iter().enumerate() {
                    let sv = Val { text: format!("{}.{}", v.text, k), shape: Shape::Unknown, proto: v.proto };
                    self.bind(sub, &sv, env);
                }
            }
            _ => {}
        }
    }

    /// Some(true/false): the pattern certainly matches / certainly does not; None: unknown
    fn pat_match(&self, pat: &Pat, v: &Val) -> Option<bool> {
        match pat {
            Pat::Wild(_) => Some(true),
            Pat::Ident(i) => {
                // a nullary constructor or constant written as an identifier (None)
                let n = i.ident.to_string();
                if n == "None" {
                    return match &v.shape {
                        Shape::Ctor(c, _) => Some(c == "None"),
                        _ => None,
                    };
                }
                Some(true)
            }
            Pat::Reference(r) => self.pat_match(&r.pat, v),
            Pat::Paren(r) => self.pat_match(&r.pat, v),
            Pat::Or(o) => {
                let rs: Vec<Option<bool>> = o.cases.iter().map(|c| self.pat_match(c, v)).collect();
                if rs.iter().any(|r| *r == Some(true)) {
                    Some(true)
                } else if rs.iter().all(|r| *r == Some(false)) {
                    Some(false)
                } else {
                    None
                }
            }
            Pat::TupleStruct(ts) => {
                let ctor = ts.path.segments.last().map(|s| s.ident.to_string()).unwrap_or_default();
                match &v.shape {
                    Shape::Ctor(c, args) => {
                        if *c != ctor {
                            return Some(false);
                        }
                        let mut all = Some(true);
                        for (k, sub) in ts.elems.iter().enumerate() {
                            if k < args.len() {
                                match self.pat_match(sub, &args[k]) {
                                    Some(true) => {}
                                    Some(false) => return Some(false),
                                    None => all = None,
                                }
                            }
                        }
                        all
                    }
                    Shape::Bool(_) => Some(false),
                    _ => None,
                }
            }
            Pat::Path(pp) => {
                let ctor = pp.path.segments.last().map(|s| s.ident.to_string()).unwrap_or_default();
                match &v.shape {
                    Shape::Ctor(c, _) => Some(*c == ctor),
                    _ => None,
                }
            }
            Pat::Lit(l) => {
                let t = toks(&l.lit);
                match &v.shape {
                    Shape::Bool(b) => Some(b.to_string() == t),
                    _ => {
                        if !v.proto && !v.text.is_empty() && v.text.chars().all(|c| c.is_ascii_digit()) {
                            Some(v.text == t)
                        } else {
                            None
                        }
                    }
                }
            }
            _ => None,
        }
    }

    fn pat_text(&self, pat: &Pat) -> String {
        match pat {
            Pat::Wild(_) => "_".into(),
            Pat::Ident(i) => {
                let n = i.ident.to_string();
                if n == "None" {
                    n
                } else {
                    "_".into()
                }
            }
            Pat::Reference(r) => self.pat_text(&r.pat),
            Pat::Paren(r) => self.pat_text(&r.pat),
            Pat::Or(o) => {
                let mut v: Vec<String> = o.cases.iter().map(|c| self.pat_text(c)).collect();
                v.sort();
                v.join("|")
            }
            Pat::TupleStruct(ts) => {
                let ctor = ts.path.segments.last().map(|s| s.ident.to_string()).unwrap_or_default();
                format!("{}({})", ctor, ts.elems.iter().map(|e| self.pat_text(e)).collect::<Vec<_>>().join(","))
            }
            Pat::Path(pp) => pp.path.segments.last().map(|s| s.ident.to_string()).unwrap_or_default(),
            Pat::Lit(l) => toks(&l.lit),
            p => toks(p),
        }
    }

    // ---------------------------------------------------------------- conditions
    /// evaluates a condition; every result path knows which way it went
    fn cond(&mut self, e: &Expr, p: Path) -> (Vec<(Path, bool)>, Out) {
        let mut ctl = Out::default();
        match e {
            Expr::Paren(x) => return self.cond(&x.expr, p),
            Expr::Unary(u) if matches!(u.op, syn::UnOp::Not(_)) => {
                let (v, c) = self.cond(&u.expr, p);
                return (v.into_iter().map(|(p, b)| (p, !b)).collect(), c);
            }
            Expr::Binary(b) if matches!(b.op, syn::BinOp::And(_)) || matches!(b.op, syn::BinOp::Or(_)) => {
                let is_and = matches!(b.op, syn::BinOp::And(_));
                let (l, mut c) = self.cond(&b.left, p);
                ctl.absorb_control(&mut c);
                let mut res = vec![];
                for (p, t) in l {
                    if t == is_and {
                        let (r, mut c2) = self.cond(&b.right, p);
                        ctl.absorb_control(&mut c2);
                        res.extend(r);
                    } else {
                        res.push((p, t));
                    }
                }
                return (res, ctl);
            }
            Expr::Let(l) => {
                let mut o = self.eval(&l.expr, p);
                ctl.absorb_control(&mut o);
                let mut res = vec![];
                let mut scrut = vec![];
                for (p, v) in o.normal {
                    scrut.extend(self.case_split(p, &v));
                }
                for (p, v) in scrut {
                    match self.pat_match(&l.pat, &v) {
                        Some(true) => {
                            let mut p = p;
                            self.bind(&l.pat, &v, &mut p.env);
                            res.push((p, true));
                        }
                        Some(false) => res.push((p, false)),
                        None => {
                            let txt = format!("{}~{}", v.text, self.pat_text(&l.pat));
                            let (mut t, f) = self.fork(&p, &txt, v.proto || v.text.starts_with("self"));
                            self.bind(&l.pat, &v, &mut t.env);
                            res.push((t, true));
                            res.push((f, false));
                        }
                    }
                }
                return (res, ctl);
            }
            _ => {}
        }
        let mut o = self.eval(e, p);
        ctl.absorb_control(&mut o);
        let mut res = vec![];
        for (p, v) in o.normal {
            match v.shape {
                Shape::Bool(b) => res.push((p, b)),
                _ => {
                    let (t, f) = self.fork(&p, &v.text, v.proto);
                    res.push((t, true));
                    res.push((f, false));
                }
            }
        }
        (res, ctl)
    }

    fn fork(&mut self, p: &Path, text: &str, labelled: bool) -> (Path, Path) {
        if let Some(inner) = negated(text) {
            let (t, f) = self.fork(p, &inner, labelled);
            return (f, t);
        }
        if labelled && self.mode == AMode::Protocol {
            (self.step(p, &format!("if[{}]=T", text)), self.step(p, &format!("if[{}]=F", text)))
        } else {
            (self.tau(p), self.tau(p))
        }
    }

    // ---------------------------------------------------------------- expressions
    fn eval_seq(&mut self, es: &[&Expr], p: Path, ctl: &mut Out) -> Vec<(Path, Vec<Val>)> {
        let mut cur: Vec<(Path, Vec<Val>)> = vec![(p, vec![])];
        for e in es {
            let mut next = vec![];
            for (p, vs) in cur {
                let mut o = self.eval(e, p);
                ctl.absorb_control(&mut o);
                for (p2, v) in o.normal {
                    let mut vs2 = vs.clone();
                    vs2.push(v);
                    next.push((p2, vs2));
                }
            }
            cur = next;
        }
        cur
    }

    fn ok(p: Path, v: Val) -> Out {
        Out { normal: vec![(p, v)], ..Default::default() }
    }

    fn eval(&mut self, e: &Expr, p: Path) -> Out {
        match e {
            Expr::Lit(l) => {
                let t = toks(&l.lit);
                let v = match t.as_str() {
                    "true" => Val::boolean(true),
                    "false" => Val::boolean(false),
                    _ => Val::pure(&t),
                };
                Self::ok(p, v)
            }
            Expr::Path(_) => {
                let full = path_text(e).unwrap_or_default();
                let v = if !full.contains("::") {
                    match p.env.get(&full) {
                        Some(v) => Self::recall_shape(&p.env, v.clone()),
                        None => match full.as_str() {
                            "self" | "this" => Val::pure("self"),
                            "None" => Val::ctor("None", vec![]),
                            _ => match const_value(&full) {
                                Some(v) => Val::pure(&v),
                                None => Val::pure(&full),
                            },
                        },
                    }
                } else {
                    let last = last_seg(e).unwrap_or_default();
                    match last.as_str() {
                        "Pending" | "None" => Val::ctor(&last, vec![]),
                        _ => Val::pure(&full),
                    }
                };
                Self::ok(p, v)
            }
            Expr::Paren(x) => self.eval(&x.expr, p),
            Expr::Group(x) => self.eval(&x.expr, p),
            Expr::Reference(x) => self.eval(&x.expr, p),
            Expr::Cast(x) => self.eval(&x.expr, p),
            Expr::Unary(u) => {
                let mut o = self.eval(&u.expr, p);
                if matches!(u.op, syn::UnOp::Not(_)) {
                    for (_, v) in o.normal.iter_mut() {
                        *v = match v.shape {
                            Shape::Bool(b) => Val::boolean(!b),
                            _ => Val { text: negate(&v.text), shape: Shape::Unknown, proto: v.proto },
                        };
                    }
                }
                o
            }
            Expr::Field(f) => {
                let mut o = self.eval(&f.base, p);
                let m = field_alias(&toks(&f.member));
                let mut res = Out::default();
                res.absorb_control(&mut o);
                for (q, v) in o.normal {
                    if self.mode == AMode::Lock && v.shape == Shape::Guard {
                        let mut q2 = self.cs(&q);
                        if !matches!(&*f.base, Expr::Path(_)) {
                            // the guard is a temporary: it ends with the expression
                            q2 = self.ev(&q2, "release");
                        }
                        res.normal.push((q2, Val::pure(&format!("<locked>.{}", m))));
                    } else {
                        let nv = Val { text: format!("{}.{}", v.text, m), shape: Shape::Unknown, proto: v.proto };
                        let nv = Self::recall_shape(&q.env, nv);
                        res.normal.push((q, nv));
                    }
                }
                res
            }
            Expr::Binary(b) => self.binary(b, p),
            Expr::Assign(a) => {
                let mut ctl = Out::default();
                let rs = self.eval_seq(&[&a.right, &a.left], p, &mut ctl);
                for (p, vs) in rs {
                    let lhs = &vs[1];
                    if self.mode == AMode::Protocol && lhs.text.starts_with("self") {
                        // a write to the signal's own memory (waker cell, slot pointer)
                        let lbl = format!("write[{}]", lhs.text);
                        let mut p2 = self.step(&p, &lbl);
                        let root: String = lhs.text.split(".Sync").next().unwrap_or(&lhs.text).to_string();
                        p2.env.retain(|k, _| !(k.starts_with("<shape:") && k.contains(&root)));
                        ctl.normal.push((p2, Val::unit()));
                    } else {
                        let mut p = p;
                        if self.mode == AMode::Lock && Self::has_guard(&vs[0]) {
                            // a guard assigned to an existing local (the previous one, if any, ends here)
                            if let Expr::Path(lp) = &*a.left {
                                if lp.path.segments.len() == 1 {
                                    let n = lp.path.segments[0].ident.to_string();
                                    if p.env.get(&n).map(Self::has_guard).unwrap_or(false) {
                                        p = self.ev(&p, "release");
                                    }
                                    p.env.insert(n, vs[0].clone());
                                }
                            }
                        }
                        ctl.normal.push((p, Val::unit()));
                    }
                }
                ctl
            }
            Expr::Block(b) => self.scoped_block(&b.block, p),
            Expr::Unsafe(b) => self.scoped_block(&b.block, p),
            Expr::If(i) => {
                let (cs, mut ctl) = self.cond(&i.cond, p.clone());
                let outer: BTreeSet<String> = p.env.keys().cloned().collect();
                for (cp, t) in cs {
                    if t {
                        let mut o = self.block(&i.then_branch, cp);
                        ctl.absorb_control(&mut o);
                        for (q, v) in o.normal {
                            let q = self.leave_v(q, &outer, Self::has_guard(&v));
                            ctl.normal.push((q, v));
                        }
                    } else {
                        let cp = self.leave(cp, &outer);
                        match &i.else_branch {
                            Some((_, eb)) => {
                                let mut o = self.eval(eb, cp);
                                ctl.absorb_control(&mut o);
                                ctl.normal.append(&mut o.normal);
                            }
                            None => ctl.normal.push((cp, Val::unit())),
                        }
                    }
                }
                ctl.normal = self.join(std::mem::take(&mut ctl.normal));
                ctl
            }
            Expr::Match(m) => {
                let mut o = self.eval(&m.expr, p.clone());
                let mut ctl = Out::default();
                ctl.absorb_control(&mut o);
                let outer: BTreeSet<String> = p.env.keys().cloned().collect();
                let mut scrut = vec![];
                for (sp, v) in o.normal {
                    scrut.extend(self.case_split(sp, &v));
                }
                for (sp, v) in scrut {
                    let mut decided = false;
                    for arm in &m.arms {
                        if is_cfg_verif(&arm.attrs) {
                            continue;
                        }
                        match self.pat_match(&arm.pat, &v) {
                            Some(false) => continue,
                            Some(true) => {
                                let mut q = sp.clone();
                                self.bind(&arm.pat, &v, &mut q.env);
                                let mut ao = self.eval(&arm.body, q);
                                ctl.absorb_control(&mut ao);
                                for (r, rv) in ao.normal {
                                    let r = self.leave_v(r, &outer, Self::has_guard(&rv));
                                    ctl.normal.push((r, rv));
                                }
                                decided = true;
                                break;
                            }
                            None => {
                                let txt = format!("{}~{}", v.text, self.pat_text(&arm.pat));
                                let mut q = if self.mode == AMode::Protocol && (v.proto || v.text.starts_with("self")) {
                                    self.step(&sp, &format!("match[{}]", txt))
                                } else {
                                    self.tau(&sp)
                                };
                                self.bind(&arm.pat, &v, &mut q.env);
                                let mut ao = self.eval(&arm.body, q);
                                ctl.absorb_control(&mut ao);
                                for (r, rv) in ao.normal {
                                    let r = self.leave_v(r, &outer, Self::has_guard(&rv));
                                    ctl.normal.push((r, rv));
                                }
                            }
                        }
                    }
                    let _ = decided;
                }
                ctl.normal = self.join(std::mem::take(&mut ctl.normal));
                ctl
            }
            Expr::Loop(l) => {
                let h = self.node();
                self.edge(p.node, None, h);
                let hp = Path { node: h, env: p.env.clone() };
                let mut o = self.block(&l.body, hp);
                let mut res = Out::default();
                let outer: BTreeSet<String> = p.env.keys().cloned().collect();
                let back: Vec<Path> = o.normal.drain(..).map(|x| x.0).chain(o.cont.drain(..)).collect();
                for q in back {
                    let q = self.leave(q, &outer);
                    self.edge(q.node, None, h);
                }
                let brks: Vec<Path> = o.brk.drain(..).collect();
                for q in brks {
                    let q = self.leave(q, &outer);
                    res.normal.push((Path { node: q.node, env: p.env.clone() }, Val::unit()));
                }
                res.ret.append(&mut o.ret);
                res.normal = self.join(std::mem::take(&mut res.normal));
                res
            }
            Expr::While(w) => {
                let h = self.node();
                self.edge(p.node, None, h);
                let hp = Path { node: h, env: p.env.clone() };
                let (cs, mut ctl) = self.cond(&w.cond, hp);
                let mut res = Out::default();
                res.ret.append(&mut ctl.ret);
                for (cp, t) in cs {
                    if t {
                        let mut o = self.block(&w.body, cp);
                        for (q, _) in o.normal.drain(..) {
                            self.edge(q.node, None, h);
                        }
                        for q in o.cont.drain(..) {
                            self.edge(q.node, None, h);
                        }
                        for q in o.brk.drain(..) {
                            res.normal.push((Path { node: q.node, env: p.env.clone() }, Val::unit()));
                        }
                        res.ret.append(&mut o.ret);
                    } else {
                        res.normal.push((Path { node: cp.node, env: p.env.clone() }, Val::unit()));
                    }
                }
                res.normal = self.join(std::mem::take(&mut res.normal));
                res
            }
            Expr::ForLoop(f) => {
                // the number of iterations is not part of the shape: any number, including none
                let mut o = self.eval(&f.expr, p.clone());
                let mut res = Out::default();
                res.absorb_control(&mut o);
                for (ip, _) in o.normal {
                    let h = self.node();
                    self.edge(ip.node, None, h);
                    let b = self.node();
                    self.edge(h, None, b);
                    let x = self.node();
                    self.edge(h, None, x);
                    let mut env = p.env.clone();
                    self.bind(&f.pat, &Val::pure("<counter>"), &mut env);
                    let mut bo = self.block(&f.body, Path { node: b, env });
                    for (q, _) in bo.normal.drain(..) {
                        self.edge(q.node, None, h);
                    }
                    for q in bo.cont.drain(..) {
                        self.edge(q.node, None, h);
                    }
                    for q in bo.brk.drain(..) {
                        self.edge(q.node, None, x);
                    }
                    res.ret.append(&mut bo.ret);
                    res.normal.push((Path { node: x, env: p.env.clone() }, Val::unit()));
                }
                res.normal = self.join(std::mem::take(&mut res.normal));
                res
            }
            Expr::Return(r) => match &r.expr {
                Some(x) => {
                    let mut o = self.eval(x, p);
                    let mut res = Out::default();
                    res.absorb_control(&mut o);
                    for (q, v) in o.normal {
                        let q = self.release_all(q);
                        res.ret.push((q.node, v));
                    }
                    res
                }
                None => {
                    let q = self.release_all(p);
                    Out { ret: vec![(q.node, Val::unit())], ..Default::default() }
                }
            },
            Expr::Break(_) => Out { brk: vec![p], ..Default::default() },
            Expr::Continue(_) => Out { cont: vec![p], ..Default::default() },
            Expr::Macro(m) => self.mac(&m.mac, p),
            Expr::Closure(c) => {
                let params: Vec<String> = c.inputs.iter().map(|x| toks(x)).collect();
                self.closures.push((
                    params,
                    (*c.body).clone(),
                    p.env.clone(),
                    self.cur_ty.last().cloned().unwrap_or_default(),
                    self.cur_file.last().cloned().unwrap_or_default(),
                ));
                let id = self.closures.len() - 1;
                Self::ok(p, Val { text: "<closure>".into(), shape: Shape::Closure(id), proto: false })
            }
            Expr::MethodCall(m) => self.method(m, p),
            Expr::Call(c) => self.call(c, p),
            Expr::Range(r) => {
                let mut ctl = Out::default();
                let mut es: Vec<&Expr> = vec![];
                if let Some(x) = &r.start {
                    es.push(x);
                }
                if let Some(x) = &r.end {
                    es.push(x);
                }
                for (q, _) in self.eval_seq(&es, p, &mut ctl) {
                    ctl.normal.push((q, Val::pure("<range>")));
                }
                ctl
            }
            Expr::Struct(s) => {
                let mut ctl = Out::default();
                let es: Vec<&Expr> = s.fields.iter().map(|f| &f.expr).collect();
                for (q, _) in self.eval_seq(&es, p, &mut ctl) {
                    ctl.normal.push((q, Val::pure("<struct>")));
                }
                ctl
            }
            Expr::Tuple(t) => {
                let mut ctl = Out::default();
                let es: Vec<&Expr> = t.elems.iter().collect();
                for (q, vs) in self.eval_seq(&es, p, &mut ctl) {
                    let pr = vs.iter().any(|v| v.proto);
                    let tx = format!("({})", vs.iter().map(|v| v.text.clone()).collect::<Vec<_>>().join(", "));
                    ctl.normal.push((q, Val { text: tx, shape: Shape::Unknown, proto: pr }));
                }
                ctl
            }
            Expr::Infer(_) => Self::ok(p, Val::pure("_")),
            other => {
                let t = toks(other);
                self.unsupported.push(t.clone());
                let q = self.step(&p, &format!("unsupported[{}]", t));
                Self::ok(q, Val::pure("<unsupported>"))
            }
        }
    }

    fn scoped_block(&mut self, b: &Block, p: Path) -> Out {
        let outer: BTreeSet<String> = p.env.keys().cloned().collect();
        let mut o = self.block(b, p);
        let exits: Vec<(Path, Val)> = o.normal.drain(..).collect();
        for (q, v) in exits {
            let q = self.leave_v(q, &outer, Self::has_guard(&v));
            o.normal.push((q, v));
        }
        o.normal = self.join(std::mem::take(&mut o.normal));
        o
    }

    fn binary(&mut self, b: &syn::ExprBinary, p: Path) -> Out {
        use syn::BinOp::*;
        match b.op {
            And(_) | Or(_) => {
                // as a value: evaluate as a condition and give back the booleans
                let e = Expr::Binary(b.clone());
                let (cs, mut ctl) = self.cond(&e, p);
                for (q, t) in cs {
                    ctl.normal.push((q, Val::boolean(t)));
                }
                ctl.normal = self.join(std::mem::take(&mut ctl.normal));
                ctl
            }
            AddAssign(_) | SubAssign(_) | MulAssign(_) | DivAssign(_) | RemAssign(_) | BitXorAssign(_) | BitAndAssign(_)
            | BitOrAssign(_) | ShlAssign(_) | ShrAssign(_) => {
                let mut ctl = Out::default();
                let es: Vec<&Expr> = if self.mode == AMode::Lock { vec![&*b.right, &*b.left] } else { vec![&*b.right] };
                for (q, _) in self.eval_seq(&es, p, &mut ctl) {
                    ctl.normal.push((q, Val::unit()));
                }
                ctl
            }
            _ => {
                let mut ctl = Out::default();
                let op = toks(&b.op);
                for (q, vs) in self.eval_seq(&[&b.left, &b.right], p, &mut ctl) {
                    let (l, r) = (&vs[0], &vs[1]);
                    // comparisons in one canonical form: only `<` and `==` (operands of `==` sorted), negated when needed
                    let text = match op.as_str() {
                        "<" => format!("{} < {}", l.text, r.text),
                        ">" => format!("{} < {}", r.text, l.text),
                        ">=" => negate(&format!("{} < {}", l.text, r.text)),
                        "<=" => negate(&format!("{} < {}", r.text, l.text)),
                        "==" | "!=" => {
                            let (a, b2) = if l.text <= r.text { (&l.text, &r.text) } else { (&r.text, &l.text) };
                            let t = format!("{} == {}", a, b2);
                            if op == "==" {
                                t
                            } else {
                                negate(&t)
                            }
                        }
                        _ => format!("{} {} {}", l.text, op, r.text),
                    };
                    let v = Val { text, shape: Shape::Unknown, proto: l.proto || r.proto };
                    ctl.normal.push((q, v));
                }
                ctl
            }
        }
    }

    fn site_of(&self, m: &syn::ExprMethodCall, field: &str) -> Site {
        let mut ords = vec![];
        let mut operands = vec![];
        for a in &m.args {
            match ordering_of(a) {
                Some(o) => ords.push(o),
                None => operands.push(toks(a)),
            }
        }
        Site {
            field: field.to_string(),
            kind: m.method.to_string(),
            operands,
            ord: ords.first().cloned().unwrap_or_else(|| "Relaxed".into()),
            ord2: ords.get(1).cloned(),
            file: self.cur_file.last().cloned().unwrap_or_default(),
            line: m.method.span().start().line,
        }
    }

    fn method(&mut self, m: &syn::ExprMethodCall, p: Path) -> Out {
        let name = m.method.to_string();
        let mut ctl = Out::default();
        let mut es: Vec<&Expr> = vec![&m.receiver];
        let non_ord: Vec<&Expr> = m.args.iter().filter(|a| ordering_of(a).is_none()).collect();
        es.extend(non_ord.iter().cloned());
        let rs = self.eval_seq(&es, p, &mut ctl);
        for (q, vs) in rs {
            let rv = &vs[0];
            let args = &vs[1..];
            if self.mode == AMode::Lock {
                let moved = Self::moved_guards(&m.args, &q.env);
                let mut q = q.clone();
                if let Some(blocking) = self.prims.get(&name).cloned() {
                    // the acquisition primitive written as a method (of a trait on the mutex, of the handle)
                    let g = Val { text: "<guard>".into(), shape: Shape::Guard, proto: false };
                    if blocking {
                        let q2 = self.ev(&q, "acquire");
                        ctl.normal.push((q2, g));
                    } else {
                        let q1 = self.ev(&q, "try_acquire=some");
                        ctl.normal.push((q1, Val::ctor("Some", vec![g])));
                        let q2 = self.ev(&q, "try_acquire=none");
                        ctl.normal.push((q2, Val::ctor("None", vec![])));
                    }
                    continue;
                }
                if rv.shape == Shape::Guard {
                    // a use of the protected data through the guard; a guard that is a temporary ends with it
                    q = self.cs(&q);
                    if !matches!(&*m.receiver, Expr::Path(_)) {
                        q = self.ev(&q, "release");
                    }
                    ctl.normal.push((q, Val::pure(&format!("<locked>.{}()", name))));
                    continue;
                }
                if rv.text.starts_with("<locked>") {
                    ctl.normal.push((q, Val::pure(&format!("{}.{}()", rv.text, name))));
                    continue;
                }
                if matches!(name.as_str(), "wait" | "wait_timeout" | "async_blocking_wait") && !rv.text.starts_with("self.internal") {
                    let q2 = self.ev(&q, "wait");
                    ctl.normal.push((q2, Val::proto("wait")));
                    continue;
                }
                match (name.as_str(), &rv.shape) {
                    ("is_some", Shape::Ctor(c, _)) => {
                        ctl.normal.push((q, Val::boolean(c == "Some")));
                        continue;
                    }
                    ("is_none", Shape::Ctor(c, _)) => {
                        ctl.normal.push((q, Val::boolean(c == "None")));
                        continue;
                    }
                    ("unwrap" | "expect", Shape::Ctor(c, a)) if (c == "Some" || c == "Ok") && a.len() == 1 => {
                        ctl.normal.push((q, a[0].clone()));
                        continue;
                    }
                    _ => {}
                }
                let on_self = rv.text == "self" || rv.text == "this" || rv.text.starts_with("self.get_unchecked_mut")
                    || rv.text.starts_with("self.as_mut") || rv.text.starts_with("self.get_mut");
                if on_self {
                    if let Some(f) = self.find_fn(None, &name, true) {
                        for g in &moved {
                            q.env.remove(g);
                        }
                        let mut o = self.inline(f, args.to_vec(), q.clone());
                        ctl.absorb_control(&mut o);
                        ctl.normal.append(&mut o.normal);
                        continue;
                    }
                }
                let pr = rv.proto || args.iter().any(|a| a.proto);
                ctl.normal.push((q, Val { text: format!("{}.{}(..)", rv.text, name), shape: Shape::Unknown, proto: pr }));
                continue;
            }
            let field = rv.text.rsplit('.').next().unwrap_or("").to_string();
            let on_protocol_word = rv.text.starts_with("self.") && (field == "state" || field == "locked");
            if on_protocol_word && ATOMIC_METHODS.contains(&name.as_str()) {
                let site = self.site_of(m, &field);
                let argt = args.iter().map(|a| a.text.clone()).collect::<Vec<_>>().join(",");
                if name.starts_with("compare_exchange") {
                    let stem = format!("{}.cas({})", field, argt);
                    let old = Val::proto(&format!("{}.cas.old", field));
                    let n1 = self.node();
                    let e1 = self.edge(q.node, Some(format!("{}=ok", stem)), n1);
                    let n2 = self.node();
                    let e2 = self.edge(q.node, Some(format!("{}=err", stem)), n2);
                    self.g.sites.insert(e1, site.clone());
                    self.g.sites.insert(e2, site);
                    ctl.normal.push((Path { node: n1, env: q.env.clone() }, Val::ctor("Ok", vec![old.clone()])));
                    ctl.normal.push((Path { node: n2, env: q.env.clone() }, Val::ctor("Err", vec![old])));
                } else {
                    let lbl = if argt.is_empty() { format!("{}.{}", field, name) } else { format!("{}.{}({})", field, name, argt) };
                    let n1 = self.node();
                    let e1 = self.edge(q.node, Some(lbl), n1);
                    self.g.sites.insert(e1, site);
                    let v = if name == "store" { Val::unit() } else { Val::proto(&format!("{}.{}", field, name)) };
                    ctl.normal.push((Path { node: n1, env: q.env.clone() }, v));
                }
                continue;
            }
            // shapes
            match (name.as_str(), &rv.shape) {
                ("is_ok", Shape::Ctor(c, _)) => {
                    ctl.normal.push((q, Val::boolean(c == "Ok")));
                    continue;
                }
                ("is_err", Shape::Ctor(c, _)) => {
                    ctl.normal.push((q, Val::boolean(c == "Err")));
                    continue;
                }
                ("is_some", Shape::Ctor(c, _)) => {
                    ctl.normal.push((q, Val::boolean(c == "Some")));
                    continue;
                }
                ("is_none", Shape::Ctor(c, _)) => {
                    ctl.normal.push((q, Val::boolean(c == "None")));
                    continue;
                }
                ("is_ready", Shape::Ctor(c, _)) => {
                    ctl.normal.push((q, Val::boolean(c == "Ready")));
                    continue;
                }
                ("is_pending", Shape::Ctor(c, _)) => {
                    ctl.normal.push((q, Val::boolean(c == "Pending")));
                    continue;
                }
                ("unwrap" | "expect", Shape::Ctor(c, a)) if (c == "Some" || c == "Ok") && a.len() == 1 => {
                    ctl.normal.push((q, a[0].clone()));
                    continue;
                }
                _ => {}
            }
            let origin = |v: &Val| -> &'static str {
                if v.text.starts_with("copy(") {
                    "copy"
                } else if v.text.starts_with("self") {
                    "sig"
                } else {
                    "other"
                }
            };
            match name.as_str() {
                "unpark" | "wake" | "wake_by_ref" => {
                    let lbl = format!("{}[{}]", if name == "unpark" { "unpark" } else { "wake" }, origin(rv));
                    let q2 = self.step(&q, &lbl);
                    ctl.normal.push((q2, Val::unit()));
                    continue;
                }
                "will_wake" => {
                    let q2 = self.step(&q, &format!("will_wake[{}]", origin(rv)));
                    ctl.normal.push((q2, Val::proto("will_wake")));
                    continue;
                }
                "clone" if rv.text.starts_with("self") => {
                    // a copy of something stored in the signal (the thread handle, the waker)
                    let q2 = self.step(&q, &format!("read[{}]", rv.text));
                    ctl.normal.push((q2, Val::pure(&format!("copy({})", rv.text))));
                    continue;
                }
                "read" | "write" | "copy" if rv.text.starts_with("self") && field == "ptr" => {
                    let q2 = self.step(&q, &format!("ptr.{}", name));
                    ctl.normal.push((q2, Val::proto(&format!("ptr.{}", name))));
                    continue;
                }
                _ => {}
            }
            // a method of these files, on self
            if rv.text == "self" {
                if let Some(f) = self.find_fn(None, &name, true) {
                    let mut o = self.inline(f, args.to_vec(), q.clone());
                    ctl.absorb_control(&mut o);
                    ctl.normal.append(&mut o.normal);
                    continue;
                }
            }
            // a method of a type of these files, on one of the signal's own fields (e.g. a helper of the waker enum)
            if rv.text.starts_with("self.") {
                let last = rv.text.rsplit('.').next().unwrap_or("").to_string();
                let ty = FIELD_ENUM.with(|m| m.borrow().get(&last).cloned());
                if let Some(t) = ty {
                    let target = self.fns.iter().find(|f| f.name == name && f.has_self && f.ty == t);
                    if let Some(f) = target {
                        self.self_val.push(rv.clone());
                        let mut o = self.inline(f, args.to_vec(), q.clone());
                        self.self_val.pop();
                        ctl.absorb_control(&mut o);
                        ctl.normal.append(&mut o.normal);
                        continue;
                    }
                }
            }
            let pr = rv.proto || args.iter().any(|a| a.proto);
            let tx = if args.is_empty() {
                format!("{}.{}()", rv.text, name)
            } else {
                format!("{}.{}({})", rv.text, name, args.iter().map(|a| a.text.clone()).collect::<Vec<_>>().join(", "))
            };
            ctl.normal.push((q, Val { text: tx, shape: Shape::Unknown, proto: pr }));
        }
        ctl
    }

    fn call(&mut self, c: &syn::ExprCall, p: Path) -> Out {
        let mut ctl = Out::default();
        let fname = last_seg(&c.func).unwrap_or_default();
        let full = path_text(&c.func).unwrap_or_else(|| toks(&c.func));
        // a call of a closure held in a local
        if !full.contains("::") {
            if let Some(Val { shape: Shape::Closure(id), .. }) = p.env.get(&full).cloned() {
                let (params, body, cenv, cty, cfile) = self.closures[id].clone();
                let es: Vec<&Expr> = c.args.iter().collect();
                for (q, vs) in self.eval_seq(&es, p.clone(), &mut ctl) {
                    let mut env = cenv.clone();
                    for (k, v) in params.iter().zip(vs.iter()) {
                        env.insert(k.clone(), v.clone());
                    }
                    self.cur_ty.push(cty.clone());
                    self.cur_file.push(cfile.clone());
                    let mut o = self.eval(&body, Path { node: q.node, env });
                    self.cur_ty.pop();
                    self.cur_file.pop();
                    for (r, v) in o.normal.drain(..) {
                        ctl.normal.push((Path { node: r.node, env: q.env.clone() }, v));
                    }
                    for (n, v) in o.ret.drain(..) {
                        ctl.normal.push((Path { node: n, env: q.env.clone() }, v));
                    }
                }
                return ctl;
            }
            if let Some(v) = p.env.get(&full).cloned() {
                // an unknown callable (a closure parameter of an entry function)
                let q = self.step(&p, &format!("call[{}]", v.text));
                ctl.normal.push((q, Val::proto(&format!("call({})", v.text))));
                return ctl;
            }
        }
        let es: Vec<&Expr> = c.args.iter().filter(|a| ordering_of(a).is_none()).collect();
        let rs = self.eval_seq(&es, p, &mut ctl);
        for (q, vs) in rs {
            if self.mode == AMode::Lock {
                if let Some(blocking) = self.prims.get(&fname).cloned() {
                    if blocking {
                        let q2 = self.ev(&q, "acquire");
                        ctl.normal.push((q2, Val { text: "<guard>".into(), shape: Shape::Guard, proto: false }));
                    } else {
                        let g = Val { text: "<guard>".into(), shape: Shape::Guard, proto: false };
                        let q1 = self.ev(&q, "try_acquire=some");
                        ctl.normal.push((q1, Val::ctor("Some", vec![g])));
                        let q2 = self.ev(&q, "try_acquire=none");
                        ctl.normal.push((q2, Val::ctor("None", vec![])));
                    }
                    continue;
                }
                let moved = Self::moved_guards(&c.args, &q.env);
                if fname == "drop" && !full.contains("::") {
                    let mut q2 = q.clone();
                    if vs.iter().any(Self::has_guard) {
                        q2 = self.ev(&q2, "release");
                        for g in &moved {
                            q2.env.remove(g);
                        }
                    }
                    ctl.normal.push((q2, Val::unit()));
                    continue;
                }
                match fname.as_str() {
                    "Some" | "Ok" | "Err" | "Ready" => {
                        ctl.normal.push((q, Val::ctor(&fname, vs.clone())));
                        continue;
                    }
                    _ => {}
                }
                let segs: Vec<&str> = full.split("::").collect();
                let ty = if segs.len() >= 2 {
                    let t = segs[segs.len() - 2];
                    if t == "Self" {
                        self.cur_ty.last().cloned()
                    } else if t.chars().next().map(|c| c.is_uppercase()).unwrap_or(false) {
                        Some(t.to_string())
                    } else {
                        None
                    }
                } else {
                    None
                };
                let target = match &ty {
                    Some(t) => self.find_fn(Some(t), &fname, false),
                    None => self.fns.iter().find(|f| f.name == fname && f.ty.is_empty()),
                };
                if let Some(f) = target {
                    let mut q2 = q.clone();
                    for g in &moved {
                        q2.env.remove(g);
                    }
                    let mut args = vs.clone();
                    if f.has_self && !args.is_empty() {
                        args.remove(0);
                    }
                    let mut o = self.inline(f, args, q2);
                    ctl.absorb_control(&mut o);
                    ctl.normal.append(&mut o.normal);
                    continue;
                }
                let pr = vs.iter().any(|a| a.proto);
                ctl.normal.push((q, Val { text: format!("{}(..)", full), shape: Shape::Unknown, proto: pr }));
                continue;
            }
            match fname.as_str() {
                "fence" | "compiler_fence" => {
                    let n1 = self.node();
                    let e1 = self.edge(q.node, Some(fname.clone()), n1);
                    let mut ords = vec![];
                    for a in &c.args {
                        if let Some(o) = ordering_of(a) {
                            ords.push(o);
                        }
                    }
                    self.g.sites.insert(
                        e1,
                        Site {
                            field: String::new(),
                            kind: fname.clone(),
                            operands: vec![],
                            ord: ords.first().cloned().unwrap_or_else(|| "Relaxed".into()),
                            ord2: None,
                            file: self.cur_file.last().cloned().unwrap_or_default(),
                            line: c.func.span().start().line,
                        },
                    );
                    ctl.normal.push((Path { node: n1, env: q.env }, Val::unit()));
                    continue;
                }
                "park" | "park_timeout" => {
                    let q2 = self.step(&q, "park");
                    ctl.normal.push((q2, Val::unit()));
                    continue;
                }
                "Some" | "Ok" | "Err" | "Ready" => {
                    ctl.normal.push((q, Val::ctor(&fname, vs.clone())));
                    continue;
                }
                _ => {}
            }
            if full.ends_with("Instant::now") {
                let q2 = self.step(&q, "now");
                ctl.normal.push((q2, Val::proto("now")));
                continue;
            }
            if full.ends_with("thread::yield_now") || full.ends_with("thread::sleep") || full.ends_with("hint::spin_loop") {
                let q2 = self.step(&q, "pause");
                ctl.normal.push((q2, Val::unit()));
                continue;
            }
            // functions of these files
            let segs: Vec<&str> = full.split("::").collect();
            let ty = if segs.len() >= 2 {
                let t = segs[segs.len() - 2];
                if t == "Self" {
                    self.cur_ty.last().cloned()
                } else if t.chars().next().map(|c| c.is_uppercase()).unwrap_or(false) {
                    Some(t.to_string())
                } else {
                    None
                }
            } else {
                None
            };
            let target = match &ty {
                Some(t) => self.find_fn(Some(t), &fname, false),
                None => self.fns.iter().find(|f| f.name == fname && f.ty.is_empty()),
            };
            if let Some(f) = target {
                if f.file == "backoff" && !self.calls_param(f) {
                    if f.name == "get_parallelism" {
                        ctl.normal.push((q, Val::proto("parallelism")));
                    } else {
                        let q2 = self.step(&q, "pause");
                        ctl.normal.push((q2, Val::unit()));
                    }
                    continue;
                }
                let mut args = vs.clone();
                // `Signal::wake(this, ..)`: an explicit receiver
                if f.has_self && !args.is_empty() {
                    args.remove(0);
                }
                let mut o = self.inline(f, args, q.clone());
                ctl.absorb_control(&mut o);
                ctl.normal.append(&mut o.normal);
                continue;
            }
            let pr = vs.iter().any(|a| a.proto);
            let tx = format!("{}({})", full, vs.iter().map(|a| a.text.clone()).collect::<Vec<_>>().join(", "));
            ctl.normal.push((q, Val { text: tx, shape: Shape::Unknown, proto: pr }));
        }
        ctl
    }

    /// does the function call one of its own parameters (a condition closure)?
    fn calls_param(&self, f: &FnDef) -> bool {
        struct V<'b> {
            params: &'b [String],
            hit: bool,
        }
        impl<'b, 'ast> syn::visit::Visit<'ast> for V<'b> {
            fn visit_expr_call(&mut self, c: &'ast syn::ExprCall) {
                if let Some(t) = path_text(&c.func) {
                    if self.params.contains(&t) {
                        self.hit = true;
                    }
                }
                syn::visit::visit_expr_call(self, c);
            }
            fn visit_expr_path(&mut self, p: &'ast syn::ExprPath) {
                // a parameter passed on (to another helper) counts too
                if p.path.segments.len() == 1 && self.params.contains(&p.path.segments[0].ident.to_string()) {
                    self.hit = true;
                }
            }
        }
        let mut v = V { params: &f.params, hit: false };
        syn::visit::Visit::visit_block(&mut v, &f.block);
        v.hit
    }

    fn inline(&mut self, f: &'a FnDef, args: Vec<Val>, p: Path) -> Out {
        if self.stack.contains(&f.qname) || self.stack.len() > 12 {
            let q = self.step(&p, &format!("call[{}]", f.name));
            return Self::ok(q, Val::pure("<recursion>"));
        }
        self.stack.push(f.qname.clone());
        self.cur_ty.push(f.ty.clone());
        self.cur_file.push(f.file.clone());
        let mut env = Env::new();
        for (k, v) in f.params.iter().zip(args.into_iter()) {
            env.insert(k.clone(), v);
        }
        if let Some(sv) = self.self_val.last().cloned() {
            if f.has_self && sv.text != "self" {
                env.insert("self".into(), Self::recall_shape(&p.env, sv));
            }
        }
        // what is known about the shape of the signal's fields stays known in the callee
        for (k, v) in p.env.iter() {
            if k.starts_with("<shape:") {
                env.insert(k.clone(), v.clone());
            }
        }
        let saved_self = std::mem::take(&mut self.self_val);
        let mut o = self.block(&f.block, Path { node: p.node, env });
        self.self_val = saved_self;
        self.stack.pop();
        self.cur_ty.pop();
        self.cur_file.pop();
        let mut res = Out::default();
        let exits: Vec<(Path, Val)> = o.normal.drain(..).collect();
        for (q, v) in exits {
            // a guard returned by the callee stays with the value; the others end with the callee's frame
            let q = if Self::has_guard(&v) { q } else { self.release_all(q) };
            let mut env = p.env.clone();
            for (k, sv) in q.env.iter() {
                if k.starts_with("<shape:") {
                    env.insert(k.clone(), sv.clone());
                }
            }
            if let Some(l) = q.env.get("<last>") {
                env.insert("<last>".into(), l.clone());
            } else {
                env.remove("<last>");
            }
            res.normal.push((Path { node: q.node, env }, v));
        }
        for (n, v) in o.ret.drain(..) {
            let mut env = p.env.clone();
            env.remove("<last>");
            res.normal.push((Path { node: n, env }, v));
        }
        res.normal = self.join(std::mem::take(&mut res.normal));
        res
    }
}

// ------------------------------------------------------------------ determinise, minimise, print

pub struct Canon {
    pub lines: Vec<String>,
    /// roles: (index, label stem, sites)
    pub roles: Vec<(usize, String, Vec<Site>)>,
    pub has_protocol_event: bool,
    pub unsupported: Vec<String>,
}

fn stem_of(l: &str) -> String {
    l.trim_end_matches("=ok").trim_end_matches("=err").to_string()
}

fn canon(g: &Graph, start: usize) -> (Vec<String>, Vec<(usize, String, Vec<Site>)>) {
    // epsilon closure
    let mut eps: HashMap<usize, Vec<usize>> = HashMap::new();
    let mut lab: HashMap<usize, Vec<(String, usize, usize)>> = HashMap::new();
    for (i, (a, l, b)) in g.edges.iter().enumerate() {
        match l {
            None => eps.entry(*a).or_default().push(*b),
            Some(s) => lab.entry(*a).or_default().push((s.clone(), *b, i)),
        }
    }
    let closure = |s: &BTreeSet<usize>| -> BTreeSet<usize> {
        let mut out = s.clone();
        let mut todo: Vec<usize> = s.iter().cloned().collect();
        while let Some(x) = todo.pop() {
            if let Some(v) = eps.get(&x) {
                for y in v {
                    if out.insert(*y) {
                        todo.push(*y);
                    }
                }
            }
        }
        out
    };
    // subset construction
    let mut ids: BTreeMap<BTreeSet<usize>, usize> = BTreeMap::new();
    let mut sets: Vec<BTreeSet<usize>> = vec![];
    let mut trans: Vec<BTreeMap<String, (usize, BTreeSet<usize>)>> = vec![];
    let s0 = closure(&[start].into_iter().collect());
    ids.insert(s0.clone(), 0);
    sets.push(s0);
    trans.push(BTreeMap::new());
    let mut i = 0;
    while i < sets.len() {
        let cur = sets[i].clone();
        let mut by: BTreeMap<String, (BTreeSet<usize>, BTreeSet<usize>)> = BTreeMap::new();
        for n in &cur {
            if let Some(v) = lab.get(n) {
                for (l, b, ei) in v {
                    let e = by.entry(l.clone()).or_default();
                    e.0.insert(*b);
                    e.1.insert(*ei);
                }
            }
        }
        for (l, (tg, es)) in by {
            let c = closure(&tg);
            let id = match ids.get(&c) {
                Some(x) => *x,
                None => {
                    ids.insert(c.clone(), sets.len());
                    sets.push(c);
                    trans.push(BTreeMap::new());
                    sets.len() - 1
                }
            };
            trans[i].insert(l, (id, es));
        }
        i += 1;
    }
    // Moore minimisation
    let n = sets.len();
    let mut block = vec![0usize; n];
    loop {
        let mut sig: BTreeMap<(usize, Vec<(String, usize)>), usize> = BTreeMap::new();
        let mut nb = vec![0usize; n];
        for s in 0..n {
            let k = (block[s], trans[s].iter().map(|(l, (t, _))| (l.clone(), block[*t])).collect::<Vec<_>>());
            let len = sig.len();
            nb[s] = *sig.entry(k).or_insert(len);
        }
        if nb == block {
            break;
        }
        block = nb;
    }
    // quotient + canonical numbering (BFS, labels sorted)
    let nblocks = block.iter().max().map(|x| x + 1).unwrap_or(0);
    let mut btrans: Vec<BTreeMap<String, (usize, BTreeSet<usize>)>> = vec![BTreeMap::new(); nblocks];
    for s in 0..n {
        for (l, (t, es)) in &trans[s] {
            let e = btrans[block[s]].entry(l.clone()).or_insert((block[*t], BTreeSet::new()));
            e.1.extend(es.iter().cloned());
        }
    }
    let mut num: HashMap<usize, usize> = HashMap::new();
    let mut order = vec![block[0]];
    num.insert(block[0], 0);
    let mut qi = 0;
    while qi < order.len() {
        let b = order[qi];
        for (_, (t, _)) in &btrans[b] {
            if !num.contains_key(t) {
                num.insert(*t, order.len());
                order.push(*t);
            }
        }
        qi += 1;
    }
    let mut lines = vec![];
    let mut roles: Vec<(usize, String, Vec<Site>)> = vec![];
    for b in &order {
        let mut stems_here: BTreeMap<String, Vec<Site>> = BTreeMap::new();
        for (l, (t, es)) in &btrans[*b] {
            lines.push(format!("s{} -- {} --> s{}", num[b], l, num[t]));
            let ss: Vec<Site> = es.iter().filter_map(|e| g.sites.get(e).cloned()).collect();
            if !ss.is_empty() {
                stems_here.entry(stem_of(l)).or_default().extend(ss);
            }
        }
        for (st, mut ss) in stems_here {
            ss.sort_by(|a, b| (a.file.clone(), a.line).cmp(&(b.file.clone(), b.line)));
            ss.dedup_by(|a, b| a.file == b.file && a.line == b.line && a.kind == b.kind);
            let idx = roles.len();
            roles.push((idx, format!("s{}:{}", num[b], st), ss));
        }
    }
    (lines, roles)
}

pub fn meet(a: &str, b: &str) -> String {
    let bits = |o: &str| -> (bool, bool, bool) {
        match o {
            "Acquire" => (true, false, false),
            "Release" => (false, true, false),
            "AcqRel" => (true, true, false),
            "SeqCst" => (true, true, true),
            _ => (false, false, false),
        }
    };
    let (a1, a2, a3) = bits(a);
    let (b1, b2, b3) = bits(b);
    match (a1 && b1, a2 && b2, a3 && b3) {
        (true, true, true) => "SeqCst",
        (true, true, false) => "AcqRel",
        (true, false, _) => "Acquire",
        (false, true, _) => "Release",
        _ => "Relaxed",
    }
    .to_string()
}

/// the canonical automaton of one entry function
/// the functions that take the channel lock directly: a body that calls `.lock()` (blocking) or `.try_lock()`
pub fn lock_prims(fns: &[FnDef]) -> BTreeMap<String, bool> {
    let mut m = BTreeMap::new();
    for f in fns {
        if !f.ret.contains("MutexGuard") {
            continue;
        }
        let t = toks(&f.block);
        if t.contains(". try_lock ()") {
            m.insert(f.name.clone(), false);
        } else if t.contains(". lock ()") {
            m.insert(f.name.clone(), true);
        }
    }
    m
}

pub fn automaton(fns: &[FnDef], f: &FnDef) -> Canon {
    automaton_mode(fns, f, AMode::Protocol, &BTreeMap::new())
}

pub fn automaton_mode(fns: &[FnDef], f: &FnDef, mode: AMode, prims: &BTreeMap<String, bool>) -> Canon {
    let mut b = B {
        mode,
        prims: prims.clone(),
        fns,
        g: Graph { n: 1, edges: vec![], sites: HashMap::new() },
        closures: vec![],
        stack: vec![f.qname.clone()],
        cur_ty: vec![f.ty.clone()],
        cur_file: vec![f.file.clone()],
        unsupported: vec![],
        self_val: vec![],
    };
    let start = b.node();
    let mut env = Env::new();
    for (k, p) in f.params.iter().enumerate() {
        let v = if p == "this" { Val::pure("self") } else { Val::proto(&format!("$arg{}", k)) };
        env.insert(p.clone(), v);
    }
    let mut o = b.block(&f.block, Path { node: start, env });
    let mut rets: Vec<(usize, Val)> = o.ret.drain(..).collect();
    let exits: Vec<(Path, Val)> = o.normal.drain(..).collect();
    for (q, v) in exits {
        let q = b.release_all(q);
        rets.push((q.node, v));
    }
    for (n, v) in rets {
        let t = if mode == AMode::Lock { String::new() } else { match &v.shape {
            Shape::Bool(x) => x.to_string(),
            _ => {
                if v.proto || matches!(v.shape, Shape::Ctor(..)) {
                    v.text.clone()
                } else {
                    String::new()
                }
            }
        } };
        b.edge(n, Some(format!("ret[{}]", t)), END);
    }
    let (lines, roles) = canon(&b.g, start);
    let has = if mode == AMode::Lock {
        lines.iter().any(|l| l.contains("acquire"))
    } else { lines.iter().any(|l| {
        let lbl = l.split(" -- ").nth(1).unwrap_or("");
        !(lbl.starts_with("ret[") || lbl.starts_with("pause") || lbl.starts_with("if[") || lbl.starts_with("unreachable") || lbl.starts_with("panic"))
    }) };
    Canon { lines, roles, has_protocol_event: has, unsupported: b.unsupported }
}

/// which functions are called by another function of these files (helpers are inlined, not listed)
pub fn called_names(fns: &[FnDef]) -> BTreeSet<String> {
    struct V {
        names: BTreeSet<String>,
    }
    impl<'ast> syn::visit::Visit<'ast> for V {
        fn visit_expr_call(&mut self, c: &'ast syn::ExprCall) {
            if let Some(n) = last_seg(&c.func) {
                self.names.insert(n);
            }
            syn::visit::visit_expr_call(self, c);
        }
        fn visit_expr_method_call(&mut self, m: &'ast syn::ExprMethodCall) {
            self.names.insert(m.method.to_string());
            syn::visit::visit_expr_method_call(self, m);
        }
    }
    let mut v = V { names: BTreeSet::new() };
    for f in fns {
        syn::visit::Visit::visit_block(&mut v, &f.block);
    }
    v.names
}
