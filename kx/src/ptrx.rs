//! ptrx - size dispatch by partial evaluation.
//!
//! What `pointer.rs` and the dispatch sites of `lib.rs` / `future.rs` do depends on `size_of::<T>()`
//! only through comparisons with 0 and with the size of a pointer, so there are four classes of
//! message types: zero-sized, smaller than a pointer, exactly a pointer, larger.  Instead of
//! translating the shape of the `if` ladder (which breaks as soon as a condition is named by a local
//! `let`, moved into a helper predicate, negated, or turned into a `match` on a tuple), each function
//! or site is evaluated once per class: size conditions are decided, private helpers of the same file
//! are inlined, and what is left is the list of actions performed for that class.  The generated
//! decision tree is rebuilt from the four lists, so its form does not depend on how the source writes
//! the dispatch.  A condition that mentions `size_of` and cannot be decided is printed as
//! `PUnsupported` (the theorems then fail closed).
use crate::{is_cfg_verif, leaf_actions, toks, PT};
use std::collections::BTreeMap;
use syn::{Block, Expr, ImplItem, Item, Pat, Stmt};

#[derive(Clone, Copy, PartialEq, Debug)]
pub enum Cls {
    Zst,
    Small,
    Eq,
    Big,
}
pub const CLASSES: [Cls; 4] = [Cls::Zst, Cls::Small, Cls::Eq, Cls::Big];
const P: u64 = 8;
fn rep(c: Cls) -> u64 {
    match c {
        Cls::Zst => 0,
        Cls::Small => 4,
        Cls::Eq => 8,
        Cls::Big => 16,
    }
}

#[derive(Clone, PartialEq, Debug)]
enum V {
    B(bool),
    /// size_of::<T>()
    SzT(u64),
    /// size of a pointer
    SzP,
    Zero,
    Tup(Vec<V>),
}

pub struct Helpers {
    /// private functions of the file: name -> (params, body)
    pub fns: BTreeMap<String, (Vec<String>, Block)>,
    /// constants (free or associated) whose value is a size condition: name -> expression
    pub consts: BTreeMap<String, Expr>,
}

pub fn helpers_of(file: &syn::File) -> Helpers {
    let mut fns = BTreeMap::new();
    let mut consts: BTreeMap<String, Expr> = BTreeMap::new();
    for it in &file.items {
        match it {
            Item::Const(c) if toks(&c.expr).contains("size_of") => {
                consts.insert(c.ident.to_string(), (*c.expr).clone());
            }
            Item::Impl(im) => {
                for x in &im.items {
                    if let ImplItem::Const(c) = x {
                        if toks(&c.expr).contains("size_of") {
                            consts.insert(c.ident.to_string(), c.expr.clone());
                        }
                    }
                }
            }
            _ => {}
        }
    }
    // constants defined through other size constants
    let mut add = |sig: &syn::Signature, b: &Block| {
        let params: Vec<String> = sig
            .inputs
            .iter()
            .filter_map(|a| match a {
                syn::FnArg::Typed(t) => Some(toks(&t.pat)),
                _ => None,
            })
            .collect();
        fns.insert(sig.ident.to_string(), (params, b.clone()));
    };
    for it in &file.items {
        match it {
            Item::Fn(f) if !is_cfg_verif(&f.attrs) => add(&f.sig, &f.block),
            Item::Impl(im) if !is_cfg_verif(&im.attrs) => {
                for x in &im.items {
                    if let ImplItem::Fn(f) = x {
                        if !is_cfg_verif(&f.attrs) {
                            add(&f.sig, &f.block)
                        }
                    }
                }
            }
            Item::Macro(m) => {
                if let Some(body) = crate::last_brace_group(m.mac.tokens.clone()) {
                    let wrapped: proc_macro2::TokenStream = format!("impl X {{ {} }}", body).parse().unwrap_or_default();
                    if let Ok(im) = syn::parse2::<syn::ItemImpl>(wrapped) {
                        for x in &im.items {
                            if let ImplItem::Fn(f) = x {
                                if !is_cfg_verif(&f.attrs) {
                                    add(&f.sig, &f.block)
                                }
                            }
                        }
                    }
                }
            }
            _ => {}
        }
    }
    Helpers { fns, consts }
}

type Env = BTreeMap<String, V>;

pub struct Ev<'a> {
    pub h: &'a Helpers,
    pub cls: Cls,
    pub unsupported: Vec<String>,
    depth: usize,
}

fn mentions_size(e: &Expr, env: &Env) -> bool {
    let t = toks(e);
    if t.contains("size_of") {
        return true;
    }
    if let Expr::Path(p) = e {
        if p.path.segments.len() == 1 {
            return env.contains_key(&p.path.segments[0].ident.to_string());
        }
    }
    false
}

impl<'a> Ev<'a> {
    pub fn new(h: &'a Helpers, cls: Cls) -> Self {
        Ev { h, cls, unsupported: vec![], depth: 0 }
    }

    /// value of an expression made of size_of, 0, comparisons, boolean connectives, locals bound to
    /// such values, helper predicates without parameters
    fn sv(&mut self, e: &Expr, env: &Env) -> Option<V> {
        match e {
            Expr::Paren(p) => self.sv(&p.expr, env),
            Expr::Group(p) => self.sv(&p.expr, env),
            Expr::Lit(l) => match toks(&l.lit).as_str() {
                "0" => Some(V::Zero),
                "true" => Some(V::B(true)),
                "false" => Some(V::B(false)),
                _ => None,
            },
            Expr::Path(p) if p.path.segments.len() == 1 && env.contains_key(&p.path.segments[0].ident.to_string()) => {
                env.get(&p.path.segments[0].ident.to_string()).cloned()
            }
            Expr::Path(p) => {
                // a constant (free, or `Self::NAME`) whose value is a size condition
                let last = p.path.segments.last().map(|s| s.ident.to_string()).unwrap_or_default();
                let first_ok = p.path.segments.len() == 1 || p.path.segments[0].ident == "Self" || p.path.segments.len() == 2;
                match self.h.consts.get(&last).cloned() {
                    Some(x) if first_ok && self.depth < 6 => {
                        self.depth += 1;
                        let r = self.sv(&x, &Env::new());
                        self.depth -= 1;
                        r
                    }
                    _ => None,
                }
            }
            Expr::Unary(u) if matches!(u.op, syn::UnOp::Not(_)) => match self.sv(&u.expr, env)? {
                V::B(b) => Some(V::B(!b)),
                _ => None,
            },
            Expr::Tuple(t) => {
                let mut v = vec![];
                for x in &t.elems {
                    v.push(self.sv(x, env)?);
                }
                Some(V::Tup(v))
            }
            Expr::Call(c) => {
                let t = toks(e);
                if t == "size_of :: < T > ()" || t == "core :: mem :: size_of :: < T > ()" || t == "mem :: size_of :: < T > ()" {
                    return Some(V::SzT(rep(self.cls)));
                }
                if t.ends_with("size_of :: < * mut T > ()") || t.ends_with("size_of :: < * const T > ()") || t.ends_with("size_of :: < usize > ()") {
                    return Some(V::SzP);
                }
                if c.args.is_empty() {
                    if let Expr::Path(p) = &*c.func {
                        if let Some(seg) = p.path.segments.last() {
                            if let Some((params, body)) = self.h.fns.get(&seg.ident.to_string()) {
                                if params.is_empty() && body.stmts.len() == 1 && self.depth < 6 {
                                    if let Stmt::Expr(x, None) = &body.stmts[0] {
                                        self.depth += 1;
                                        let r = self.sv(x, &Env::new());
                                        self.depth -= 1;
                                        return r;
                                    }
                                }
                            }
                        }
                    }
                }
                None
            }
            Expr::Binary(b) => {
                use syn::BinOp::*;
                match b.op {
                    And(_) | Or(_) => {
                        let l = self.sv(&b.left, env)?;
                        let r = self.sv(&b.right, env)?;
                        match (l, r) {
                            (V::B(x), V::B(y)) => Some(V::B(if matches!(b.op, And(_)) { x && y } else { x || y })),
                            _ => None,
                        }
                    }
                    Lt(_) | Le(_) | Gt(_) | Ge(_) | Eq(_) | Ne(_) => {
                        let l = self.sv(&b.left, env)?;
                        let r = self.sv(&b.right, env)?;
                        // only size_of::<T>() against 0 or the size of a pointer
                        let num = |v: &V| -> Option<u64> {
                            match v {
                                V::SzT(n) => Some(*n),
                                V::SzP => Some(P),
                                V::Zero => Some(0),
                                _ => None,
                            }
                        };
                        let ok = matches!((&l, &r), (V::SzT(_), V::SzP) | (V::SzT(_), V::Zero) | (V::SzP, V::SzT(_)) | (V::Zero, V::SzT(_)));
                        if !ok {
                            return None;
                        }
                        let (a, c) = (num(&l)?, num(&r)?);
                        Some(V::B(match b.op {
                            Lt(_) => a < c,
                            Le(_) => a <= c,
                            Gt(_) => a > c,
                            Ge(_) => a >= c,
                            Eq(_) => a == c,
                            _ => a != c,
                        }))
                    }
                    _ => None,
                }
            }
            _ => None,
        }
    }

    fn pat_ok(&self, p: &Pat, v: &V) -> Option<bool> {
        match (p, v) {
            (Pat::Wild(_), _) => Some(true),
            (Pat::Ident(_), _) => Some(true),
            (Pat::Paren(x), _) => self.pat_ok(&x.pat, v),
            (Pat::Lit(l), V::B(b)) => Some(toks(&l.lit) == b.to_string()),
            (Pat::Lit(l), V::SzT(n)) => {
                let t = toks(&l.lit);
                if t == "0" {
                    Some(*n == 0)
                } else {
                    None
                }
            }
            (Pat::Tuple(t), V::Tup(vs)) if t.elems.len() == vs.len() => {
                let mut all = true;
                for (x, y) in t.elems.iter().zip(vs.iter()) {
                    if !self.pat_ok(x, y)? {
                        all = false;
                    }
                }
                Some(all)
            }
            (Pat::Or(o), _) => {
                let mut any = false;
                for c in &o.cases {
                    if self.pat_ok(c, v)? {
                        any = true;
                    }
                }
                Some(any)
            }
            _ => None,
        }
    }

    /// actions of a statement list for this class: size decisions folded away first, wherever they stand
    /// (also inside the arguments of a call), then the calls of interest in evaluation order; nothing after
    /// a diverging action
    pub fn block(&mut self, stmts: &[Stmt], env: &mut Env) -> Vec<String> {
        let b = Block { brace_token: Default::default(), stmts: stmts.to_vec() };
        let folded = {
            let mut f = Simp { ev: self, env: env.clone() };
            syn::fold::Fold::fold_block(&mut f, b)
        };
        cut_after_divergence(leaf_actions(&folded.stmts))
    }

    pub fn expr(&mut self, e: &Expr, env: &mut Env) -> Vec<String> {
        self.block(&[Stmt::Expr(e.clone(), None)], env)
    }

    fn is_sized(&self, e: &Expr, env: &Env) -> bool {
        toks(e).contains("size_of") || mentions_env(e, env) || cond_names_pred(e, self.h) || names_size_const(e, self.h)
    }
}

fn cut_after_divergence(v: Vec<String>) -> Vec<String> {
    let mut out = vec![];
    for a in v {
        let stop = a == "unreachable" || a == "panic" || a == "unimplemented" || a == "todo";
        out.push(a);
        if stop {
            break;
        }
    }
    out
}

fn names_size_const(e: &Expr, h: &Helpers) -> bool {
    struct Vis<'b> {
        h: &'b Helpers,
        hit: bool,
    }
    impl<'b, 'ast> syn::visit::Visit<'ast> for Vis<'b> {
        fn visit_expr_path(&mut self, p: &'ast syn::ExprPath) {
            if let Some(s) = p.path.segments.last() {
                if self.h.consts.contains_key(&s.ident.to_string()) {
                    self.hit = true;
                }
            }
        }
    }
    let mut v = Vis { h, hit: false };
    syn::visit::Visit::visit_expr(&mut v, e);
    v.hit
}

struct Simp<'a, 'b> {
    ev: &'b mut Ev<'a>,
    env: Env,
}

impl<'a, 'b> syn::fold::Fold for Simp<'a, 'b> {
    fn fold_block(&mut self, b: Block) -> Block {
        let saved = self.env.clone();
        let mut out = vec![];
        for s in b.stmts {
            if let Stmt::Local(l) = &s {
                if is_cfg_verif(&l.attrs) {
                    continue;
                }
                if let Some(init) = &l.init {
                    let name = match &l.pat {
                        Pat::Ident(i) => Some(i.ident.to_string()),
                        Pat::Type(t) => match &*t.pat {
                            Pat::Ident(i) => Some(i.ident.to_string()),
                            _ => None,
                        },
                        _ => None,
                    };
                    if let Some(n) = name {
                        let env = self.env.clone();
                        if self.ev.is_sized(&init.expr, &env) {
                            if let Some(v) = self.ev.sv(&init.expr, &env) {
                                // a local that names a size condition: remembered, the statement itself does nothing
                                self.env.insert(n, v);
                                continue;
                            }
                        }
                    }
                }
            }
            out.push(syn::fold::Fold::fold_stmt(self, s));
        }
        self.env = saved;
        Block { brace_token: b.brace_token, stmts: out }
    }

    fn fold_expr(&mut self, e: Expr) -> Expr {
        match e {
            Expr::If(i) => {
                let env = self.env.clone();
                if self.ev.is_sized(&i.cond, &env) {
                    match self.ev.sv(&i.cond, &env) {
                        Some(V::B(true)) => {
                            let b = syn::fold::Fold::fold_block(self, i.then_branch);
                            Expr::Block(syn::ExprBlock { attrs: vec![], label: None, block: b })
                        }
                        Some(V::B(false)) => match i.else_branch {
                            Some((_, eb)) => syn::fold::Fold::fold_expr(self, *eb),
                            None => Expr::Block(syn::ExprBlock {
                                attrs: vec![],
                                label: None,
                                block: Block { brace_token: Default::default(), stmts: vec![] },
                            }),
                        },
                        _ => {
                            self.ev.unsupported.push(toks(&i.cond));
                            Expr::If(i)
                        }
                    }
                } else {
                    syn::fold::fold_expr(self, Expr::If(i))
                }
            }
            Expr::Match(m) => {
                let env = self.env.clone();
                if self.ev.is_sized(&m.expr, &env) {
                    match self.ev.sv(&m.expr, &env) {
                        Some(v) => {
                            for arm in m.arms.iter() {
                                match self.ev.pat_ok(&arm.pat, &v) {
                                    Some(true) => return syn::fold::Fold::fold_expr(self, (*arm.body).clone()),
                                    Some(false) => continue,
                                    None => {
                                        self.ev.unsupported.push(format!("match arm {}", toks(&arm.pat)));
                                        return Expr::Match(m);
                                    }
                                }
                            }
                            Expr::Match(m)
                        }
                        None => {
                            self.ev.unsupported.push(toks(&m.expr));
                            Expr::Match(m)
                        }
                    }
                } else {
                    syn::fold::fold_expr(self, Expr::Match(m))
                }
            }
            other => syn::fold::fold_expr(self, other),
        }
    }
}

fn mentions_env(e: &Expr, env: &Env) -> bool {
    struct Vis<'b> {
        env: &'b Env,
        hit: bool,
    }
    impl<'b, 'ast> syn::visit::Visit<'ast> for Vis<'b> {
        fn visit_expr_path(&mut self, p: &'ast syn::ExprPath) {
            if p.path.segments.len() == 1 && self.env.contains_key(&p.path.segments[0].ident.to_string()) {
                self.hit = true;
            }
        }
    }
    let mut v = Vis { env, hit: false };
    syn::visit::Visit::visit_expr(&mut v, e);
    v.hit
}

/// the condition is (a negation of) a call of a parameterless helper whose body is a size condition
fn cond_names_pred(e: &Expr, h: &Helpers) -> bool {
    if let Expr::Path(p) = e {
        if let Some(s) = p.path.segments.last() {
            if h.consts.contains_key(&s.ident.to_string()) {
                return true;
            }
        }
    }
    match e {
        Expr::Paren(p) => cond_names_pred(&p.expr, h),
        Expr::Unary(u) => cond_names_pred(&u.expr, h),
        Expr::Call(c) if c.args.is_empty() => {
            if let Expr::Path(p) = &*c.func {
                if let Some(s) = p.path.segments.last() {
                    if let Some((params, b)) = h.fns.get(&s.ident.to_string()) {
                        return params.is_empty() && toks(b).contains("size_of");
                    }
                }
            }
            false
        }
        Expr::Binary(b) => cond_names_pred(&b.left, h) || cond_names_pred(&b.right, h),
        _ => false,
    }
}

/// the decision tree rebuilt from the four per-class action lists
pub fn tree_of(lists: &[Vec<String>; 4], unsupported: &[String]) -> PT {
    if let Some(u) = unsupported.first() {
        return PT::Unsupported(u.clone());
    }
    let leaf = |k: usize| PT::Leaf(lists[k].clone());
    let (z, s, e, b) = (0, 1, 2, 3);
    // classes above zero
    let above = if lists[s] == lists[e] && lists[e] == lists[b] {
        leaf(s)
    } else if lists[s] == lists[e] {
        PT::If(">".into(), "PtrSize".into(), Box::new(leaf(b)), Box::new(leaf(s)))
    } else if lists[e] == lists[b] {
        PT::If("<".into(), "PtrSize".into(), Box::new(leaf(s)), Box::new(leaf(e)))
    } else {
        PT::If(
            "<".into(),
            "PtrSize".into(),
            Box::new(leaf(s)),
            Box::new(PT::If(">".into(), "PtrSize".into(), Box::new(leaf(b)), Box::new(leaf(e)))),
        )
    };
    if lists[z] == lists[s] {
        above
    } else {
        PT::If("==".into(), "Zero".into(), Box::new(leaf(z)), Box::new(above))
    }
}

/// whole function, per class
pub fn function_tree(h: &Helpers, body: &Block) -> PT {
    let mut lists: [Vec<String>; 4] = Default::default();
    let mut uns = vec![];
    for (k, c) in CLASSES.iter().enumerate() {
        let mut ev = Ev::new(h, *c);
        let mut env = Env::new();
        lists[k] = ev.block(&body.stmts, &mut env);
        uns.extend(ev.unsupported);
    }
    tree_of(&lists, &uns)
}

/// the size-dispatch sites reachable from a function (private helpers of the file inlined), in source order
pub fn sites_of(h: &Helpers, body: &Block) -> Vec<PT> {
    let mut found: Vec<(Expr, Env0)> = vec![];
    collect_sites(h, body, &mut found, 0);
    let mut out = vec![];
    for (e, env0) in found {
        let mut lists: [Vec<String>; 4] = Default::default();
        let mut uns = vec![];
        for (k, c) in CLASSES.iter().enumerate() {
            let mut ev = Ev::new(h, *c);
            // locals naming size conditions, evaluated for this class
            let mut env = Env::new();
            for (n, x) in &env0 {
                if let Some(v) = ev.sv(x, &env.clone()) {
                    env.insert(n.clone(), v);
                }
            }
            lists[k] = ev.expr(&e, &mut env);
            uns.extend(ev.unsupported);
        }
        out.push(tree_of(&lists, &uns));
    }
    out
}

type Env0 = Vec<(String, Expr)>;

/// a helper whose whole body is one size dispatch (the futures' "read my value" / "destroy my value") is a
/// dispatch site of its own in the byte-level model (Ptr.v): it is not inlined into its callers
fn is_site_fn(h: &Helpers, name: &str) -> bool {
    if name == "new" {
        return true;
    }
    match h.fns.get(name) {
        Some((_, b)) if b.stmts.len() == 1 => {
            let e = match &b.stmts[0] {
                Stmt::Expr(e, _) => e,
                _ => return false,
            };
            fn core(e: &Expr) -> &Expr {
                match e {
                    Expr::Paren(p) => core(&p.expr),
                    Expr::Unsafe(u) if u.block.stmts.len() == 1 => match &u.block.stmts[0] {
                        Stmt::Expr(x, _) => core(x),
                        _ => e,
                    },
                    _ => e,
                }
            }
            match core(e) {
                Expr::If(i) => toks(&i.cond).contains("size_of") || cond_names_pred(&i.cond, h),
                Expr::Match(m) => toks(&m.expr).contains("size_of"),
                _ => false,
            }
        }
        _ => false,
    }
}

fn collect_sites(h: &Helpers, body: &Block, out: &mut Vec<(Expr, Env0)>, depth: usize) {
    // locals of this function bound to size conditions
    struct Lets {
        v: Env0,
    }
    impl<'ast> syn::visit::Visit<'ast> for Lets {
        fn visit_local(&mut self, l: &'ast syn::Local) {
            if let Some(init) = &l.init {
                if toks(&init.expr).contains("size_of") && !matches!(&*init.expr, Expr::If(_) | Expr::Match(_) | Expr::Block(_) | Expr::Unsafe(_)) {
                    let name = match &l.pat {
                        Pat::Ident(i) => Some(i.ident.to_string()),
                        Pat::Type(t) => match &*t.pat {
                            Pat::Ident(i) => Some(i.ident.to_string()),
                            _ => None,
                        },
                        _ => None,
                    };
                    if let Some(n) = name {
                        self.v.push((n, (*init.expr).clone()));
                    }
                }
            }
            syn::visit::visit_local(self, l);
        }
    }
    let mut lets = Lets { v: vec![] };
    syn::visit::Visit::visit_block(&mut lets, body);
    let names: Vec<String> = lets.v.iter().map(|x| x.0.clone()).collect();
    struct Vis<'b> {
        h: &'b Helpers,
        names: &'b [String],
        env0: &'b Env0,
        out: &'b mut Vec<(Expr, Env0)>,
        depth: usize,
    }
    impl<'b> Vis<'b> {
        fn is_size_cond(&self, e: &Expr) -> bool {
            if toks(e).contains("size_of") || cond_names_pred(e, self.h) {
                return true;
            }
            struct P<'c> {
                names: &'c [String],
                hit: bool,
            }
            impl<'c, 'ast> syn::visit::Visit<'ast> for P<'c> {
                fn visit_expr_path(&mut self, p: &'ast syn::ExprPath) {
                    if p.path.segments.len() == 1 && self.names.contains(&p.path.segments[0].ident.to_string()) {
                        self.hit = true;
                    }
                }
            }
            let mut p = P { names: self.names, hit: false };
            syn::visit::Visit::visit_expr(&mut p, e);
            p.hit
        }
    }
    impl<'b, 'ast> syn::visit::Visit<'ast> for Vis<'b> {
        fn visit_expr_if(&mut self, i: &'ast syn::ExprIf) {
            if self.is_size_cond(&i.cond) {
                self.out.push((Expr::If(i.clone()), self.env0.clone()));
                return;
            }
            syn::visit::visit_expr_if(self, i);
        }
        fn visit_expr_match(&mut self, m: &'ast syn::ExprMatch) {
            if self.is_size_cond(&m.expr) {
                self.out.push((Expr::Match(m.clone()), self.env0.clone()));
                return;
            }
            syn::visit::visit_expr_match(self, m);
        }
        fn visit_expr_method_call(&mut self, m: &'ast syn::ExprMethodCall) {
            syn::visit::visit_expr_method_call(self, m);
            let recv = toks(&m.receiver);
            if (recv == "self" || recv == "this") && self.depth < 4 && !is_site_fn(self.h, &m.method.to_string()) {
                if let Some((_, b)) = self.h.fns.get(&m.method.to_string()) {
                    if toks(b).contains("size_of") {
                        collect_sites(self.h, b, self.out, self.depth + 1);
                    }
                }
            }
        }
        fn visit_expr_call(&mut self, c: &'ast syn::ExprCall) {
            syn::visit::visit_expr_call(self, c);
            if self.depth < 4 {
                if let Expr::Path(p) = &*c.func {
                    let segs: Vec<String> = p.path.segments.iter().map(|s| s.ident.to_string()).collect();
                    if segs.len() <= 2 && (segs.len() == 1 || segs[0] == "Self") && !is_site_fn(self.h, segs.last().unwrap()) {
                        if let Some((_, b)) = self.h.fns.get(segs.last().unwrap()) {
                            if toks(b).contains("size_of") {
                                collect_sites(self.h, b, self.out, self.depth + 1);
                            }
                        }
                    }
                }
            }
        }
    }
    let mut v = Vis { h, names: &names, env0: &lets.v, out, depth };
    syn::visit::Visit::visit_block(&mut v, body);
}
