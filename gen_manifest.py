#!/usr/bin/env python3
"""writes MANIFEST.json from the property table in lib/kvprops.py (single source of truth)"""
import json, os, sys
sys.path.insert(0, os.path.join(os.path.dirname(os.path.abspath(__file__)), "lib"))
import kvlib, kvprops
props = kvlib.load_props()
checks, na = [], []
for pid in sorted(props):
    if pid in kvprops.PROPS:
        spec = kvprops.PROPS[pid]
        thms = kvlib.theorems_of(pid)
        cat = "proof" if thms else "exploration"
        checks.append({
            "property_id": pid,
            "quick_cmd": "./check %s --tier quick" % pid,
            "thorough_cmd": "./check %s --tier thorough" % pid,
            "evidence_file": "/verif/evidence/%s.json" % pid,
            "replay_cmd_template": "./check %s --replay {path}" % pid,
            "engine": "coq+" + "+".join(spec["suites"]),
            "level_claimed": {"category": cat, "text": spec.get("level_text", kvprops.default_level_text(pid, thms)),
                              "design_ref": "DESIGN.md section 5 (%s)" % pid},
            "level_note": spec.get("level_note", kvprops.DEFAULT_NOTE),
            "technique": spec.get("technique", kvprops.default_technique(pid, thms)),
        })
    else:
        na.append({"property_id": pid, "reason": kvprops.NOT_CLAIMED.get(pid, "not built yet in this round; see DESIGN.md section 12")})
m = {
    "version": 1,
    "setup_cmd": "./check setup",
    "hooks": {
        "guard": "kanal_verif",
        "enable": "RUSTFLAGS=\"--cfg kanal_verif\" (set in /verif/harness/.cargo/config.toml; rustc cfg, not a cargo feature)",
        "baseline_off_cmd": "cd /repo && cargo test --workspace --no-fail-fast --offline",
        "source_commits": ["56cc9cd", "dbd65a7", "3baf280", "5bd2864", "90cac4a"],
        "add_only": True,
    },
    "engines": [
        {"name": "coq", "path": "/verif/coq", "serves_properties": sorted(kvprops.PROPS),
         "kind_free_text": "Coq 8.16.1 development: executable models (Chan, Atomic, ...) + theorems; rebuilt by make on every check"},
        {"name": "kx", "path": "/verif/kx", "serves_properties": ["C03", "C04", "C06", "C07", "C17", "C20"],
         "kind_free_text": "syn-based translator: regenerates coq/theories/gen/*.v (canonical event automata of the protocol functions and the orderings of their roles, lock-discipline automata of the entry points, size dispatch by partial evaluation per size class, struct/impl tables) from /repo/src on every run"},
        {"name": "h1", "path": "/verif/harness", "serves_properties": [p for p in sorted(kvprops.PROPS) if "h1" in kvprops.PROPS[p]["suites"]],
         "kind_free_text": "Rust harness linking the real crate (cfg kanal_verif) + extracted OCaml model: sequential differential"},
        {"name": "h2", "path": "/verif/harness", "serves_properties": [p for p in sorted(kvprops.PROPS) if "h2" in kvprops.PROPS[p]["suites"]],
         "kind_free_text": "deterministic scheduler over the cfg(kanal_verif) shim: event traces of multi-threaded runs judged by the extracted Sig/Mutex acceptors, outcome-in-Atomic search, vector-clock detector"},
    ],
    "checks": checks,
    "not_applicable": na,
    "notes": "Technique family: machine-checked proof in Coq 8.16.1 over hand-written executable models tied to /repo by correspondence checks (H1 sequential differential, H2 scheduled traces) and by a translator for static facts (kx). See DESIGN.md.",
}
json.dump(m, open(os.path.join(kvlib.ROOT, "MANIFEST.json"), "w"), indent=1)
print("checks:", len(checks), "not claimed:", len(na))
