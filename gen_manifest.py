#!/usr/bin/env python3
"""writes MANIFEST.json from the property table in lib/kvprops.py (single source of truth)"""
import json, os, sys
sys.path.insert(0, os.path.join(os.path.dirname(os.path.abspath(__file__)), "lib"))
import kvlib, kvprops
props = kvlib.load_props()
checks, na = [], []
for pid in sorted(props):
    if pid in kvprops.PROPS:
        spec = kvprops.PROPS[pid]
        thms = kvlib.theorems_of(pid)
        cat = "proof" if thms else "exploration"
        checks.append({
            "property_id": pid,
            "quick_cmd": "./check %s --tier quick" % pid,
            "thorough_cmd": "./check %s --tier thorough" % pid,
            "evidence_file": "/verif/evidence/%s.json" % pid,
            "replay_cmd_template": "./check %s --replay {path}" % pid,
            "engine": "coq+h1",
            "level_claimed": {"category": cat, "text": spec.get("level_text", kvprops.default_level_text(pid, thms)),
                              "design_ref": "DESIGN.md section 5 (%s)" % pid},
            "level_note": spec.get("level_note", kvprops.DEFAULT_NOTE),
            "technique": spec.get("technique", kvprops.default_technique(pid, thms)),
        })
    else:
        na.append({"property_id": pid, "reason": kvprops.NOT_CLAIMED.get(pid, "not built yet in this round; see DESIGN.md section 12")})
m = {
    "version": 1,
    "setup_cmd": "./check setup",
    "hooks": {
        "guard": "kanal_verif",
        "enable": "RUSTFLAGS=\"--cfg kanal_verif\" (set in /verif/harness/.cargo/config.toml; rustc cfg, not a cargo feature)",
        "baseline_off_cmd": "cd /repo && cargo test --workspace --no-fail-fast --offline",
        "source_commits": ["56cc9cd", "dbd65a7"],
        "add_only": True,
    },
    "engines": [
        {"name": "coq", "path": "/verif/coq", "serves_properties": sorted(kvprops.PROPS),
         "kind_free_text": "Coq 8.16.1 development: executable models (Chan, Atomic, ...) + theorems; rebuilt by make on every check"},
        {"name": "h1", "path": "/verif/harness", "serves_properties": sorted(kvprops.PROPS),
         "kind_free_text": "Rust harness linking the real crate (cfg kanal_verif) + extracted OCaml model: sequential differential"},
    ],
    "checks": checks,
    "not_applicable": na,
    "notes": "Technique family: machine-checked proof in Coq 8.16.1 over hand-written executable models tied to /repo by correspondence checks (H1 sequential differential, H2 scheduled traces) and by a translator for static facts (kx). See DESIGN.md.",
}
json.dump(m, open(os.path.join(kvlib.ROOT, "MANIFEST.json"), "w"), indent=1)
print("checks:", len(checks), "not claimed:", len(na))
