(* Vec.v - the caller's vector in drain_into (lib.rs `drain_into`): the part of that function that
   is not channel state.  A vector is its contents plus its capacity; `usize` subtraction is
   checked (None = the debug-build panic / release-build wrap-around, which the theorem excludes);
   `reserve` and `push` grow the allocation by an amount the allocator chooses (`grow` is a
   parameter of the model: the theorems hold for every growth policy that gives at least what was
   asked for, which is all `Vec` promises). *)
From KV Require Import Base.

Record vec := mkVec { v_items : list tag; v_cap : N }.

Definition vec_ok (v : vec) : Prop := (len (v_items v) <= v_cap v)%N.

(* usize subtraction *)
Definition csub (a b : N) : option N := if N.ltb a b then None else Some (a - b)%N.

Section Grow.
  (* grow cap needed: the new capacity; the model's theorems assume only needed <= grow cap needed *)
  Variable grow : N -> N -> N.

  (* Vec::reserve(additional): afterwards capacity >= len + additional *)
  Definition v_reserve (v : vec) (additional : N) : vec :=
    let need := (len (v_items v) + additional)%N in
    if N.leb need (v_cap v) then v else mkVec (v_items v) (grow (v_cap v) need).

  (* Vec::push: grows when full *)
  Definition v_push (v : vec) (x : tag) : vec :=
    let l := len (v_items v) in
    let cap := if N.ltb l (v_cap v) then v_cap v else grow (v_cap v) (l + 1)%N in
    mkVec (v_items v ++ [x]) cap.

  (* the vector side of drain_into, statement by statement:
       let vec_initial_length = vec.len();
       let remaining_cap = vec.capacity() - vec_initial_length;
       ... required_cap computed from the channel under the lock ...
       if required_cap > remaining_cap { vec.reserve(vec_initial_length + required_cap - remaining_cap); }
       every value taken (buffer, then blocked senders) is pushed
       Ok(required_cap)                                                                          *)
  Definition drain_into_vec (v : vec) (required : N) (taken : list tag) : option (vec * N) :=
    let l0 := len (v_items v) in
    match csub (v_cap v) l0 with
    | None => None
    | Some remaining =>
        let v1 :=
          if N.ltb remaining required then
            match csub (l0 + required)%N remaining with
            | None => None
            | Some n => Some (v_reserve v n)
            end
          else Some v in
        match v1 with
        | None => None
        | Some v1 => Some (fold_left v_push taken v1, required)
        end
    end.
End Grow.

(* the growth policy of Rust's RawVec (amortised doubling, at least what is needed): the instance the
   correspondence check runs; the theorems hold for every policy with need <= grow cap need *)
Definition grow_amortised (cap need : N) : N := N.max need (2 * cap).

(* what the differential harness observes of one drain_into call on a vector with the previous
   contents `prev` and `spare` free places: Some (count, appended, previous contents intact) *)
Definition drain_observed (prev : list tag) (spare required : N) (taken : list tag)
  : option (N * list tag * bool) :=
  match drain_into_vec grow_amortised (mkVec prev (len prev + spare)) required taken with
  | None => None
  | Some (v', n) =>
      Some (n, skipn (length prev) (v_items v'),
            if list_eq_dec N.eq_dec (firstn (length prev) (v_items v')) prev then true else false)
  end.
