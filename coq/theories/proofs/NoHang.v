(* NoHang.v - totality of the model on reachable states: the outcome RHang ("cannot happen":
   a listed sender without a value, a claimed-but-unfinished signal met by an atomic step, ...)
   is never produced, and RPanic is produced only by the documented panics (a `None` option,
   polling a finished future). *)
From KV Require Import Base Chan Atomic.
From KV.proofs Require Import Assoc Inv Cases StepInv Ledger Fifo Ops.
From Coq Require Import ZifyN ZifyBool ZifyNat.

Definition bad (r : res) : bool := match r with RHang => true | _ => false end.

Lemma cs_recv_not_corrupt a : Inv a -> cs_recv a <> RCCorrupt.
Proof. intros HI E. pose proof (cs_recv_case a HI) as H. rewrite E in H. inversion H. Qed.

Local Arguments drain_senders : simpl never.

Lemma poll_send_nohang a f o w :
  Inv a -> lookup f (objs a) = Some o -> o_kind o = KSendFut ->
  snd (fst (fst (poll_send a f o w))) <> PHang.
Proof.
  intros HI Ho Hk. unfold poll_send. pose proof HI as (HO & _ & _).
  pose proof (i_obj _ _ _ _ HO f o Ho) as Hok. pose proof (okb_oval _ _ _ Hok) as Hv.
  assert (Hs : is_send o = true) by (unfold is_send; rewrite Hk; reflexivity). rewrite Hs in Hv. simpl in Hv.
  destruct (o_fst o) eqn:Hf.
  - apply has_val_true in Hv as [x Hx]. rewrite Hx. destruct (cs_send a x); simpl; discriminate.
  - destruct (o_sig o) eqn:Hsg; simpl.
    + destruct (match o_waker o with Some w' => N.eqb w' w | None => false end); simpl; [discriminate|].
      destruct (listed_of_locked a f o HI Ho Hf Hsg) as (Hin & Hfl & _). rewrite Hs in Hfl. simpl in Hfl.
      unfold send_signal_exists. rewrite Hfl. apply mem_in in Hin. rewrite Hin. simpl. discriminate.
    + discriminate.
    + apply has_val_true in Hv as [x Hx]. rewrite Hx. simpl. discriminate.
  - simpl. discriminate.
Qed.

Lemma poll_recv_zero_nohang a f o w : Inv a -> snd (fst (fst (poll_recv_zero a f o w))) <> PHang.
Proof.
  intros HI. unfold poll_recv_zero. pose proof (cs_recv_not_corrupt a HI) as Hn.
  destruct (cs_recv a) as [|v a1 ws|a1|]; simpl; try discriminate; [|congruence].
  destruct (N.eqb (send_count (ch a1)) 0); simpl; discriminate.
Qed.

Lemma poll_recv_result a f o w :
  Inv a -> lookup f (objs a) = Some o -> (o_kind o = KRecvFut \/ o_kind o = KStream) ->
  let p := snd (fst (fst (poll_recv a f o w))) in
  p <> PHang /\ p <> PReadyOk /\ (o_kind o = KStream -> p <> PPanic).
Proof.
  intros HI Ho Hk. unfold poll_recv. pose proof HI as (HO & _ & _).
  pose proof (i_obj _ _ _ _ HO f o Ho) as Hok. pose proof (okb_oval _ _ _ Hok) as Hv.
  assert (Hs : is_send o = false) by (unfold is_send; destruct Hk as [-> | ->]; reflexivity). rewrite Hs in Hv. simpl in Hv.
  assert (Hz : forall o', let p := snd (fst (fst (poll_recv_zero a f o' w))) in p <> PHang /\ p <> PReadyOk /\ p <> PPanic).
  { intros o'. pose proof (poll_recv_zero_nohang a f o' w HI) as Hn. simpl. split; [exact Hn|].
    unfold poll_recv_zero in *. destruct (cs_recv a) as [|v a1 ws|a1|]; simpl; try (split; discriminate).
    destruct (N.eqb (send_count (ch a1)) 0); simpl; split; discriminate. }
  destruct (o_fst o) eqn:Hf.
  - destruct (Hz o) as (H1 & H2 & H3). auto.
  - destruct (o_sig o) eqn:Hsg; simpl.
    + destruct (match o_waker o with Some w' => N.eqb w' w | None => false end); simpl; [repeat split; discriminate|].
      destruct (listed_of_locked a f o HI Ho Hf Hsg) as (Hin & Hfl & _). rewrite Hs in Hfl. simpl in Hfl.
      unfold recv_signal_exists. rewrite Hfl. apply mem_in in Hin. rewrite Hin. simpl. repeat split; discriminate.
    + apply has_val_true in Hv as [x Hx]. rewrite Hx. simpl. repeat split; discriminate.
    + repeat split; discriminate.
  - destruct (o_kind o) eqn:Hkd; try (destruct Hk; discriminate).
    + simpl. repeat split; try discriminate.
    + destruct (Hz (set_sig (set_fst o FZero) SLocked)) as (H1 & H2 & H3). auto.
Qed.

Theorem astep_no_hang a l : Inv a -> bad (r_res (snd (astep a l))) = false.
Proof.
  intros HI. pose proof HI as (HO & HQ & HC).
  pose proof (cs_recv_not_corrupt a HI) as Hnc.
  assert (Hsl : forall k h x kd, bad (r_res (snd (step_send_like a k h x kd))) = false).
  { intros. unfold step_send_like. destruct (negb (is_side a h SSend) || negb (fresh a k)); simpl; auto.
    destruct (cs_send a x); simpl; auto. destruct kd; auto. }
  assert (Hts : forall h x opt, bad (r_res (snd (step_try_send a h x opt))) = false).
  { intros. unfold step_try_send. destruct (negb (is_side a h SSend)); simpl; auto.
    destruct (cs_send a x); simpl; destruct opt; auto. }
  assert (Hrl : forall k h t e, bad (r_res (snd (step_recv_like a k h t e))) = false).
  { intros. unfold step_recv_like. destruct (negb (is_side a h SRecv) || negb (fresh a k)); simpl; auto.
    destruct (cs_recv a) as [|v a1 ws|a1|]; simpl; auto; [|congruence].
    destruct (t && e); simpl; auto. destruct (N.eqb (send_count (ch a1)) 0); simpl; auto. }
  assert (Htr : forall h, bad (r_res (snd (step_try_recv a h))) = false).
  { intros. unfold step_try_recv. destruct (negb (is_side a h SRecv)); simpl; auto.
    destruct (cs_recv a) as [|v a1 ws|a1|]; simpl; auto; [|congruence].
    destruct (N.eqb (send_count (ch a1)) 0); simpl; auto. }
  destruct l; simpl astep; auto.
  - unfold step_clone. destruct (handle_side a h) as [s|]; simpl; auto. destruct (handle_side a h'); simpl; auto.
  - unfold step_drop_handle. destruct (handle_side a h) as [s|]; simpl; auto. destruct (borrowed a h); simpl; auto.
    match goal with |- context [let '(a1, ws) := ?X in _] => destruct X as [a1 ws] end.
    destruct (remove_key h (handles a)); simpl; auto.
  - unfold step_close. destruct (handle_side a h); simpl; auto.
    destruct (N.eqb (recv_count (ch a)) 0 && N.eqb (send_count (ch a)) 0); simpl; auto.
    destruct (terminate_signals _); simpl; auto.
  - unfold step_obs. destruct (handle_side a h) as [s|]; simpl; auto. destruct o; simpl; auto. destruct s; auto.
  - destruct x; auto. destruct (is_side a h SSend); auto.
  - destruct x; auto. destruct (is_side a h SSend); auto.
  - destruct busy; auto. destruct (is_side a h SSend); auto.
  - destruct x; [destruct busy; auto|]; destruct (is_side a h SSend); auto.
  - destruct busy; auto. destruct (is_side a h SRecv); auto.
  - unfold step_drain. destruct (negb (is_side a h SRecv)); simpl; auto.
    destruct (N.eqb (recv_count (ch a)) 0); simpl; auto.
    destruct (drain_senders_invO (S (length (wait_list (ch a)))) (set_queue (ch a) []) (objs a) (handles a) HO ltac:(simpl; lia))
      as (ys & c2 & os2 & ws & E & _).
    rewrite E. reflexivity.
  - (* complete *)
    unfold step_complete. destruct (lookup k (objs a)) as [o|] eqn:Ho; simpl; auto.
    destruct (kind_async (o_kind o)) eqn:Hka; simpl; auto.
    pose proof (i_obj _ _ _ _ HO k o Ho) as Hok. pose proof (okb_sync _ _ _ Hok Hka) as Hf.
    pose proof (okb_oval _ _ _ Hok) as Hv. rewrite Hf in Hv. unfold is_send in Hv.
    destruct (o_sig o); simpl; auto; destruct (kind_side (o_kind o)); simpl in *; auto.
    + apply has_val_true in Hv as [x Hx]. rewrite Hx. auto.
    + apply has_val_true in Hv as [x Hx]. rewrite Hx. destruct (o_kind o); auto.
  - (* timeout *)
    unfold step_timeout. destruct (lookup k (objs a)) as [o|] eqn:Ho; simpl; auto.
    destruct (kind_timed (o_kind o)) eqn:Hkt; simpl; auto.
    destruct (o_sig o) eqn:Hsg; simpl; auto.
    pose proof (timeout_fires a k o HI Ho Hkt Hsg) as H. unfold step_timeout in H. rewrite Ho, Hkt, Hsg in H. simpl in H.
    match goal with |- bad (r_res (snd ?X)) = false => destruct X as [a' out] end.
    destruct H as (E & _). simpl. rewrite E. reflexivity.
  - unfold step_mk. destruct (negb (is_side a h (kind_side KSendFut)) || negb (fresh a f)); auto.
  - unfold step_mk. destruct (negb (is_side a h (kind_side KRecvFut)) || negb (fresh a f)); auto.
  - unfold step_mk. destruct (negb (is_side a h (kind_side KStream)) || negb (fresh a f)); auto.
  - (* poll *)
    unfold step_poll. destruct (lookup f (objs a)) as [o|] eqn:Ho; simpl; auto.
    destruct (o_kind o) eqn:Hk; simpl; auto.
    + pose proof (poll_send_nohang a f o w HI Ho Hk) as H.
      destruct (poll_send a f o w) as [[[a1 p] ds] ws]. simpl in *. destruct p; auto. congruence.
    + destruct (poll_recv_result a f o w HI Ho (or_introl Hk)) as (H & _).
      destruct (poll_recv a f o w) as [[[a1 p] ds] ws]. simpl in *. destruct p; auto. congruence.
    + destruct (o_term o); simpl; auto.
      destruct (poll_recv_result a f o w HI Ho (or_intror Hk)) as (H1 & H2 & H3). specialize (H3 Hk).
      destruct (poll_recv a f o w) as [[[a1 p] ds] ws]. simpl in *. destruct p; simpl; auto; congruence.
  - (* drop future *)
    unfold step_drop_fut. destruct (lookup f (objs a)) as [o|] eqn:Ho; simpl; auto.
    destruct (kind_async (o_kind o)) eqn:Hka; simpl; auto.
    pose proof (drop_future_spec a f o HI Ho Hka) as H. unfold step_drop_fut in H. rewrite Ho, Hka in H. simpl in H.
    match goal with |- bad (r_res (snd ?X)) = false => destruct X as [a' out] end.
    destruct H as (E & _). simpl. rewrite E. reflexivity.
  - unfold step_stream_term. destruct (lookup f (objs a)) as [o|]; simpl; auto. destruct (o_kind o); auto.
Qed.

Corollary no_hang_reachable b cap ls l :
  bad (r_res (snd (astep (fst (arun (init b cap) ls)) l))) = false.
Proof. apply astep_no_hang. apply reachable_inv. Qed.

(* the only panics are the documented ones *)
Definition documented_panic (a : aconf) (l : label) : Prop :=
  match l with
  | LSendOptTimeout _ _ None | LTrySendOpt _ None | LTrySendOptRT _ None _ => True
  | LPoll f _ => exists o, lookup f (objs a) = Some o /\ o_fst o = FDone /\ (o_kind o = KSendFut \/ o_kind o = KRecvFut)
  | _ => False
  end.

Theorem panic_only_documented a l : Inv a -> r_res (snd (astep a l)) = RPanic -> documented_panic a l.
Proof.
  intros HI. pose proof HI as (HO & _ & _).
  destruct l; simpl astep; simpl documented_panic; auto.
  - unfold step_clone. destruct (handle_side a h) as [s|]; simpl; try discriminate. destruct (handle_side a h'); simpl; discriminate.
  - unfold step_drop_handle. destruct (handle_side a h) as [s|]; simpl; try discriminate. destruct (borrowed a h); simpl; try discriminate.
    match goal with |- context [let '(a1, ws) := ?X in _] => destruct X as [a1 ws] end.
    destruct (remove_key h (handles a)); simpl; discriminate.
  - unfold step_close. destruct (handle_side a h); simpl; try discriminate.
    destruct (N.eqb (recv_count (ch a)) 0 && N.eqb (send_count (ch a)) 0); simpl; try discriminate.
    destruct (terminate_signals _); simpl; discriminate.
  - unfold step_obs. destruct (handle_side a h) as [s|]; simpl; try discriminate. destruct o; simpl; try discriminate. destruct s; discriminate.
  - unfold step_send_like. destruct (negb (is_side a h SSend) || negb (fresh a k)); simpl; try discriminate.
    destruct (cs_send a x); simpl; discriminate.
  - unfold step_send_like. destruct (negb (is_side a h SSend) || negb (fresh a k)); simpl; try discriminate.
    destruct (cs_send a x); simpl; discriminate.
  - destruct x; auto. unfold step_send_like. destruct (negb (is_side a h SSend) || negb (fresh a k)); simpl; try discriminate.
    destruct (cs_send a t); simpl; discriminate.
  - unfold step_try_send. destruct (negb (is_side a h SSend)); simpl; try discriminate. destruct (cs_send a x); simpl; discriminate.
  - destruct x; auto. unfold step_try_send. destruct (negb (is_side a h SSend)); simpl; try discriminate. destruct (cs_send a t); simpl; discriminate.
  - destruct busy; [destruct (is_side a h SSend); discriminate|].
    unfold step_try_send. destruct (negb (is_side a h SSend)); simpl; try discriminate. destruct (cs_send a x); simpl; discriminate.
  - destruct x; auto. destruct busy; [destruct (is_side a h SSend); discriminate|].
    unfold step_try_send. destruct (negb (is_side a h SSend)); simpl; try discriminate. destruct (cs_send a t); simpl; discriminate.
  - unfold step_recv_like. destruct (negb (is_side a h SRecv) || negb (fresh a k)); simpl; try discriminate.
    destruct (cs_recv a) as [|v a1 ws|a1|]; simpl; try discriminate.
    destruct (N.eqb (send_count (ch a1)) 0); simpl; discriminate.
  - unfold step_recv_like. destruct (negb (is_side a h SRecv) || negb (fresh a k)); simpl; try discriminate.
    destruct (cs_recv a) as [|v a1 ws|a1|]; simpl; try discriminate.
    destruct early; simpl; try discriminate. destruct (N.eqb (send_count (ch a1)) 0); simpl; discriminate.
  - unfold step_try_recv. destruct (negb (is_side a h SRecv)); simpl; try discriminate.
    destruct (cs_recv a) as [|v a1 ws|a1|]; simpl; try discriminate. destruct (N.eqb (send_count (ch a1)) 0); simpl; discriminate.
  - destruct busy; [destruct (is_side a h SRecv); discriminate|].
    unfold step_try_recv. destruct (negb (is_side a h SRecv)); simpl; try discriminate.
    destruct (cs_recv a) as [|v a1 ws|a1|]; simpl; try discriminate. destruct (N.eqb (send_count (ch a1)) 0); simpl; discriminate.
  - unfold step_drain. destruct (negb (is_side a h SRecv)); simpl; try discriminate.
    destruct (N.eqb (recv_count (ch a)) 0); simpl; try discriminate.
    destruct (drain_senders _ _ _) as [[[[ys c2] os2] ws]|]; simpl; discriminate.
  - unfold step_complete. destruct (lookup k (objs a)) as [o|]; simpl; try discriminate.
    destruct (kind_async (o_kind o)); simpl; try discriminate.
    destruct (o_sig o), (kind_side (o_kind o)); simpl; try discriminate; destruct (o_val o); simpl; try discriminate;
      destruct (o_kind o); simpl; discriminate.
  - unfold step_timeout. destruct (lookup k (objs a)) as [o|]; simpl; try discriminate.
    destruct (negb (kind_timed (o_kind o))); simpl; try discriminate. destruct (o_sig o); simpl; try discriminate.
    destruct (kind_side (o_kind o)).
    + destruct (cancel_send_signal (ch a) k) as [[|] c1]; simpl; try discriminate. destruct (o_kind o), (o_val o); simpl; discriminate.
    + destruct (cancel_recv_signal (ch a) k) as [[|] c1]; simpl; try discriminate. destruct (o_kind o), (o_val o); simpl; discriminate.
  - unfold step_mk. destruct (negb (is_side a h (kind_side KSendFut)) || negb (fresh a f)); discriminate.
  - unfold step_mk. destruct (negb (is_side a h (kind_side KRecvFut)) || negb (fresh a f)); discriminate.
  - unfold step_mk. destruct (negb (is_side a h (kind_side KStream)) || negb (fresh a f)); discriminate.
  - unfold step_poll. destruct (lookup f (objs a)) as [o|] eqn:Ho; simpl; try discriminate.
    destruct (o_kind o) eqn:Hk; simpl; try discriminate.
    + intros H. exists o. split; auto.
      destruct (poll_send a f o w) as [[[a1 p] ds] ws] eqn:E. simpl in H. destruct p; try discriminate.
      unfold poll_send in E. destruct (o_fst o) eqn:Hf; auto.
      * destruct (o_val o) as [x|]; [destruct (cs_send a x)|]; discriminate.
      * destruct (o_sig o); try discriminate.
        -- destruct (match o_waker o with Some w' => N.eqb w' w | None => false end); try discriminate.
           destruct (send_signal_exists (ch a) f); discriminate.
        -- destruct (o_val o); discriminate.
    + intros H. exists o. split; auto.
      destruct (poll_recv a f o w) as [[[a1 p] ds] ws] eqn:E. simpl in H. destruct p; try discriminate.
      unfold poll_recv in E. destruct (o_fst o) eqn:Hf; auto.
      * unfold poll_recv_zero in E. destruct (cs_recv a) as [|v a2 ws2|a2|]; try discriminate.
        destruct (N.eqb (send_count (ch a2)) 0); simpl; discriminate.
      * destruct (o_sig o); try discriminate.
        -- destruct (match o_waker o with Some w' => N.eqb w' w | None => false end); try discriminate.
           destruct (recv_signal_exists (ch a) f); discriminate.
        -- destruct (o_val o); discriminate.
    + destruct (o_term o); simpl; try discriminate.
      destruct (poll_recv a f o w) as [[[a1 p] ds] ws]. simpl. destruct p; simpl; try discriminate.
      all: try (destruct (lookup f (objs a1)); discriminate).
  - unfold step_drop_fut. destruct (lookup f (objs a)) as [o|]; simpl; try discriminate.
    destruct (negb (kind_async (o_kind o))); simpl; try discriminate.
    destruct (kind_side (o_kind o)), (o_fst o); simpl; try discriminate.
    + destruct (cancel_send_signal (ch a) f) as [[|] c1]; simpl; try discriminate. destruct (o_sig o); discriminate.
    + destruct (cancel_recv_signal (ch a) f) as [[|] c1]; simpl; try discriminate. destruct (o_sig o); discriminate.
  - unfold step_stream_term. destruct (lookup f (objs a)) as [o|]; simpl; try discriminate. destruct (o_kind o); discriminate.
Qed.
