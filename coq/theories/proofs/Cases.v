(* Cases.v - characterising lemmas: under the invariant, each critical section
   of Atomic.v is exactly one of a few named cases.  Later proofs (invariant,
   ledger, order, reference simulation) go by these cases, never by unfolding. *)
From KV Require Import Base Chan Atomic.
From KV.proofs Require Import Assoc Inv.
From Coq Require Import ZifyN ZifyBool ZifyNat.

Definition fin_deliver (o : obj) (x : tag) : obj := set_sig (set_val o (Some x)) SOk.
Definition fin_take (o : obj) : obj := set_sig (set_val o None) SOk.
Definition fin_term (o : obj) : obj := set_sig o STerm.

(* the flag after a next_recv / next_send that found nobody *)
Definition no_recv (c c1 : chan) : Prop :=
  (recv_blocking c = false /\ c1 = c) \/
  (recv_blocking c = true /\ wait_list c = [] /\ c1 = set_flag c false).
Definition no_send (c c1 : chan) : Prop :=
  (recv_blocking c = true /\ c1 = c) \/
  (recv_blocking c = false /\ wait_list c = [] /\ c1 = set_flag c true).

Lemma head_listed a k r :
  Inv a -> wait_list (ch a) = k :: r ->
  exists o, lookup k (objs a) = Some o /\ o_fst o = FWaiting /\ o_sig o = SLocked /\
            recv_blocking (ch a) = negb (is_send o) /\ has_val o = is_send o.
Proof.
  intros (HO & _ & _) E. destruct HO as [K W L O B].
  destruct (L k) as [o Ho]; [rewrite E; left; reflexivity|].
  exists o. split; [exact Ho|].
  specialize (O k o Ho). rewrite E, mem_cons_eq in O. apply okb_listed in O. tauto.
Qed.

(* ---------------- next_recv / next_send ---------------- *)
Lemma next_recv_case c :
  (exists k r, recv_blocking c = true /\ wait_list c = k :: r /\ next_recv c = (Some k, set_wait c r)) \/
  (exists c1, no_recv c c1 /\ next_recv c = (None, c1)).
Proof.
  unfold next_recv, no_recv. destruct (recv_blocking c) eqn:F; simpl.
  - destruct (wait_list c) as [|k r] eqn:W.
    + right. eexists. split; [right; eauto|reflexivity].
    + left. exists k, r. auto.
  - right. exists c. auto.
Qed.

Lemma next_send_case c :
  (exists k r, recv_blocking c = false /\ wait_list c = k :: r /\ next_send c = (Some k, set_wait c r)) \/
  (exists c1, no_send c c1 /\ next_send c = (None, c1)).
Proof.
  unfold next_send, no_send. destruct (recv_blocking c) eqn:F; simpl.
  - right. exists c. auto.
  - destruct (wait_list c) as [|k r] eqn:W.
    + right. eexists. split; [right; eauto|reflexivity].
    + left. exists k, r. auto.
Qed.

(* ---------------- cs_send ---------------- *)
Inductive send_case (a : aconf) (x : tag) : send_cs -> Prop :=
| sc_err :
    recv_count (ch a) = 0%N ->
    send_case a x (SCErr (if N.eqb (send_count (ch a)) 0 then EClosed else ERecvClosed))
| sc_deliver k r o :
    recv_count (ch a) <> 0%N -> recv_blocking (ch a) = true -> wait_list (ch a) = k :: r ->
    lookup k (objs a) = Some o -> is_send o = false -> o_val o = None ->
    send_case a x (SCSent (mkConf (set_wait (ch a) r) (update k (fin_deliver o x) (objs a)) (handles a)) (wake_of o))
| sc_buffer c1 :
    recv_count (ch a) <> 0%N -> no_recv (ch a) c1 -> (len (queue c1) < capacity c1)%N ->
    send_case a x (SCSent (mkConf (set_queue c1 (queue c1 ++ [x])) (objs a) (handles a)) [])
| sc_full c1 :
    recv_count (ch a) <> 0%N -> no_recv (ch a) c1 -> (capacity c1 <= len (queue c1))%N ->
    send_case a x (SCFull (mkConf c1 (objs a) (handles a))).

Lemma has_val_false o : has_val o = false -> o_val o = None.
Proof. unfold has_val. destruct (o_val o); congruence. Qed.
Lemma has_val_true o : has_val o = true -> exists v, o_val o = Some v.
Proof. unfold has_val. destruct (o_val o); [eauto|congruence]. Qed.

Lemma cs_send_case a x : Inv a -> send_case a x (cs_send a x).
Proof.
  intros HI. unfold cs_send.
  destruct (N.eqb_spec (recv_count (ch a)) 0) as [E0|N0]; [apply sc_err; exact E0|].
  destruct (next_recv_case (ch a)) as [(k & r & F & W & ->)|(c1 & Hn & ->)].
  - destruct (head_listed a k r HI W) as (o & Ho & _ & _ & Hf & Hv).
    rewrite F in Hf. unfold sig_deliver. rewrite Ho.
    assert (Hs : is_send o = false) by (destruct (is_send o); simpl in Hf; congruence).
    rewrite Hs in Hv. apply has_val_false in Hv.
    eapply sc_deliver; eauto.
  - destruct (N.ltb_spec (len (queue c1)) (capacity c1)).
    + apply sc_buffer; auto.
    + apply sc_full; auto.
Qed.

(* ---------------- cs_recv ---------------- *)
Inductive recv_case (a : aconf) : recv_cs -> Prop :=
| rc_closed : recv_count (ch a) = 0%N -> recv_case a RCClosed
| rc_refill v q k r o y :
    recv_count (ch a) <> 0%N -> queue (ch a) = v :: q ->
    recv_blocking (ch a) = false -> wait_list (ch a) = k :: r ->
    lookup k (objs a) = Some o -> is_send o = true -> o_val o = Some y ->
    recv_case a (RCGot v (mkConf (set_queue (set_wait (set_queue (ch a) q) r) (q ++ [y]))
                                 (update k (fin_take o) (objs a)) (handles a)) (wake_of o))
| rc_pop v q c1 :
    recv_count (ch a) <> 0%N -> queue (ch a) = v :: q -> no_send (set_queue (ch a) q) c1 ->
    recv_case a (RCGot v (mkConf c1 (objs a) (handles a)) [])
| rc_direct k r o y :
    recv_count (ch a) <> 0%N -> queue (ch a) = [] ->
    recv_blocking (ch a) = false -> wait_list (ch a) = k :: r ->
    lookup k (objs a) = Some o -> is_send o = true -> o_val o = Some y ->
    recv_case a (RCGot y (mkConf (set_wait (ch a) r) (update k (fin_take o) (objs a)) (handles a)) (wake_of o))
| rc_none c1 :
    recv_count (ch a) <> 0%N -> queue (ch a) = [] -> no_send (ch a) c1 ->
    recv_case a (RCNone (mkConf c1 (objs a) (handles a))).

Lemma cs_recv_case a : Inv a -> recv_case a (cs_recv a).
Proof.
  intros HI. unfold cs_recv.
  destruct (N.eqb_spec (recv_count (ch a)) 0) as [E0|N0]; [apply rc_closed; exact E0|].
  destruct (queue (ch a)) as [|v q] eqn:Q.
  - destruct (next_send_case (ch a)) as [(k & r & F & W & ->)|(c1 & Hn & ->)].
    + destruct (head_listed a k r HI W) as (o & Ho & _ & _ & Hf & Hv).
      rewrite F in Hf.
      assert (Hs : is_send o = true) by (destruct (is_send o); simpl in Hf; congruence).
      rewrite Hs in Hv. apply has_val_true in Hv as [y Hy].
      unfold sig_take. rewrite Ho, Hy. eapply rc_direct; eauto.
    + apply rc_none; auto.
  - destruct (next_send_case (set_queue (ch a) q)) as [(k & r & F & W & ->)|(c1 & Hn & ->)].
    + simpl in F, W.
      destruct (head_listed a k r HI W) as (o & Ho & _ & _ & Hf & Hv).
      rewrite F in Hf.
      assert (Hs : is_send o = true) by (destruct (is_send o); simpl in Hf; congruence).
      rewrite Hs in Hv. apply has_val_true in Hv as [y Hy].
      unfold sig_take. rewrite Ho, Hy. eapply rc_refill; eauto.
    + eapply rc_pop; eauto.
Qed.
