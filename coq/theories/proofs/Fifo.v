(* Fifo.v - C02: messages leave the channel in the order they entered it.
   `pending a` is the channel's order of waiting values: the buffer, then the values of the
   blocked / pending senders in wait-list order.  Every step either leaves it alone (or deletes
   from it: cancelled, timed-out, terminated waiters, close), appends the entering value at its
   END, or takes values from its FRONT.  Hence, over any execution, the sequence of values taken
   followed by what is still pending is an order-preserving subsequence of the sequence of values
   entered: no value overtakes another. *)
From KV Require Import Base Chan Atomic.
From KV.proofs Require Import Assoc Inv Cases StepInv Ledger.
From Coq Require Import ZifyN ZifyBool ZifyNat.

(* ---------- order-preserving subsequences ---------- *)
Inductive Subseq {A} : list A -> list A -> Prop :=
| ss_nil : Subseq [] []
| ss_skip x l1 l2 : Subseq l1 l2 -> Subseq l1 (x :: l2)
| ss_take x l1 l2 : Subseq l1 l2 -> Subseq (x :: l1) (x :: l2).

Lemma ss_refl {A} (l : list A) : Subseq l l.
Proof. induction l; [apply ss_nil|apply ss_take; auto]. Qed.

Lemma ss_nil_l {A} (l : list A) : Subseq [] l.
Proof. induction l; constructor; auto. Qed.

Lemma ss_trans {A} (l1 l2 l3 : list A) : Subseq l1 l2 -> Subseq l2 l3 -> Subseq l1 l3.
Proof.
  intros H12 H23. revert l1 H12. induction H23 as [|x l2 l3 H IH|x l2 l3 H IH]; intros l1 H12.
  - exact H12.
  - constructor. apply IH. exact H12.
  - inversion H12 as [|y m1 m2 Hm|y m1 m2 Hm]; subst.
    + constructor. apply IH. exact Hm.
    + apply ss_take. apply IH. exact Hm.
Qed.

Lemma ss_app {A} (a1 a2 b1 b2 : list A) : Subseq a1 a2 -> Subseq b1 b2 -> Subseq (a1 ++ b1) (a2 ++ b2).
Proof. intros H1 H2. induction H1; simpl; [exact H2|apply ss_skip; auto|apply ss_take; auto]. Qed.

Lemma ss_app_l {A} (l1 l2 : list A) : Subseq l1 (l1 ++ l2).
Proof. rewrite <- (app_nil_r l1) at 1. apply ss_app; [apply ss_refl|apply ss_nil_l]. Qed.

Lemma ss_app_r {A} (l1 l2 : list A) : Subseq l2 (l1 ++ l2).
Proof. change l2 with ([] ++ l2) at 1. apply ss_app; [apply ss_nil_l|apply ss_refl]. Qed.

Lemma ss_in {A} (l1 l2 : list A) x : Subseq l1 l2 -> In x l1 -> In x l2.
Proof. intros H. induction H; simpl; intros Hin; auto. destruct Hin; auto. Qed.

(* ---------- the pending sequence ---------- *)
Definition kval (os : list (id * obj)) (k : id) : list tag :=
  match lookup k os with Some o => oval o | None => [] end.
Definition listed_vals (os : list (id * obj)) (wl : list id) : list tag := flat_map (kval os) wl.

Definition pending (a : aconf) : list tag :=
  queue (ch a) ++ (if recv_blocking (ch a) then [] else listed_vals (objs a) (wait_list (ch a))).

(* how one step may change it, with E the values entering and T the values taken *)
Inductive fifo_step (p p' E T : list tag) : Prop :=
| fs_keep : E = [] -> T = [] -> Subseq p' p -> fifo_step p p' E T
| fs_enter x : E = [x] -> T = [] -> p' = p ++ [x] -> fifo_step p p' E T
| fs_take : E = [] -> T ++ p' = p -> fifo_step p p' E T
| fs_direct x : E = [x] -> T = [x] -> p = [] -> p' = [] -> fifo_step p p' E T.

Lemma fifo_step_preserves p p' E T D A :
  fifo_step p p' E T -> Subseq (D ++ p) A -> Subseq ((D ++ T) ++ p') (A ++ E).
Proof.
  intros [-> -> Hs| x -> -> -> | -> <- | x -> -> -> ->] H.
  - rewrite !app_nil_r. eapply ss_trans; [|exact H]. apply ss_app; [apply ss_refl|exact Hs].
  - rewrite app_nil_r, app_assoc. apply ss_app; [exact H|apply ss_refl].
  - rewrite app_nil_r, <- app_assoc. exact H.
  - rewrite !app_nil_r in *. apply ss_app; [exact H|apply ss_refl].
Qed.

(* ---------- listed_vals under the movers ---------- *)
Lemma listed_vals_ext os os' wl :
  (forall k, In k wl -> lookup k os' = lookup k os) -> listed_vals os' wl = listed_vals os wl.
Proof.
  intros H. unfold listed_vals. induction wl as [|k r IH]; simpl; auto.
  unfold kval at 1 3. rewrite (H k) by (left; reflexivity). f_equal. apply IH. intros k' Hk. apply H. right. exact Hk.
Qed.

Lemma listed_vals_update_other os wl k o :
  ~ In k wl -> listed_vals (update k o os) wl = listed_vals os wl.
Proof. intros Hn. apply listed_vals_ext. intros k' Hk. apply lookup_update_neq. intros ->. tauto. Qed.

Lemma listed_vals_cons_other os wl k o :
  ~ In k wl -> listed_vals ((k, o) :: os) wl = listed_vals os wl.
Proof.
  intros Hn. apply listed_vals_ext. intros k' Hk. rewrite lookup_cons.
  destruct (N.eqb_spec k' k) as [->|]; [tauto|reflexivity].
Qed.

Lemma listed_vals_remove_other os wl k :
  ~ In k wl -> listed_vals (remove_key k os) wl = listed_vals os wl.
Proof. intros Hn. apply listed_vals_ext. intros k' Hk. apply lookup_remove_neq. intros ->. tauto. Qed.

Lemma listed_vals_app os l1 l2 : listed_vals os (l1 ++ l2) = listed_vals os l1 ++ listed_vals os l2.
Proof. unfold listed_vals. apply flat_map_app. Qed.

Lemma listed_vals_same_oval os wl k o o' :
  lookup k os = Some o -> oval o' = oval o -> listed_vals (update k o' os) wl = listed_vals os wl.
Proof.
  intros Ho Hv. unfold listed_vals. induction wl as [|k' r IH]; simpl; auto. rewrite IH. f_equal.
  unfold kval. rewrite lookup_update. destruct (N.eqb_spec k' k) as [->|]; auto. rewrite Ho. exact Hv.
Qed.

(* cancelling a listed waiter deletes its value from the sequence *)
Lemma listed_vals_cancel os wl k :
  NoDup wl -> Subseq (listed_vals (remove_key k os) (remove_first k wl)) (listed_vals os wl).
Proof.
  intros Hd. destruct (in_dec N.eq_dec k wl) as [Hin|Hn].
  - destruct (remove_first_split k wl Hin) as (l1 & l2 & -> & Hn1 & ->).
    assert (Hn2 : ~ In k l2).
    { apply NoDup_remove_2 in Hd. intros H. apply Hd. apply in_or_app. right. exact H. }
    rewrite !listed_vals_app. simpl.
    rewrite !listed_vals_remove_other by assumption.
    apply ss_app; [apply ss_refl|]. apply ss_app_r.
  - assert (E : remove_first k wl = wl).
    { clear Hd. induction wl as [|y r IH]; simpl; auto. destruct (N.eqb_spec k y) as [->|]; [exfalso; apply Hn; left; reflexivity|].
      f_equal. apply IH. intros H. apply Hn. right. exact H. }
    rewrite E, listed_vals_remove_other by exact Hn. apply ss_refl.
Qed.

(* ---------- what enters and what is taken at each step ---------- *)
Definition nonempty {A} (l : list A) : bool := match l with [] => false | _ => true end.

(* a send whose critical section accepts the value: it enters; it is also taken at once when
   it is handed to a waiting receiver.  `registers`: a full channel makes this call wait in line *)
Definition send_et (a : aconf) (x : tag) (registers : bool) : list tag * list tag :=
  match cs_send a x with
  | SCErr _ => ([], [])
  | SCSent _ _ => ([x], if recv_blocking (ch a) && nonempty (wait_list (ch a)) then [x] else [])
  | SCFull _ => (if registers then [x] else [], [])
  end.

Definition recv_t (a : aconf) : list tag := match cs_recv a with RCGot v _ _ => [v] | _ => [] end.

Definition et (a : aconf) (l : label) : list tag * list tag :=
  match l with
  | LSend k h x | LSendTimeout k h x | LSendOptTimeout k h (Some x) =>
      if is_side a h SSend && fresh a k then send_et a x true else ([], [])
  | LTrySend h x | LTrySendOpt h (Some x) => if is_side a h SSend then send_et a x false else ([], [])
  | LTrySendRT h x busy | LTrySendOptRT h (Some x) busy =>
      if busy then ([], []) else if is_side a h SSend then send_et a x false else ([], [])
  | LRecv k h | LRecvTimeout k h _ => if is_side a h SRecv && fresh a k then ([], recv_t a) else ([], [])
  | LTryRecv h => if is_side a h SRecv then ([], recv_t a) else ([], [])
  | LTryRecvRT h busy => if busy then ([], []) else if is_side a h SRecv then ([], recv_t a) else ([], [])
  | LDrain h =>
      if is_side a h SRecv && negb (N.eqb (recv_count (ch a)) 0) then ([], pending a) else ([], [])
  | LPoll f w =>
      match lookup f (objs a) with
      | Some o =>
          match o_kind o, o_fst o with
          | KSendFut, FZero => match o_val o with Some x => send_et a x true | None => ([], []) end
          | KRecvFut, FZero => ([], recv_t a)
          | KStream, FZero | KStream, FDone => if o_term o then ([], []) else ([], recv_t a)
          | _, _ => ([], [])
          end
      | None => ([], [])
      end
  | _ => ([], [])
  end.

(* ---------- the critical sections ---------- *)
Lemma pending_unlisted a : wait_list (ch a) = [] -> pending a = queue (ch a).
Proof. intros W. unfold pending. rewrite W. destruct (recv_blocking (ch a)); simpl; apply app_nil_r. Qed.

Lemma send_case_fifo a x r :
  Inv a -> send_case a x r ->
  match r with
  | SCErr _ => True
  | SCSent a1 _ =>
      fifo_step (pending a) (pending a1) [x] (if recv_blocking (ch a) && nonempty (wait_list (ch a)) then [x] else [])
  | SCFull a1 => pending a1 = pending a /\ recv_blocking (ch a1) = false
  end.
Proof.
  intros HI Hc. pose proof HI as (HO & HQ & HC).
  destruct Hc as [E0|k r0 o N0 F W Ho Hs Hv|c1 N0 Hn Hl|c1 N0 Hn Hl]; auto.
  - (* deliver: receivers are listed, so nothing is pending before or after *)
    rewrite F, W. simpl. apply fs_direct with (x := x); auto.
    + unfold pending. rewrite F, app_nil_r. apply (i_rempty _ HQ F). rewrite W. discriminate.
    + unfold pending. simpl. rewrite F, app_nil_r. apply (i_rempty _ HQ F). rewrite W. discriminate.
  - (* buffer: nobody is listed *)
    destruct (no_recv_inv a c1 HI Hn) as (HI1 & F1 & Q1 & W1 & C1 & R1 & S1).
    assert (W0 : wait_list (ch a) = []).
    { destruct (wait_list (ch a)) eqn:E; auto. exfalso. destruct Hn as [[F _]|(_ & W & _)]; [|congruence].
      pose proof (i_sfull _ HQ F) as Sf. rewrite E in Sf. specialize (Sf ltac:(discriminate)).
      rewrite Q1, C1 in Hl. lia. }
    rewrite W0, andb_false_r. apply fs_enter with (x := x); auto.
    rewrite (pending_unlisted a W0). unfold pending. simpl. rewrite W1, W0, Q1.
    destruct (recv_blocking c1); simpl; rewrite app_nil_r; reflexivity.
  - destruct (no_recv_inv a c1 HI Hn) as (HI1 & F1 & Q1 & W1 & C1 & R1 & S1).
    split; [|exact F1]. unfold pending. simpl. rewrite F1, Q1, W1.
    destruct Hn as [[F _]|(F & W & _)]; rewrite F; [reflexivity|]. rewrite W. reflexivity.
Qed.

Lemma kval_head os k o : lookup k os = Some o -> kval os k = oval o.
Proof. intros H. unfold kval. rewrite H. reflexivity. Qed.

Lemma recv_case_fifo a r :
  Inv a -> recv_case a r ->
  match r with
  | RCGot v a1 _ => [v] ++ pending a1 = pending a
  | RCNone a1 => pending a1 = pending a
  | _ => True
  end.
Proof.
  intros HI Hc. pose proof HI as (HO & HQ & HC).
  destruct Hc as [E0|v q k r0 o y N0 Q F W Ho Hs Hv|v q c1 N0 Q Hn|k r0 o y N0 Q F W Ho Hs Hv|c1 N0 Q Hn]; auto.
  - (* refill *)
    assert (Hni : ~ In k r0) by (pose proof (i_wl _ _ _ _ HO) as Hd; rewrite W in Hd; inversion Hd; auto).
    unfold pending. simpl. rewrite F, Q, W. simpl.
    rewrite (kval_head _ _ _ Ho). unfold oval. rewrite Hv.
    rewrite listed_vals_update_other by exact Hni. rewrite <- !app_assoc. reflexivity.
  - (* pop *)
    unfold pending at 2. rewrite Q.
    destruct Hn as [[F ->]|(F & W & ->)]; unfold pending; simpl in *; rewrite F; simpl.
    + rewrite !app_nil_r. reflexivity.
    + rewrite W. simpl. rewrite !app_nil_r. reflexivity.
  - (* direct *)
    assert (Hni : ~ In k r0) by (pose proof (i_wl _ _ _ _ HO) as Hd; rewrite W in Hd; inversion Hd; auto).
    unfold pending. simpl. rewrite F, Q, W. simpl.
    rewrite (kval_head _ _ _ Ho). unfold oval. rewrite Hv.
    rewrite listed_vals_update_other by exact Hni. reflexivity.
  - unfold pending. rewrite Q.
    destruct Hn as [[F ->]|(F & W & ->)]; simpl; rewrite ?F, ?Q; auto. rewrite W. reflexivity.
Qed.

(* registering a sender with value x at the tail of the list appends x *)
Lemma pending_register_new a k o x :
  Inv a -> lookup k (objs a) = None -> recv_blocking (ch a) = false -> oval o = [x] ->
  pending (add_obj a k o) = pending a ++ [x].
Proof.
  intros (HO & _ & _) Hk F Hv. unfold pending, add_obj, push_wait. simpl. rewrite F.
  assert (Hni : ~ In k (wait_list (ch a))).
  { intros Hin. destruct (i_listed _ _ _ _ HO k Hin) as [o1 E]. congruence. }
  rewrite listed_vals_app. simpl. unfold kval. rewrite lookup_cons, N.eqb_refl, Hv.
  rewrite listed_vals_cons_other by exact Hni. rewrite app_nil_r, app_assoc. reflexivity.
Qed.

Lemma pending_register_old a f o o' x :
  Inv a -> lookup f (objs a) = Some o -> ~ In f (wait_list (ch a)) -> recv_blocking (ch a) = false -> oval o' = [x] ->
  pending (with_ch (put a f o') (push_wait (ch (put a f o')) f)) = pending a ++ [x].
Proof.
  intros (HO & _ & _) Ho Hni F Hv. unfold pending, put, with_ch, with_objs, push_wait. simpl. rewrite F.
  rewrite listed_vals_app. simpl. unfold kval.
  rewrite lookup_update_eq by (eapply lookup_in; eauto). rewrite Hv.
  rewrite listed_vals_update_other by exact Hni. rewrite app_nil_r, app_assoc. reflexivity.
Qed.

(* an unlisted object changes or disappears: the sequence does not notice *)
Lemma pending_put_unlisted a f o' : ~ In f (wait_list (ch a)) -> pending (put a f o') = pending a.
Proof. intros Hni. unfold pending, put. simpl. rewrite listed_vals_update_other by exact Hni. reflexivity. Qed.

Lemma pending_put_same a f o o' : lookup f (objs a) = Some o -> oval o' = oval o -> pending (put a f o') = pending a.
Proof. intros Ho Hv. unfold pending, put. simpl. rewrite (listed_vals_same_oval _ _ _ _ _ Ho Hv). reflexivity. Qed.

Lemma pending_remove_unlisted a k :
  ~ In k (wait_list (ch a)) -> pending (with_objs a (remove_key k (objs a))) = pending a.
Proof. intros Hni. unfold pending. simpl. rewrite listed_vals_remove_other by exact Hni. reflexivity. Qed.

Lemma pending_cancel a k :
  Inv a ->
  Subseq (pending (mkConf (set_wait (ch a) (remove_first k (wait_list (ch a)))) (remove_key k (objs a)) (handles a))) (pending a).
Proof.
  intros (HO & _ & _). unfold pending. simpl. apply ss_app; [apply ss_refl|].
  destruct (recv_blocking (ch a)); [apply ss_refl|]. apply listed_vals_cancel. apply (i_wl _ _ _ _ HO).
Qed.

Definition fifo_ok (a : aconf) (l : label) : Prop :=
  fifo_step (pending a) (pending (fst (astep a l))) (fst (et a l)) (snd (et a l)).

Lemma keep_same p : fifo_step p p [] [].
Proof. apply fs_keep; auto. apply ss_refl. Qed.

Lemma step_send_like_fifo a k h x kd :
  kind_side kd = SSend -> Inv a ->
  fifo_step (pending a) (pending (fst (step_send_like a k h x kd)))
            (fst (if is_side a h SSend && fresh a k then send_et a x true else ([], [])))
            (snd (if is_side a h SSend && fresh a k then send_et a x true else ([], []))).
Proof.
  intros Hkd HI. unfold step_send_like, send_et.
  destruct (is_side a h SSend) eqn:Hs; simpl; [|apply keep_same].
  destruct (fresh a k) eqn:Hf; simpl; [|apply keep_same].
  pose proof (send_case_fifo a x _ HI (cs_send_case a x HI)) as H.
  pose proof (send_case_inv a x _ HI (cs_send_case a x HI)) as Hi.
  destruct (cs_send a x) as [e|a1 ws|a1]; simpl.
  - apply keep_same.
  - exact H.
  - destruct H as [Hp F1]. destruct Hi as (HI1 & _ & O1 & _).
    apply fs_enter with (x := x); auto. rewrite <- Hp.
    apply pending_register_new; auto.
    rewrite O1. apply fresh_lookup. exact Hf.
Qed.

Lemma step_try_send_fifo a h x opt :
  Inv a ->
  fifo_step (pending a) (pending (fst (step_try_send a h x opt)))
            (fst (if is_side a h SSend then send_et a x false else ([], [])))
            (snd (if is_side a h SSend then send_et a x false else ([], []))).
Proof.
  intros HI. unfold step_try_send, send_et.
  destruct (is_side a h SSend) eqn:Hs; simpl; [|apply keep_same].
  pose proof (send_case_fifo a x _ HI (cs_send_case a x HI)) as H.
  destruct (cs_send a x) as [e|a1 ws|a1]; simpl.
  - apply keep_same.
  - exact H.
  - destruct H as [Hp _]. rewrite Hp. apply keep_same.
Qed.

Lemma recv_register_pending (a1 : aconf) k o :
  Inv a1 -> recv_blocking (ch a1) = true -> pending (add_obj a1 k o) = pending a1.
Proof. intros _ F. unfold pending, add_obj, push_wait. simpl. rewrite F. reflexivity. Qed.

Lemma step_recv_like_fifo a k h timed early :
  Inv a ->
  fifo_step (pending a) (pending (fst (step_recv_like a k h timed early)))
            (fst (if is_side a h SRecv && fresh a k then ([], recv_t a) else (@nil tag, [])))
            (snd (if is_side a h SRecv && fresh a k then ([], recv_t a) else (@nil tag, []))).
Proof.
  intros HI. unfold step_recv_like, recv_t.
  destruct (is_side a h SRecv) eqn:Hs; simpl; [|apply keep_same].
  destruct (fresh a k) eqn:Hf; simpl; [|apply keep_same].
  pose proof (recv_case_fifo a _ HI (cs_recv_case a HI)) as H.
  pose proof (recv_case_inv a _ HI (cs_recv_case a HI)) as Hi.
  destruct (cs_recv a) as [|v a1 ws|a1|]; simpl; try apply keep_same.
  - apply fs_take; auto.
  - destruct Hi as (HI1 & F1 & _).
    destruct (timed && early); simpl; [rewrite H; apply keep_same|].
    destruct (N.eqb (send_count (ch a1)) 0); simpl; [rewrite H; apply keep_same|].
    rewrite (recv_register_pending a1 _ _ HI1 F1), H. apply keep_same.
Qed.

Lemma step_try_recv_fifo a h :
  Inv a ->
  fifo_step (pending a) (pending (fst (step_try_recv a h)))
            (fst (if is_side a h SRecv then ([], recv_t a) else (@nil tag, [])))
            (snd (if is_side a h SRecv then ([], recv_t a) else (@nil tag, []))).
Proof.
  intros HI. unfold step_try_recv, recv_t.
  destruct (is_side a h SRecv) eqn:Hs; simpl; [|apply keep_same].
  pose proof (recv_case_fifo a _ HI (cs_recv_case a HI)) as H.
  destruct (cs_recv a) as [|v a1 ws|a1|]; simpl; try apply keep_same.
  - apply fs_take; auto.
  - destruct (N.eqb (send_count (ch a1)) 0); simpl; rewrite H; apply keep_same.
Qed.

(* drain: everything pending is taken, in order *)
Lemma drain_senders_vals n : forall c os ys c2 os2 ws hs,
  InvO (recv_blocking c) (wait_list c) os hs ->
  drain_senders n c os = Some (ys, c2, os2, ws) ->
  ys = (if recv_blocking c then [] else listed_vals os (wait_list c)) /\
  (if recv_blocking c2 then [] else listed_vals os2 (wait_list c2)) = [].
Proof.
  induction n as [|n IH]; intros c os ys c2 os2 ws hs HO E; [discriminate|].
  unfold drain_senders in E; fold drain_senders in E.
  destruct (next_send_case c) as [(k & r & F & W & En)|(c1 & Hns & En)]; rewrite En in E.
  - rewrite W in HO.
    destruct (i_listed _ _ _ _ HO k ltac:(left; reflexivity)) as [o Ho].
    pose proof (i_obj _ _ _ _ HO k o Ho) as Hok. rewrite mem_cons_eq in Hok.
    apply okb_listed in Hok as (Hf & _ & Hfl & Hv). rewrite F in Hfl.
    assert (Hs : is_send o = true) by (destruct (is_send o); simpl in Hfl; congruence).
    rewrite Hs in Hv. apply has_val_true in Hv as [y Hy].
    unfold sig_take in E. rewrite Ho, Hy in E.
    destruct (drain_senders n (set_wait c r) (update k (set_sig (set_val o None) SOk) os))
      as [[[[ys1 c3] os3] ws3]|] eqn:E1; [|discriminate].
    injection E as <- <- <- <-.
    assert (H1 : InvO (recv_blocking (set_wait c r)) (wait_list (set_wait c r)) (update k (fin_take o) os) hs).
    { simpl. eapply invO_pop; eauto. apply okb_fin_take; auto. }
    destruct (IH _ _ _ _ _ _ _ H1 E1) as [Hy1 Hrest]. simpl in Hy1. rewrite F in *.
    split; [|exact Hrest]. rewrite W. simpl. rewrite (kval_head _ _ _ Ho). unfold oval. rewrite Hy. simpl.
    f_equal. rewrite Hy1. apply listed_vals_update_other.
    pose proof (i_wl _ _ _ _ HO) as Hd. inversion Hd; auto.
  - injection E as <- <- <- <-.
    destruct Hns as [[F ->]|(F & W & ->)]; simpl; rewrite ?F; auto. rewrite W. auto.
Qed.

Local Arguments drain_senders : simpl never.

Lemma step_drain_fifo a h :
  Inv a ->
  fifo_step (pending a) (pending (fst (step_drain a h)))
            (fst (if is_side a h SRecv && negb (N.eqb (recv_count (ch a)) 0) then ([], pending a) else (@nil tag, [])))
            (snd (if is_side a h SRecv && negb (N.eqb (recv_count (ch a)) 0) then ([], pending a) else (@nil tag, []))).
Proof.
  intros HI. unfold step_drain.
  destruct (is_side a h SRecv) eqn:Hs; simpl; [|apply keep_same].
  destruct (N.eqb (recv_count (ch a)) 0) eqn:Hr; simpl; [apply keep_same|].
  destruct HI as (HO & HQ & HC).
  destruct (drain_senders_invO (S (length (wait_list (ch a)))) (set_queue (ch a) []) (objs a) (handles a) HO ltac:(simpl; lia))
    as (ys & c2 & os2 & ws & E & HO2 & F2 & Q2 & _).
  rewrite E. simpl.
  destruct (drain_senders_vals _ (set_queue (ch a) []) _ _ _ _ _ _ HO E) as [Hys Hrest]. simpl in Hys.
  apply fs_take; auto.
  assert (Hp2 : pending {| ch := c2; objs := os2; handles := handles a |} = []).
  { unfold pending. simpl. rewrite Q2, F2. reflexivity. }
  rewrite Hp2. apply app_nil_r.
Qed.

(* ---------- steps that only delete from the sequence ---------- *)
Lemma term_all_listed wl : forall os ks,
  listed_vals (fst (term_all wl os)) ks = listed_vals os ks.
Proof.
  induction wl as [|k r IH]; intros os ks; simpl; auto.
  unfold sig_term. destruct (lookup k os) as [o|] eqn:Ho.
  - specialize (IH (update k (set_sig o STerm) os) ks).
    destruct (term_all r (update k (set_sig o STerm) os)). simpl in *. rewrite IH.
    apply (listed_vals_same_oval _ _ _ _ _ Ho). reflexivity.
  - specialize (IH os ks). destruct (term_all r os). exact IH.
Qed.

Lemma pending_terminate c os hs :
  Subseq (pending (fst (terminate_signals (mkConf c os hs)))) (pending (mkConf c os hs)).
Proof.
  unfold terminate_signals, pending. simpl.
  destruct (term_all (wait_list c) os) as [os2 ws]. simpl.
  apply ss_app; [apply ss_refl|]. destruct (recv_blocking c); [apply ss_refl|apply ss_nil_l].
Qed.

Lemma pending_counts c os hs r s :
  pending (mkConf (set_counts c r s) os hs) = pending (mkConf c os hs).
Proof. reflexivity. Qed.

Lemma step_close_fifo a h : Subseq (pending (fst (step_close a h))) (pending a).
Proof.
  unfold step_close. destruct (handle_side a h); simpl; [|apply ss_refl].
  destruct (N.eqb (recv_count (ch a)) 0 && N.eqb (send_count (ch a)) 0); simpl; [apply ss_refl|].
  unfold terminate_signals. simpl. destruct (term_all (wait_list (ch a)) (objs a)). simpl.
  unfold pending. simpl. destruct (recv_blocking (ch a)); apply ss_nil_l.
Qed.

Lemma step_drop_handle_fifo a h : Subseq (pending (fst (step_drop_handle a h))) (pending a).
Proof.
  unfold step_drop_handle. destruct (handle_side a h) as [s|]; simpl; [|apply ss_refl].
  destruct (borrowed a h); simpl; [apply ss_refl|].
  destruct a as [c os hs]. simpl.
  match goal with |- context [let '(a1, ws) := ?X in _] =>
    assert (HX : Subseq (pending (fst X)) (pending (mkConf c os hs))); [|destruct X as [a1 ws]] end.
  { destruct s;
      repeat match goal with |- context [if ?b then _ else _] => destruct b end;
      simpl; try apply ss_refl;
      match goal with |- context [terminate_signals ?A] =>
        eapply ss_trans; [apply (pending_terminate (ch A) (objs A) (handles A))|apply ss_refl] end. }
  simpl in HX. destruct (remove_key h hs); simpl; auto.
  eapply ss_trans; [|exact HX]. unfold pending. simpl. apply ss_app_r.
Qed.

Lemma step_complete_fifo a k : Inv a -> pending (fst (step_complete a k)) = pending a.
Proof.
  intros (HO & _ & _). unfold step_complete.
  destruct (lookup k (objs a)) as [o|] eqn:Ho; simpl; auto.
  destruct (kind_async (o_kind o)); simpl; auto.
  assert (Hrm : o_sig o <> SLocked -> pending (with_objs a (remove_key k (objs a))) = pending a).
  { intros Hs. apply pending_remove_unlisted. eapply unlisted_of_sig; eauto. }
  destruct (o_sig o) eqn:Hsig; simpl; auto;
    destruct (kind_side (o_kind o)); simpl; auto;
    try (apply Hrm; discriminate);
    destruct (o_val o); simpl; auto; try (apply Hrm; discriminate);
    destruct (o_kind o); simpl; auto; apply Hrm; discriminate.
Qed.

Lemma step_timeout_fifo a k : Inv a -> Subseq (pending (fst (step_timeout a k))) (pending a).
Proof.
  intros HI. unfold step_timeout.
  destruct (lookup k (objs a)) as [o|] eqn:Ho; simpl; [|apply ss_refl].
  destruct (kind_timed (o_kind o)); simpl; [|apply ss_refl].
  destruct (o_sig o); simpl; try apply ss_refl.
  pose proof (pending_cancel a k HI) as Hc.
  destruct (kind_side (o_kind o)).
  - destruct (cancel_send_case (ch a) k) as [(_ & -> & _)| ->]; simpl; [|apply ss_refl].
    destruct (o_kind o), (o_val o); simpl; auto; apply ss_refl.
  - destruct (cancel_recv_case (ch a) k) as [(_ & -> & _)| ->]; simpl; [|apply ss_refl].
    destruct (o_kind o), (o_val o); simpl; auto; apply ss_refl.
Qed.

Lemma step_drop_fut_fifo a f : Inv a -> Subseq (pending (fst (step_drop_fut a f))) (pending a).
Proof.
  intros HI. unfold step_drop_fut.
  destruct (lookup f (objs a)) as [o|] eqn:Ho; simpl; [|apply ss_refl].
  destruct (kind_async (o_kind o)); simpl; [|apply ss_refl].
  pose proof HI as (HO & _ & _).
  assert (Hrm : ~ In f (wait_list (ch a)) -> Subseq (pending (with_objs a (remove_key f (objs a)))) (pending a)).
  { intros Hs. rewrite pending_remove_unlisted by exact Hs. apply ss_refl. }
  pose proof (pending_cancel a f HI) as Hc.
  destruct (kind_side (o_kind o)); destruct (o_fst o) eqn:Hfst; simpl;
    try (apply Hrm; eapply unlisted_of_sig; eauto; right; congruence).
  - destruct (cancel_send_case (ch a) f) as [(_ & -> & _)| ->]; simpl; auto.
    destruct (o_sig o) eqn:Hsig; simpl; try apply ss_refl;
      apply Hrm; eapply unlisted_of_sig; eauto; left; congruence.
  - destruct (cancel_recv_case (ch a) f) as [(_ & -> & _)| ->]; simpl; auto.
    destruct (o_sig o) eqn:Hsig; simpl; try apply ss_refl;
      apply Hrm; eapply unlisted_of_sig; eauto; left; congruence.
Qed.

(* ---------- polls ---------- *)
Lemma poll_send_fifo a f o w :
  Inv a -> lookup f (objs a) = Some o -> o_kind o = KSendFut ->
  fifo_step (pending a) (pending (st4 (poll_send a f o w)))
    (fst (match o_fst o with FZero => match o_val o with Some x => send_et a x true | None => ([], []) end | _ => ([], []) end))
    (snd (match o_fst o with FZero => match o_val o with Some x => send_et a x true | None => ([], []) end | _ => ([], []) end)).
Proof.
  intros HI Ho Hkd. unfold poll_send, st4, send_et.
  pose proof HI as (HO & HQ & HC).
  pose proof (i_obj _ _ _ _ HO f o Ho) as Hok.
  destruct (o_fst o) eqn:Hfst.
  - destruct (okb_zero_facts _ _ _ Hok Hfst) as (Hl & Hsig & _ & _). apply mem_false in Hl.
    destruct (o_val o) as [x|] eqn:Hval; simpl; [|apply keep_same].
    pose proof (send_case_fifo a x _ HI (cs_send_case a x HI)) as H.
    pose proof (send_case_frame a x _ (cs_send_case a x HI)) as Hfr.
    pose proof (send_case_inv a x _ HI (cs_send_case a x HI)) as Hi.
    destruct (cs_send a x) as [e|a1 ws|a1]; simpl.
    + rewrite pending_put_unlisted by exact Hl. apply keep_same.
    + destruct Hfr as [_ Fr2].
      rewrite pending_put_unlisted by (intros Hin; apply Hl; apply Fr2; exact Hin). exact H.
    + destruct H as [Hp F1]. destruct Hi as (HI1 & _ & O1 & _ & _ & _ & _ & W1 & _).
      apply fs_enter with (x := x); auto. rewrite <- Hp.
      apply pending_register_old with (o := o); auto.
      * rewrite O1. exact Ho.
      * rewrite W1. exact Hl.
      * unfold oval. simpl. rewrite Hval. reflexivity.
  - destruct (o_sig o) eqn:Hsig; simpl.
    + destruct (match o_waker o with Some w' => N.eqb w' w | None => false end); simpl; [apply keep_same|].
      destruct (send_signal_exists (ch a) f); simpl; [|apply keep_same].
      rewrite (pending_put_same a f o) by (auto). apply keep_same.
    + rewrite pending_put_unlisted by (eapply unlisted_of_sig; eauto; left; congruence). apply keep_same.
    + destruct (o_val o); simpl; [|apply keep_same].
      rewrite pending_put_unlisted by (eapply unlisted_of_sig; eauto; left; congruence). apply keep_same.
  - simpl. apply keep_same.
Qed.

Lemma poll_recv_zero_fifo a f o w :
  Inv a -> ~ In f (wait_list (ch a)) -> (exists o0, lookup f (objs a) = Some o0) -> oval o = [] ->
  fifo_step (pending a) (pending (st4 (poll_recv_zero a f o w))) [] (recv_t a).
Proof.
  intros HI Hni [o0 Ho] Hv. unfold poll_recv_zero, st4, recv_t.
  pose proof (recv_case_fifo a _ HI (cs_recv_case a HI)) as H.
  pose proof (recv_case_frame a _ (cs_recv_case a HI)) as Hfr.
  pose proof (recv_case_inv a _ HI (cs_recv_case a HI)) as Hi.
  destruct (cs_recv a) as [|v a1 ws|a1|]; simpl.
  - rewrite pending_put_unlisted by exact Hni. apply keep_same.
  - destruct Hfr as [_ Fr2].
    rewrite pending_put_unlisted by (intros Hin; apply Hni; apply Fr2; exact Hin). apply fs_take; auto.
  - destruct Hi as (HI1 & F1 & O1 & _ & _ & W1 & _).
    destruct (N.eqb (send_count (ch a1)) 0); simpl.
    + rewrite pending_put_unlisted by (rewrite W1; exact Hni). rewrite H. apply keep_same.
    + (* registers as a receiver: the flag says receivers, nothing is appended *)
      unfold pending, put, with_ch, with_objs, push_wait. simpl. rewrite F1.
      unfold pending in H. rewrite F1 in H. rewrite H. apply keep_same.
  - apply keep_same.
Qed.

Lemma poll_recv_fifo a f o w :
  Inv a -> lookup f (objs a) = Some o -> (o_kind o = KRecvFut \/ o_kind o = KStream) ->
  fifo_step (pending a) (pending (st4 (poll_recv a f o w))) []
    (match o_fst o with
     | FZero => recv_t a
     | FDone => match o_kind o with KStream => recv_t a | _ => [] end
     | FWaiting => [] end).
Proof.
  intros HI Ho Hkd. unfold poll_recv.
  pose proof HI as (HO & HQ & HC).
  pose proof (i_obj _ _ _ _ HO f o Ho) as Hok.
  pose proof (okb_oval _ _ _ Hok) as Hv.
  assert (Hsend : is_send o = false) by (unfold is_send; destruct Hkd as [-> | ->]; reflexivity).
  rewrite Hsend in Hv. simpl in Hv.
  destruct (o_fst o) eqn:Hfst.
  - destruct (okb_zero_facts _ _ _ Hok Hfst) as (Hl & Hsig & _ & _). apply mem_false in Hl.
    apply poll_recv_zero_fifo; eauto. apply oval_has_val. exact Hv.
  - unfold st4. destruct (o_sig o) eqn:Hsig; simpl.
    + destruct (match o_waker o with Some w' => N.eqb w' w | None => false end); simpl; [apply keep_same|].
      destruct (recv_signal_exists (ch a) f); simpl; [|apply keep_same].
      rewrite (pending_put_same a f o) by auto. apply keep_same.
    + destruct (o_val o); simpl; [|apply keep_same].
      rewrite pending_put_unlisted by (eapply unlisted_of_sig; eauto; left; congruence). apply keep_same.
    + rewrite pending_put_unlisted by (eapply unlisted_of_sig; eauto; left; congruence). apply keep_same.
  - assert (Hni : ~ In f (wait_list (ch a))) by (eapply unlisted_of_sig; eauto; right; congruence).
    assert (Hv0 : has_val o = false) by (destruct (o_sig o); exact Hv).
    destruct (o_kind o) eqn:Hk; try (unfold st4; simpl; apply keep_same).
    apply poll_recv_zero_fifo; eauto. unfold oval. simpl. apply has_val_false in Hv0. rewrite Hv0. reflexivity.
Qed.

Lemma step_poll_fifo a f w : Inv a -> fifo_ok a (LPoll f w).
Proof.
  intros HI. unfold fifo_ok. simpl. unfold step_poll.
  destruct (lookup f (objs a)) as [o|] eqn:Ho; simpl; [|apply keep_same].
  destruct (o_kind o) eqn:Hk; simpl; try solve [destruct (o_fst o); apply keep_same].
  - pose proof (poll_send_fifo a f o w HI Ho Hk) as H. unfold st4 in H.
    destruct (poll_send a f o w) as [[[a1 p] ds] ws]. simpl in *.
    destruct (o_fst o); simpl in *; auto.
  - pose proof (poll_recv_fifo a f o w HI Ho (or_introl Hk)) as H. unfold st4 in H. rewrite Hk in H.
    destruct (poll_recv a f o w) as [[[a1 p] ds] ws]. simpl in *.
    destruct (o_fst o); simpl in *; auto.
  - destruct (o_term o) eqn:Ht; simpl.
    + destruct (o_fst o); apply keep_same.
    + pose proof (poll_recv_fifo a f o w HI Ho (or_intror Hk)) as H. unfold st4 in H. rewrite Hk in H.
      destruct (poll_recv a f o w) as [[[a1 p] ds] ws]. simpl in *.
      assert (Hfin : forall a2, pending a2 = pending a1 ->
                fifo_step (pending a) (pending a2)
                  (fst (match o_fst o with FZero | FDone => ([], recv_t a) | FWaiting => (@nil tag, []) end))
                  (snd (match o_fst o with FZero | FDone => ([], recv_t a) | FWaiting => (@nil tag, []) end))).
      { intros a2 E. rewrite E. destruct (o_fst o); simpl in *; auto. }
      destruct p; simpl; try (apply Hfin; reflexivity).
      destruct (lookup f (objs a1)) as [o1|] eqn:Ho1; simpl; [|apply Hfin; reflexivity].
      apply Hfin. apply (pending_put_same a1 f o1); auto.
Qed.

(* ---------- every label ---------- *)
Theorem astep_fifo a l : Inv a -> fifo_ok a l.
Proof.
  intros HI. unfold fifo_ok. destruct l; simpl et; simpl astep; simpl fst; simpl snd.
  - unfold step_clone. destruct (handle_side a h) as [s|]; simpl; [|apply keep_same].
    destruct (handle_side a h'); simpl; [apply keep_same|].
    destruct s; repeat match goal with |- context [if ?b then _ else _] => destruct b end; apply keep_same.
  - apply fs_keep; auto. apply step_drop_handle_fifo.
  - apply fs_keep; auto. apply step_close_fifo.
  - unfold step_obs. destruct (handle_side a h); apply keep_same.
  - apply step_send_like_fifo; auto.
  - apply step_send_like_fifo; auto.
  - destruct x; [apply step_send_like_fifo; auto|]. destruct (is_side a h SSend); apply keep_same.
  - apply step_try_send_fifo; auto.
  - destruct x; [apply step_try_send_fifo; auto|]. destruct (is_side a h SSend); apply keep_same.
  - destruct busy; [destruct (is_side a h SSend); apply keep_same|apply step_try_send_fifo; auto].
  - destruct x; [|destruct (is_side a h SSend); apply keep_same].
    destruct busy; [destruct (is_side a h SSend); apply keep_same|apply step_try_send_fifo; auto].
  - apply step_recv_like_fifo; auto.
  - apply step_recv_like_fifo; auto.
  - apply step_try_recv_fifo; auto.
  - destruct busy; [destruct (is_side a h SRecv); apply keep_same|apply step_try_recv_fifo; auto].
  - apply step_drain_fifo; auto.
  - rewrite step_complete_fifo by exact HI. apply keep_same.
  - apply fs_keep; auto. apply step_timeout_fifo; auto.
  - unfold step_mk. destruct (negb (is_side a h (kind_side KSendFut)) || negb (fresh a f)) eqn:E; simpl; [apply keep_same|].
    unfold pending. simpl. rewrite listed_vals_cons_other; [apply keep_same|].
    intros Hin. destruct HI as (HO & _ & _). destruct (i_listed _ _ _ _ HO f Hin) as [o1 E1].
    apply orb_false_elim in E as [_ E]. apply negb_false_iff in E. apply fresh_lookup in E. congruence.
  - unfold step_mk. destruct (negb (is_side a h (kind_side KRecvFut)) || negb (fresh a f)) eqn:E; simpl; [apply keep_same|].
    unfold pending. simpl. rewrite listed_vals_cons_other; [apply keep_same|].
    intros Hin. destruct HI as (HO & _ & _). destruct (i_listed _ _ _ _ HO f Hin) as [o1 E1].
    apply orb_false_elim in E as [_ E]. apply negb_false_iff in E. apply fresh_lookup in E. congruence.
  - unfold step_mk. destruct (negb (is_side a h (kind_side KStream)) || negb (fresh a f)) eqn:E; simpl; [apply keep_same|].
    unfold pending. simpl. rewrite listed_vals_cons_other; [apply keep_same|].
    intros Hin. destruct HI as (HO & _ & _). destruct (i_listed _ _ _ _ HO f Hin) as [o1 E1].
    apply orb_false_elim in E as [_ E]. apply negb_false_iff in E. apply fresh_lookup in E. congruence.
  - apply (step_poll_fifo a f w HI).
  - apply fs_keep; auto. apply step_drop_fut_fifo; auto.
  - unfold step_stream_term. destruct (lookup f (objs a)) as [o|]; [destruct (o_kind o)|]; apply keep_same.
Qed.

(* ---------- whole executions ---------- *)
Fixpoint entered_run (a : aconf) (ls : list label) : list tag :=
  match ls with [] => [] | l :: r => fst (et a l) ++ entered_run (fst (astep a l)) r end.
Fixpoint taken_run (a : aconf) (ls : list label) : list tag :=
  match ls with [] => [] | l :: r => snd (et a l) ++ taken_run (fst (astep a l)) r end.

Lemma arun_fifo ls : forall a D A, Inv a ->
  Subseq (D ++ pending a) A ->
  Subseq ((D ++ taken_run a ls) ++ pending (fst (arun a ls))) (A ++ entered_run a ls).
Proof.
  induction ls as [|l ls IH]; intros a D A HI H; simpl.
  - rewrite !app_nil_r. exact H.
  - pose proof (astep_fifo a l HI) as Hs. pose proof (astep_inv a l HI) as HI1.
    pose proof (fifo_step_preserves _ _ _ _ D A Hs H) as H1.
    destruct (astep a l) as [a1 o] eqn:E1. simpl in *.
    specialize (IH a1 (D ++ snd (et a l)) (A ++ fst (et a l)) HI1 H1).
    destruct (arun a1 ls) as [a2 os]. simpl in *. rewrite <- !app_assoc in *. exact IH.
Qed.

(* C02: over any execution from a fresh channel, the values taken (by receives, hand-offs and
   drains, in that order) followed by what is still waiting form an order-preserving subsequence
   of the values in the order they entered the channel *)
Theorem fifo b cap ls :
  Subseq (taken_run (init b cap) ls ++ pending (fst (arun (init b cap) ls))) (entered_run (init b cap) ls).
Proof.
  pose proof (arun_fifo ls (init b cap) [] [] (init_inv b cap)) as H. simpl in H. apply H. apply ss_nil.
Qed.

(* the consequence in the property's words: if x entered before y and both were taken, x was taken first *)
Fixpoint index_of (x : tag) (l : list tag) : option nat :=
  match l with [] => None | y :: r => if N.eqb x y then Some O else option_map S (index_of x r) end.

Lemma subseq_order (l1 l2 : list tag) x y :
  NoDup l2 -> Subseq l1 l2 ->
  forall i j, index_of x l1 = Some i -> index_of y l1 = Some j -> i < j ->
  exists i' j', index_of x l2 = Some i' /\ index_of y l2 = Some j' /\ i' < j'.
Proof.
  intros Hd Hs. induction Hs as [|z l1 l2 Hs IH|z l1 l2 Hs IH]; intros i j Hi Hj Hlt.
  - discriminate.
  - inversion Hd as [|? ? Hn Hd']; subst. destruct (IH Hd' i j Hi Hj Hlt) as (i' & j' & H1 & H2 & H3).
    simpl. assert (x <> z). { intros ->. apply Hn. clear -H1. revert i' H1. induction l2 as [|w r IHr]; simpl; [discriminate|].
      intros i'. destruct (N.eqb_spec z w); [left; auto|]. destruct (index_of z r) eqn:E; [|discriminate]. intros _. right. eapply IHr; eauto. }
    assert (y <> z). { intros ->. apply Hn. clear -H2. revert j' H2. induction l2 as [|w r IHr]; simpl; [discriminate|].
      intros j'. destruct (N.eqb_spec z w); [left; auto|]. destruct (index_of z r) eqn:E; [|discriminate]. intros _. right. eapply IHr; eauto. }
    destruct (N.eqb_spec x z); [congruence|]. destruct (N.eqb_spec y z); [congruence|].
    rewrite H1, H2. simpl. exists (S i'), (S j'). repeat split; auto. lia.
  - inversion Hd as [|? ? Hn Hd']; subst. simpl in Hi, Hj |- *.
    destruct (N.eqb_spec x z) as [->|Hxz].
    + injection Hi as <-. destruct (N.eqb_spec y z) as [->|Hyz]; [injection Hj as <-; lia|].
      destruct (index_of y l1) as [j0|] eqn:Ej; [|discriminate]. injection Hj as <-.
      assert (Hin : In y l2).
      { eapply ss_in; eauto. clear -Ej. revert j0 Ej. induction l1 as [|w r IHr]; simpl; [discriminate|].
        intros j0. destruct (N.eqb_spec y w); [left; auto|]. destruct (index_of y r) eqn:E; [|discriminate]. intros _. right. eapply IHr; eauto. }
      assert (exists j', index_of y l2 = Some j').
      { clear -Hin. induction l2 as [|w r IHr]; [destruct Hin|]. simpl. destruct (N.eqb_spec y w); [eauto|].
        destruct Hin as [->|Hin]; [congruence|]. destruct (IHr Hin) as [j' ->]. simpl. eauto. }
      destruct H as [j' Hj']. rewrite Hj'. simpl. exists O, (S j'). repeat split; auto. lia.
    + destruct (index_of x l1) as [i0|] eqn:Ei; [|discriminate]. injection Hi as <-.
      destruct (N.eqb_spec y z) as [->|Hyz]; [injection Hj as <-; lia|].
      destruct (index_of y l1) as [j0|] eqn:Ej; [|discriminate]. injection Hj as <-.
      destruct (IH Hd' i0 j0 eq_refl eq_refl ltac:(lia)) as (i' & j' & H1 & H2 & H3).
      rewrite H1, H2. simpl. exists (S i'), (S j'). repeat split; auto. lia.
Qed.
