(* Closed.v - facts about handle counts, close and disconnect (C10, C11, C12) *)
From KV Require Import Base Chan Atomic.
From KV.proofs Require Import Assoc Inv Cases StepInv Frames.
From Coq Require Import ZifyN ZifyBool ZifyNat.

Definition closed (a : aconf) : Prop := send_count (ch a) = 0%N /\ recv_count (ch a) = 0%N.

Lemma counts_live a :
  Inv a -> ~ closed a ->
  send_count (ch a) = count_side SSend (handles a) /\ recv_count (ch a) = count_side SRecv (handles a).
Proof. intros (_ & _ & HC) Hn. destruct HC as [_ _ [H|H]]; [exact H|]. exfalso. apply Hn. exact H. Qed.

Theorem reachable_counts b cap ls :
  let a := fst (arun (init b cap) ls) in
  (send_count (ch a) = count_side SSend (handles a) /\ recv_count (ch a) = count_side SRecv (handles a)) \/ closed a.
Proof. simpl. pose proof (reachable_inv b cap ls) as (_ & _ & HC). destruct HC as [_ _ H]. exact H. Qed.

Theorem closed_forever a l : Inv a -> closed a -> closed (fst (astep a l)).
Proof.
  intros HI [S R]. destruct (handle_label l) eqn:Hl.
  - destruct l; try discriminate; simpl; unfold closed.
    + unfold step_clone. destruct (handle_side a h) as [s|]; simpl; auto.
      destruct (handle_side a h'); simpl; auto.
      destruct s; simpl; rewrite ?S, ?R; simpl; auto.
    + unfold step_drop_handle. destruct (handle_side a h) as [s|]; simpl; auto.
      destruct (borrowed a h); simpl; auto.
      destruct s; rewrite ?S, ?R; simpl; destruct (remove_key h (handles a)); simpl; auto.
    + unfold step_close. destruct (handle_side a h); simpl; auto.
      rewrite S, R. simpl. auto.
  - destruct (astep_meta a l HI Hl) as [Hm _]. unfold meta, closed in *.
    injection Hm as -> -> _. auto.
Qed.

Theorem closed_forever_run ls : forall a, Inv a -> closed a -> closed (fst (arun a ls)).
Proof.
  induction ls as [|l ls IH]; intros a HI Hc; simpl; auto.
  pose proof (astep_inv a l HI) as H1. pose proof (closed_forever a l HI Hc) as H2.
  destruct (astep a l) as [a1 o]. specialize (IH a1 H1 H2). destruct (arun a1 ls). exact IH.
Qed.

(* ---------- close ---------- *)
Lemma term_all_sig wl : forall os k o,
  NoDup wl -> In k wl -> lookup k os = Some o ->
  exists o', lookup k (fst (term_all wl os)) = Some o' /\ o_sig o' = STerm.
Proof.
  induction wl as [|k0 r IH]; intros os k o Hd Hin Ho; [destruct Hin|].
  inversion Hd as [|? ? Hni Hd']; subst. simpl. unfold sig_term.
  destruct (N.eq_dec k k0) as [->|Hne].
  - rewrite Ho.
    assert (Hk : lookup k0 (update k0 (set_sig o STerm) os) = Some (set_sig o STerm))
      by (apply lookup_update_eq; eapply lookup_in; eauto).
    destruct (term_all r (update k0 (set_sig o STerm) os)) as [os2 w2] eqn:E. simpl.
    (* later terminations do not touch k0, which is not in r *)
    assert (Hstay : forall wl os, ~ In k0 wl -> lookup k0 (fst (term_all wl os)) = lookup k0 os).
    { clear. induction wl as [|k1 r IH]; intros os Hn; simpl; auto. unfold sig_term.
      destruct (lookup k1 os) as [o1|] eqn:E1.
      - specialize (IH (update k1 (set_sig o1 STerm) os) ltac:(intros H; apply Hn; right; exact H)).
        destruct (term_all r (update k1 (set_sig o1 STerm) os)). simpl in *. rewrite IH.
        apply lookup_update_neq. intros ->. apply Hn. left. reflexivity.
      - specialize (IH os ltac:(intros H; apply Hn; right; exact H)). destruct (term_all r os). exact IH. }
    specialize (Hstay r (update k0 (set_sig o STerm) os) Hni). rewrite E in Hstay. simpl in Hstay.
    rewrite Hstay, Hk. eexists. split; [reflexivity|reflexivity].
  - destruct Hin as [E|Hin]; [congruence|].
    destruct (lookup k0 os) as [o0|] eqn:E0.
    + assert (Ho' : lookup k (update k0 (set_sig o0 STerm) os) = Some o) by (rewrite lookup_update_neq; auto).
      destruct (IH _ k o Hd' Hin Ho') as (o' & H1 & H2).
      destruct (term_all r (update k0 (set_sig o0 STerm) os)). simpl in *. eauto.
    + destruct (IH _ k o Hd' Hin Ho) as (o' & H1 & H2). destruct (term_all r os). simpl in *. eauto.
Qed.

Theorem close_first a h :
  Inv a -> handle_side a h <> None -> ~ closed a ->
  let '(a', o) := astep a (LClose h) in
  r_res o = ROk /\ r_drops o = queue (ch a) /\ closed a' /\ queue (ch a') = [] /\ wait_list (ch a') = [] /\
  (forall k ob, In k (wait_list (ch a)) -> lookup k (objs a) = Some ob ->
                exists ob', lookup k (objs a') = Some ob' /\ o_sig ob' = STerm).
Proof.
  intros HI Hh Hn. simpl. unfold step_close.
  destruct (handle_side a h); [|congruence].
  destruct (N.eqb_spec (recv_count (ch a)) 0) as [R|R]; [destruct (N.eqb_spec (send_count (ch a)) 0) as [S|S]|]; simpl;
    try (exfalso; apply Hn; split; assumption).
  all: unfold terminate_signals; simpl;
    pose proof (term_all_sig (wait_list (ch a)) (objs a)) as HT;
    destruct (term_all (wait_list (ch a)) (objs a)) as [os ws]; simpl in *;
    repeat split; auto; intros k ob Hin Ho; eapply HT; eauto;
    destruct HI as (HO & _ & _); apply (i_wl _ _ _ _ HO).
Qed.

Theorem close_again a h :
  closed a -> handle_side a h <> None ->
  astep a (LClose h) = (a, out_of (RErr EClosed)).
Proof.
  intros [S R] Hh. simpl. unfold step_close. destruct (handle_side a h); [|congruence].
  rewrite S, R. reflexivity.
Qed.

(* operations begun on a closed channel fail with the closed error and change nothing *)
Lemma cs_send_closed a x : closed a -> cs_send a x = SCErr EClosed.
Proof. intros [S R]. unfold cs_send. rewrite R, S. reflexivity. Qed.
Lemma cs_recv_closed a : closed a -> cs_recv a = RCClosed.
Proof. intros [S R]. unfold cs_recv. rewrite R. reflexivity. Qed.

Theorem closed_send_fails a k h x kd :
  closed a -> is_side a h SSend = true -> fresh a k = true ->
  fst (step_send_like a k h x kd) = a /\ r_res (snd (step_send_like a k h x kd)) = RErr EClosed /\
  r_drops (snd (step_send_like a k h x kd)) ++ r_back (snd (step_send_like a k h x kd)) = [x].
Proof.
  intros Hc Hs Hf. unfold step_send_like. rewrite Hs, Hf, (cs_send_closed a x Hc). simpl.
  destruct kd; auto.
Qed.

Theorem closed_try_send_fails a h x opt :
  closed a -> is_side a h SSend = true ->
  fst (step_try_send a h x opt) = a /\ r_res (snd (step_try_send a h x opt)) = RErr EClosed /\
  r_drops (snd (step_try_send a h x opt)) ++ r_back (snd (step_try_send a h x opt)) = [x].
Proof.
  intros Hc Hs. unfold step_try_send. rewrite Hs, (cs_send_closed a x Hc). simpl. destruct opt; auto.
Qed.

Theorem closed_recv_fails a k h timed early :
  closed a -> is_side a h SRecv = true -> fresh a k = true ->
  step_recv_like a k h timed early = (a, out_of (RErr EClosed)).
Proof. intros Hc Hs Hf. unfold step_recv_like. rewrite Hs, Hf, (cs_recv_closed a Hc). reflexivity. Qed.

Theorem closed_try_recv_fails a h :
  closed a -> is_side a h SRecv = true -> step_try_recv a h = (a, out_of (RErr EClosed)).
Proof. intros Hc Hs. unfold step_try_recv. rewrite Hs, (cs_recv_closed a Hc). reflexivity. Qed.

Theorem closed_drain_fails a h :
  closed a -> is_side a h SRecv = true -> step_drain a h = (a, out_of (RErr EClosed)).
Proof. intros [S R] Hs. unfold step_drain. rewrite Hs, R. reflexivity. Qed.

(* a future first polled after close *)
Theorem closed_poll_send_fails a f o w x :
  closed a -> o_fst o = FZero -> o_val o = Some x ->
  poll_send a f o w = (put a f (set_fst (set_val o None) FDone), PReadyErr EClosed, [x], []).
Proof. intros Hc Hf Hv. unfold poll_send. rewrite Hf, Hv, (cs_send_closed a x Hc). reflexivity. Qed.

Theorem closed_poll_recv_fails a f o w :
  closed a -> o_fst o = FZero ->
  poll_recv a f o w = (put a f (set_fst o FDone), PReadyErr EClosed, [], []).
Proof. intros Hc Hf. unfold poll_recv, poll_recv_zero. rewrite Hf, (cs_recv_closed a Hc). reflexivity. Qed.

(* ---------- disconnect (C11) ---------- *)
(* the send-side disconnect error is produced only when no sender handle is live *)
Lemma sendclosed_only_without_senders a :
  Inv a -> ~ closed a ->
  (send_count (ch a) = 0%N <-> count_side SSend (handles a) = 0%N) /\
  (recv_count (ch a) = 0%N <-> count_side SRecv (handles a) = 0%N).
Proof. intros HI Hn. destruct (counts_live a HI Hn) as [-> ->]. tauto. Qed.

Theorem recv_disconnect_iff a k h timed early :
  Inv a -> ~ closed a -> is_side a h SRecv = true -> fresh a k = true ->
  r_res (snd (step_recv_like a k h timed early)) = RErr ESendClosed ->
  count_side SSend (handles a) = 0%N /\ queue (ch a) = [].
Proof.
  intros HI Hn Hs Hf. unfold step_recv_like. rewrite Hs, Hf. simpl.
  pose proof (recv_case_inv a _ HI (cs_recv_case a HI)) as H.
  pose proof (cs_recv_case a HI) as Hc.
  destruct (cs_recv a) as [|v a1 ws|a1|]; simpl; try discriminate.
  destruct H as (_ & _ & _ & _ & _ & _ & _ & _ & S1).
  destruct (timed && early); simpl; [discriminate|].
  destruct (N.eqb_spec (send_count (ch a1)) 0) as [E0|N0]; simpl; [|discriminate].
  intros _. destruct (counts_live a HI Hn) as [Es _]. split; [congruence|].
  inversion Hc; auto.
Qed.

Theorem send_disconnect_iff a k h x kd :
  Inv a -> ~ closed a -> is_side a h SSend = true -> fresh a k = true ->
  (r_res (snd (step_send_like a k h x kd)) = RErr ERecvClosed <-> count_side SRecv (handles a) = 0%N).
Proof.
  intros HI Hn Hs Hf. unfold step_send_like. rewrite Hs, Hf. simpl.
  destruct (counts_live a HI Hn) as [Es Er].
  assert (Hsc : send_count (ch a) <> 0%N).
  { rewrite Es. pose proof (count_side_pos _ _ _ (is_side_lookup _ _ _ Hs)). lia. }
  unfold cs_send. destruct (N.eqb_spec (recv_count (ch a)) 0) as [R0|RN].
  - destruct (N.eqb_spec (send_count (ch a)) 0); [congruence|]. simpl. split; [intros _; congruence|intros _; destruct kd; reflexivity].
  - split; [|intros E; congruence].
    destruct (next_recv (ch a)) as [[k0|] c1].
    + destruct (sig_deliver k0 x (objs a)). simpl. discriminate.
    + destruct (N.ltb (len (queue c1)) (capacity c1)); simpl; discriminate.
Qed.
