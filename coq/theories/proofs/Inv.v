(* Inv.v - the invariant of the Atomic model (Appendix C of DESIGN.md: A1-A6, A8)
   and the generic "movers" that re-establish it after each kind of state change. *)
From KV Require Import Base Chan Atomic.
From KV.proofs Require Import Assoc.
From Coq Require Import ZifyN ZifyBool ZifyNat.

Definition is_send (o : obj) : bool := match kind_side (o_kind o) with SSend => true | SRecv => false end.
Definition has_val (o : obj) : bool := match o_val o with Some _ => true | None => false end.

(* what an object may look like, given whether it is in the wait list and what
   the list's flag says.  Boolean, so that case analysis computes. *)
Definition obj_okb (listed flag : bool) (o : obj) : bool :=
  match o_fst o, o_sig o with
  | FZero, SLocked => negb listed && kind_async (o_kind o) && Bool.eqb (has_val o) (is_send o)
  | FZero, _ => false
  | FWaiting, SLocked => listed && Bool.eqb flag (negb (is_send o)) && Bool.eqb (has_val o) (is_send o)
  | FWaiting, SOk => negb listed && Bool.eqb (has_val o) (negb (is_send o))
  | FWaiting, STerm => negb listed && Bool.eqb (has_val o) (is_send o)
  | FDone, _ => negb listed && kind_async (o_kind o) && negb (has_val o)
  end.

Fixpoint count_side (s : side) (hs : list (id * side)) : N :=
  match hs with
  | [] => 0
  | (_, s') :: r => (if side_eqb s s' then 1 else 0) + count_side s r
  end.

(* objects and wait list; depends on the channel only through the flag and the list *)
Record InvO (flag : bool) (wl : list id) (os : list (id * obj)) (hs : list (id * side)) : Prop := mkInvO {
  i_keys : NoDup (keys os);
  i_wl : NoDup wl;
  i_listed : forall k, In k wl -> exists o, lookup k os = Some o;
  i_obj : forall k o, lookup k os = Some o -> obj_okb (mem k wl) flag o = true;
  i_borrow : forall k o, lookup k os = Some o -> lookup (o_h o) hs = Some (kind_side (o_kind o))
}.

(* queue / capacity / flag coupling *)
Record InvQ (c : chan) : Prop := mkInvQ {
  i_cap : (len (queue c) <= capacity c)%N;
  i_rempty : recv_blocking c = true -> wait_list c <> [] -> queue c = [];
  i_sfull : recv_blocking c = false -> wait_list c <> [] -> (capacity c <= len (queue c))%N
}.

(* counts and handles *)
Record InvC (c : chan) (hs : list (id * side)) : Prop := mkInvC {
  i_closed : send_count c = 0%N \/ recv_count c = 0%N -> wait_list c = [];
  i_hkeys : NoDup (keys hs);
  i_counts : (send_count c = count_side SSend hs /\ recv_count c = count_side SRecv hs) \/
             (send_count c = 0%N /\ recv_count c = 0%N)
}.

Definition Inv (a : aconf) : Prop :=
  InvO (recv_blocking (ch a)) (wait_list (ch a)) (objs a) (handles a) /\ InvQ (ch a) /\ InvC (ch a) (handles a).

(* executable version, used only to test the invariant on generated histories
   before proving it (coq/extract/driver.ml, mode `inv`) *)
Definition nodupb (l : list N) : bool :=
  (fix go (l : list N) := match l with [] => true | x :: r => negb (mem x r) && go r end) l.

Definition invb (a : aconf) : bool :=
  let c := ch a in
  nodupb (keys (objs a)) && nodupb (wait_list c) &&
  forallb (fun k => match lookup k (objs a) with Some _ => true | None => false end) (wait_list c) &&
  forallb (fun p => match lookup (fst p) (objs a) with
                    | Some o => obj_okb (mem (fst p) (wait_list c)) (recv_blocking c) o
                    | None => false end) (objs a) &&
  N.leb (len (queue c)) (capacity c) &&
  (negb (recv_blocking c) || match wait_list c with [] => true | _ => match queue c with [] => true | _ => false end end) &&
  (recv_blocking c || match wait_list c with [] => true | _ => N.leb (capacity c) (len (queue c)) end) &&
  (negb (N.eqb (send_count c) 0 || N.eqb (recv_count c) 0) || match wait_list c with [] => true | _ => false end) &&
  nodupb (keys (handles a)) &&
  ((N.eqb (send_count c) (count_side SSend (handles a)) && N.eqb (recv_count c) (count_side SRecv (handles a)))
   || (N.eqb (send_count c) 0 && N.eqb (recv_count c) 0)) &&
  forallb (fun p => match lookup (o_h (snd p)) (handles a) with
                    | Some s => side_eqb s (kind_side (o_kind (snd p))) | None => false end) (objs a).

(* ------------------------------------------------------------------ *)
(* facts about obj_okb *)

Lemma okb_unlisted_flag f f' o : obj_okb false f o = obj_okb false f' o.
Proof. unfold obj_okb. destruct (o_fst o), (o_sig o); reflexivity. Qed.

(* an object listed in the wait list *)
Lemma okb_listed f o :
  obj_okb true f o = true ->
  o_fst o = FWaiting /\ o_sig o = SLocked /\ f = negb (is_send o) /\ has_val o = is_send o.
Proof.
  unfold obj_okb. destruct (o_fst o), (o_sig o); simpl; try discriminate.
  intros H. apply andb_prop in H as [H1 H2]. apply eqb_prop in H1, H2. auto.
Qed.

Lemma okb_unlisted_waiting f o :
  obj_okb false f o = true -> o_fst o = FWaiting -> o_sig o <> SLocked.
Proof. unfold obj_okb. intros H E. rewrite E in H. destruct (o_sig o); simpl in H; congruence. Qed.

(* ------------------------------------------------------------------ *)
(* movers for InvO *)

Lemma invO_flag f f' os hs : InvO f [] os hs -> InvO f' [] os hs.
Proof.
  intros [K W L O B]. constructor; auto.
Qed.

Lemma mem_cons_neq k k' r : k <> k' -> mem k (k' :: r) = mem k r.
Proof. intros H. unfold mem. simpl. destruct (N.eqb_spec k k'); [congruence|reflexivity]. Qed.

Lemma mem_cons_eq k r : mem k (k :: r) = true.
Proof. unfold mem. simpl. rewrite N.eqb_refl. reflexivity. Qed.

(* the head of the list is popped and its object finished (or otherwise made unlisted) *)
Lemma invO_pop f k r os hs o o' :
  InvO f (k :: r) os hs ->
  lookup k os = Some o ->
  o_kind o' = o_kind o -> o_h o' = o_h o ->
  obj_okb false f o' = true ->
  InvO f r (update k o' os) hs.
Proof.
  intros [K W L O B] Hk Hkind Hh Hok.
  inversion W as [|? ? Hni Wr]; subst.
  constructor.
  - rewrite keys_update. exact K.
  - exact Wr.
  - intros k' Hin. rewrite lookup_update.
    destruct (N.eqb_spec k' k) as [->|Hn]; [tauto|]. apply L. right. exact Hin.
  - intros k' o1. rewrite lookup_update.
    destruct (N.eqb_spec k' k) as [->|Hn].
    + rewrite Hk. intros E. injection E as <-.
      apply mem_false in Hni. rewrite Hni. exact Hok.
    + intros E. specialize (O k' o1 E). rewrite mem_cons_neq in O; auto.
  - intros k' o1. rewrite lookup_update.
    destruct (N.eqb_spec k' k) as [->|Hn].
    + rewrite Hk. intros E. injection E as <-. rewrite Hkind, Hh. eapply B; eauto.
    + apply B.
Qed.

(* an unlisted object is replaced by another unlisted-shaped one *)
Lemma invO_update_unlisted f wl os hs k o o' :
  InvO f wl os hs ->
  lookup k os = Some o -> ~ In k wl ->
  o_kind o' = o_kind o -> o_h o' = o_h o ->
  obj_okb false f o' = true ->
  InvO f wl (update k o' os) hs.
Proof.
  intros [K W L O B] Hk Hni Hkind Hh Hok.
  constructor; auto.
  - rewrite keys_update. exact K.
  - intros k' Hin. rewrite lookup_update.
    destruct (N.eqb_spec k' k) as [->|Hn]; [tauto|]. apply L. exact Hin.
  - intros k' o1. rewrite lookup_update.
    destruct (N.eqb_spec k' k) as [->|Hn].
    + rewrite Hk. intros E. injection E as <-.
      apply mem_false in Hni. rewrite Hni. exact Hok.
    + apply O.
  - intros k' o1. rewrite lookup_update.
    destruct (N.eqb_spec k' k) as [->|Hn].
    + rewrite Hk. intros E. injection E as <-. rewrite Hkind, Hh. eapply B; eauto.
    + apply B.
Qed.

(* an object is replaced by one with the same shape (e.g. only the waker changes) *)
Lemma invO_update_same f wl os hs k o o' :
  InvO f wl os hs ->
  lookup k os = Some o ->
  o_kind o' = o_kind o -> o_h o' = o_h o ->
  (forall l, obj_okb l f o' = obj_okb l f o) ->
  InvO f wl (update k o' os) hs.
Proof.
  intros [K W L O B] Hk Hkind Hh Hok.
  constructor; auto.
  - rewrite keys_update. exact K.
  - intros k' Hin. rewrite lookup_update.
    destruct (N.eqb_spec k' k) as [->|Hn]; [rewrite Hk; eauto|]. apply L. exact Hin.
  - intros k' o1. rewrite lookup_update.
    destruct (N.eqb_spec k' k) as [->|Hn].
    + rewrite Hk. intros E. injection E as <-. rewrite Hok. apply O. exact Hk.
    + apply O.
  - intros k' o1. rewrite lookup_update.
    destruct (N.eqb_spec k' k) as [->|Hn].
    + rewrite Hk. intros E. injection E as <-. rewrite Hkind, Hh. eapply B; eauto.
    + apply B.
Qed.

Lemma mem_snoc_neq k k' wl : k <> k' -> mem k (wl ++ [k']) = mem k wl.
Proof.
  intros H. rewrite mem_app. unfold mem at 2. simpl.
  destruct (N.eqb_spec k k'); [congruence|]. rewrite orb_false_r. reflexivity.
Qed.

Lemma mem_snoc_eq k wl : mem k (wl ++ [k]) = true.
Proof. rewrite mem_app. unfold mem at 2. simpl. rewrite N.eqb_refl. apply orb_true_r. Qed.

Lemma nodup_snoc (k : N) wl : NoDup wl -> ~ In k wl -> NoDup (wl ++ [k]).
Proof.
  intros Hd Hni. induction wl as [|x wl IH]; simpl.
  - constructor; [intros []|constructor].
  - inversion Hd as [|? ? Hx Hd']; subst. constructor.
    + rewrite in_app_iff. simpl. intros [H|[H|[]]]; [tauto|]. subst. apply Hni. left. reflexivity.
    + apply IH; auto. intros H. apply Hni. right. exact H.
Qed.

(* a new object registers at the tail of the list *)
Lemma invO_register_new f wl os hs k o :
  InvO f wl os hs ->
  lookup k os = None ->
  obj_okb true f o = true ->
  lookup (o_h o) hs = Some (kind_side (o_kind o)) ->
  InvO f (wl ++ [k]) ((k, o) :: os) hs.
Proof.
  intros [K W L O B] Hk Hok Hb.
  assert (Hni : ~ In k wl).
  { intros Hin. destruct (L k Hin) as [o1 E]. congruence. }
  constructor.
  - simpl. constructor; auto. apply lookup_none. exact Hk.
  - apply nodup_snoc; auto.
  - intros k'. rewrite in_app_iff. simpl. rewrite lookup_cons.
    destruct (N.eqb_spec k' k) as [->|Hn]; [eauto|].
    intros [H|[H|[]]]; [auto|congruence].
  - intros k' o1. rewrite lookup_cons.
    destruct (N.eqb_spec k' k) as [->|Hn].
    + intros E. injection E as <-. rewrite mem_snoc_eq. exact Hok.
    + intros E. rewrite mem_snoc_neq; auto.
  - intros k' o1. rewrite lookup_cons.
    destruct (N.eqb_spec k' k) as [->|Hn].
    + intros E. injection E as <-. exact Hb.
    + apply B.
Qed.

(* an existing unlisted object (a future in state Zero) registers at the tail *)
Lemma invO_register_old f wl os hs k o o' :
  InvO f wl os hs ->
  lookup k os = Some o -> ~ In k wl ->
  o_kind o' = o_kind o -> o_h o' = o_h o ->
  obj_okb true f o' = true ->
  InvO f (wl ++ [k]) (update k o' os) hs.
Proof.
  intros [K W L O B] Hk Hni Hkind Hh Hok.
  constructor.
  - rewrite keys_update. exact K.
  - apply nodup_snoc; auto.
  - intros k'. rewrite in_app_iff. simpl. rewrite lookup_update.
    destruct (N.eqb_spec k' k) as [->|Hn]; [rewrite Hk; eauto|].
    intros [H|[H|[]]]; [auto|congruence].
  - intros k' o1. rewrite lookup_update.
    destruct (N.eqb_spec k' k) as [->|Hn].
    + rewrite Hk. intros E. injection E as <-. rewrite mem_snoc_eq. exact Hok.
    + intros E. rewrite mem_snoc_neq; auto.
  - intros k' o1. rewrite lookup_update.
    destruct (N.eqb_spec k' k) as [->|Hn].
    + rewrite Hk. intros E. injection E as <-. rewrite Hkind, Hh. eapply B; eauto.
    + apply B.
Qed.

(* a new unlisted object (a freshly made future) *)
Lemma invO_add_unlisted f wl os hs k o :
  InvO f wl os hs ->
  lookup k os = None ->
  obj_okb false f o = true ->
  lookup (o_h o) hs = Some (kind_side (o_kind o)) ->
  InvO f wl ((k, o) :: os) hs.
Proof.
  intros [K W L O B] Hk Hok Hb.
  assert (Hni : ~ In k wl).
  { intros Hin. destruct (L k Hin) as [o1 E]. congruence. }
  constructor; auto.
  - simpl. constructor; auto. apply lookup_none. exact Hk.
  - intros k' Hin. rewrite lookup_cons.
    destruct (N.eqb_spec k' k) as [->|Hn]; [eauto|auto].
  - intros k' o1. rewrite lookup_cons.
    destruct (N.eqb_spec k' k) as [->|Hn].
    + intros E. injection E as <-. apply mem_false in Hni. rewrite Hni. exact Hok.
    + apply O.
  - intros k' o1. rewrite lookup_cons.
    destruct (N.eqb_spec k' k) as [->|Hn].
    + intros E. injection E as <-. exact Hb.
    + apply B.
Qed.

(* an unlisted object disappears (completed sync call, dropped future) *)
Lemma invO_remove_unlisted f wl os hs k :
  InvO f wl os hs -> ~ In k wl -> InvO f wl (remove_key k os) hs.
Proof.
  intros [K W L O B] Hni.
  constructor; auto.
  - apply nodup_remove. exact K.
  - intros k' Hin. rewrite lookup_remove by exact K.
    destruct (N.eqb_spec k' k) as [->|Hn]; [tauto|auto].
  - intros k' o1. rewrite lookup_remove by exact K.
    destruct (N.eqb_spec k' k) as [->|Hn]; [discriminate|apply O].
  - intros k' o1. rewrite lookup_remove by exact K.
    destruct (N.eqb_spec k' k) as [->|Hn]; [discriminate|apply B].
Qed.

Lemma mem_remove_first_neq k k' wl : k <> k' -> mem k (remove_first k' wl) = mem k wl.
Proof.
  intros Hn. destruct (mem k wl) eqn:E.
  - apply mem_in. apply remove_first_in_neq; auto. apply mem_in. exact E.
  - apply mem_false. intros H. apply remove_first_in in H. apply mem_false in E. tauto.
Qed.

(* a listed object cancels: leaves the list and disappears *)
Lemma invO_cancel f wl os hs k :
  InvO f wl os hs -> InvO f (remove_first k wl) (remove_key k os) hs.
Proof.
  intros [K W L O B].
  constructor.
  - apply nodup_remove. exact K.
  - apply remove_first_nodup. exact W.
  - intros k' Hin. rewrite lookup_remove by exact K.
    destruct (N.eqb_spec k' k) as [->|Hn].
    + exfalso. eapply remove_first_notin; eauto.
    + apply L. eapply remove_first_in; eauto.
  - intros k' o1. rewrite lookup_remove by exact K.
    destruct (N.eqb_spec k' k) as [->|Hn]; [discriminate|].
    intros E. rewrite mem_remove_first_neq; auto.
  - intros k' o1. rewrite lookup_remove by exact K.
    destruct (N.eqb_spec k' k) as [->|Hn]; [discriminate|apply B].
Qed.

(* handles: a fresh handle is added *)
Lemma invO_add_handle f wl os hs h s :
  InvO f wl os hs -> lookup h hs = None -> InvO f wl os ((h, s) :: hs).
Proof.
  intros [K W L O B] Hh. constructor; auto.
  intros k o E. specialize (B k o E). rewrite lookup_cons.
  destruct (N.eqb_spec (o_h o) h) as [Eh|Hn]; [congruence|exact B].
Qed.

(* handles: an unborrowed handle is removed *)
Lemma invO_remove_handle f wl os hs h :
  InvO f wl os hs -> (forall k o, lookup k os = Some o -> o_h o <> h) ->
  InvO f wl os (remove_key h hs).
Proof.
  intros [K W L O B] Hh. constructor; auto.
  intros k o E. rewrite lookup_remove_neq; [eapply B; eauto|]. eapply Hh; eauto.
Qed.
