(* Capacity.v - back-pressure and rendezvous (C08) *)
From KV Require Import Base Chan Atomic.
From KV.proofs Require Import Assoc Inv Cases StepInv.
From Coq Require Import ZifyN ZifyBool ZifyNat.

Theorem len_le_capacity b cap ls :
  let a := fst (arun (init b cap) ls) in (len (queue (ch a)) <= capacity (ch a))%N.
Proof. simpl. pose proof (reachable_inv b cap ls) as (_ & HQ & _). apply (i_cap _ HQ). Qed.

(* senders wait only while the buffer is full; receivers wait only while it is empty *)
Theorem waiters_coupling b cap ls :
  let a := fst (arun (init b cap) ls) in
  wait_list (ch a) <> [] ->
  (recv_blocking (ch a) = false -> len (queue (ch a)) = capacity (ch a)) /\
  (recv_blocking (ch a) = true -> queue (ch a) = []).
Proof.
  simpl. pose proof (reachable_inv b cap ls) as (_ & HQ & _). destruct HQ as [Cp Re Sf].
  intros Hw. split; intros F; auto. specialize (Sf F Hw). lia.
Qed.

(* a non-blocking send on an open channel is refused exactly when the buffer is full and no receiver waits *)
Theorem try_send_refused_iff a h x opt :
  Inv a -> is_side a h SSend = true -> recv_count (ch a) <> 0%N ->
  (r_res (snd (step_try_send a h x opt)) = ROkB false <->
   (len (queue (ch a)) = capacity (ch a) /\ (recv_blocking (ch a) = false \/ wait_list (ch a) = []))).
Proof.
  intros HI Hs Hr. unfold step_try_send. rewrite Hs. simpl.
  pose proof (cs_send_case a x HI) as Hc. pose proof HI as (_ & HQ & _). destruct HQ as [Cp _ _].
  destruct Hc as [E0|k r0 o N0 F W Ho Hsd Hv|c1 N0 Hn Hl|c1 N0 Hn Hl].
  - congruence.
  - simpl. split; [destruct opt; discriminate|].
    intros [_ [F'|W']]; [congruence|]. rewrite W in W'. discriminate.
  - simpl. split; [destruct opt; discriminate|].
    intros [Hfull _]. destruct (no_recv_inv a c1 HI Hn) as (_ & _ & Q1 & _ & C1 & _). rewrite Q1, C1 in Hl. lia.
  - simpl. split; [|destruct opt; reflexivity].
    intros _. destruct (no_recv_inv a c1 HI Hn) as (_ & _ & Q1 & _ & C1 & _). rewrite Q1, C1 in Hl.
    split; [lia|]. destruct Hn as [[F _]|(_ & W & _)]; auto.
Qed.

(* an unbounded channel never refuses and never blocks a send (while fewer than usize::MAX values are queued) *)
Theorem unbounded_never_full a x r :
  Inv a -> capacity (ch a) = usize_max -> (len (queue (ch a)) < usize_max)%N ->
  send_case a x r -> match r with SCFull _ => False | _ => True end.
Proof.
  intros HI Hcap Hlen Hc.
  destruct Hc as [E0|k r0 o N0 F W Ho Hsd Hv|c1 N0 Hn Hl|c1 N0 Hn Hl]; auto.
  destruct (no_recv_inv a c1 HI Hn) as (_ & _ & Q1 & _ & C1 & _). rewrite Q1, C1, Hcap in Hl. lia.
Qed.

(* rendezvous: with capacity 0 nothing is ever buffered, so a send returns Ok at once only by
   handing its value to a waiting receiver *)
Theorem rendezvous_direct a k h x kd :
  Inv a -> capacity (ch a) = 0%N ->
  r_res (snd (step_send_like a k h x kd)) = ROk ->
  exists kr r o, recv_blocking (ch a) = true /\ wait_list (ch a) = kr :: r /\ lookup kr (objs a) = Some o /\
                 lookup kr (objs (fst (step_send_like a k h x kd))) = Some (fin_deliver o x).
Proof.
  intros HI Hcap. unfold step_send_like.
  destruct (negb (is_side a h SSend) || negb (fresh a k)); simpl; [discriminate|].
  pose proof (cs_send_case a x HI) as Hc.
  destruct Hc as [E0|kr r0 o N0 F W Ho Hsd Hv|c1 N0 Hn Hl|c1 N0 Hn Hl]; simpl.
  - destruct kd; discriminate.
  - intros _. exists kr, r0, o. repeat split; auto. apply lookup_update_eq. eapply lookup_in; eauto.
  - destruct (no_recv_inv a c1 HI Hn) as (_ & _ & Q1 & _ & C1 & _). rewrite C1, Hcap in Hl. lia.
  - discriminate.
Qed.
