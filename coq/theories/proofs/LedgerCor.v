(* LedgerCor.v - corollaries of conservation used by the property files C01, C05 *)
From KV Require Import Base Chan Atomic.
From KV.proofs Require Import Assoc Inv Cases StepInv Ledger.
From Coq Require Import Permutation.

(* with pairwise distinct offered values: nothing is delivered, destroyed or kept twice *)
Theorem exactly_once b cap ls :
  NoDup (offered_run (init b cap) ls) ->
  let '(a, os) := arun (init b cap) ls in
  NoDup (outs_received os ++ outs_dropped os ++ outs_back os ++ held a) /\
  (forall x, In x (outs_received os) -> In x (offered_run (init b cap) ls)) /\
  (forall x, In x (offered_run (init b cap) ls) ->
             In x (outs_received os) \/ In x (outs_dropped os) \/ In x (outs_back os) \/ In x (held a)).
Proof.
  intros Hnd. pose proof (ledger_conservation b cap ls) as H.
  destruct (arun (init b cap) ls) as [a os]. split; [|split].
  - eapply Permutation_NoDup; eauto.
  - intros x Hx. eapply Permutation_in; [apply Permutation_sym; exact H|]. apply in_or_app. left. exact Hx.
  - intros x Hx. pose proof (Permutation_in _ H Hx) as Hi.
    repeat (apply in_app_or in Hi; destruct Hi as [Hi|Hi]; auto).
Qed.

(* a value that was received was not also destroyed or handed back, and is not still held *)
Lemma nodup_app_disjoint (l1 l2 : list tag) : NoDup (l1 ++ l2) -> forall y, In y l1 -> ~ In y l2.
Proof.
  intros Hd y Hy Hy2. induction l1 as [|z l1 IH]; [destruct Hy|].
  simpl in Hd. inversion Hd as [|? ? Hn Hd']; subst. destruct Hy as [->|Hy].
  - apply Hn. apply in_or_app. right. exact Hy2.
  - apply IH; auto.
Qed.

Corollary received_not_elsewhere b cap ls x :
  NoDup (offered_run (init b cap) ls) ->
  let '(a, os) := arun (init b cap) ls in
  In x (outs_received os) -> ~ In x (outs_dropped os) /\ ~ In x (outs_back os) /\ ~ In x (held a).
Proof.
  intros Hnd. pose proof (exactly_once b cap ls Hnd) as H.
  destruct (arun (init b cap) ls) as [a os]. destruct H as (H & _ & _). intros Hx.
  pose proof (nodup_app_disjoint _ _ H x Hx) as Hn.
  repeat split; intros Hc; apply Hn; rewrite !in_app_iff; auto.
Qed.

(* immediate failure of a send hands the value back or destroys it in that very step *)
Lemma send_like_failure a k h x kd e :
  r_res (snd (step_send_like a k h x kd)) = RErr e ->
  out_tags (snd (step_send_like a k h x kd)) = [x] /\ fst (step_send_like a k h x kd) = a.
Proof.
  unfold step_send_like.
  destruct (negb (is_side a h SSend) || negb (fresh a k)); simpl; [discriminate|].
  destruct (cs_send a x); simpl; try discriminate. intros _. destruct kd; auto.
Qed.

Lemma try_send_refused a h x opt :
  (exists e, r_res (snd (step_try_send a h x opt)) = RErr e) \/ r_res (snd (step_try_send a h x opt)) = ROkB false ->
  out_tags (snd (step_try_send a h x opt)) = [x] /\
  r_back (snd (step_try_send a h x opt)) = (if opt then [x] else []).
Proof.
  unfold step_try_send. destruct (negb (is_side a h SSend)); simpl.
  - intros [[e H]|H]; discriminate.
  - destruct (cs_send a x); simpl; destruct opt; simpl; intros [[e' H]|H]; try discriminate; auto.
Qed.

Lemma try_send_accepted a h x opt :
  r_res (snd (step_try_send a h x opt)) = ROkB true ->
  out_tags (snd (step_try_send a h x opt)) = [] .
Proof.
  unfold step_try_send. destruct (negb (is_side a h SSend)); simpl; [discriminate|].
  destruct (cs_send a x); simpl; destruct opt; simpl; intros H; try discriminate; auto.
Qed.
