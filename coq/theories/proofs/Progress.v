(* Progress.v - C06 at the level of the atomic channel: the operation at the head of the wait list is
   completed (and its thread / waker woken) by the very next counterpart operation that gets through. *)
From KV Require Import Base Chan Atomic.
From KV.proofs Require Import Assoc Inv Cases.
From Coq Require Import ZifyN ZifyBool ZifyNat.

Theorem send_completes_first_blocked_receiver a x k r :
  Inv a -> recv_count (ch a) <> 0%N -> recv_blocking (ch a) = true -> wait_list (ch a) = k :: r ->
  exists o, lookup k (objs a) = Some o /\ is_send o = false /\ o_sig o = SLocked /\
    cs_send a x = SCSent (mkConf (set_wait (ch a) r) (update k (fin_deliver o x) (objs a)) (handles a)) (wake_of o).
Proof.
  intros HI Hc Hf Hw.
  destruct (head_listed a k r HI Hw) as (o & Ho & _ & Hs & Hfl & _).
  exists o. split; [exact Ho|]. rewrite Hf in Hfl.
  assert (Hsend : is_send o = false) by (destruct (is_send o); simpl in Hfl; congruence).
  split; [exact Hsend|]. split; [exact Hs|].
  pose proof (cs_send_case a x HI) as Hcase. inversion Hcase as [E0|k' r' o' Hn Hb Hw' Ho' Hs' Hv Heq|c1 Hn Hnr Hlt Heq|c1 Hn Hnr Hlt Heq].
  - congruence.
  - rewrite Hw in Hw'. injection Hw' as <- <-. rewrite Ho in Ho'. injection Ho' as <-. reflexivity.
  - destruct Hnr as [[Hb _]|[_ [Hwl _]]]; congruence.
  - destruct Hnr as [[Hb _]|[_ [Hwl _]]]; congruence.
Qed.

Theorem recv_completes_first_blocked_sender a k r :
  Inv a -> recv_count (ch a) <> 0%N -> recv_blocking (ch a) = false -> wait_list (ch a) = k :: r ->
  exists o y v a', lookup k (objs a) = Some o /\ is_send o = true /\ o_val o = Some y /\
    cs_recv a = RCGot v a' (wake_of o) /\
    lookup k (objs a') = Some (fin_take o) /\ wait_list (ch a') = r.
Proof.
  intros HI Hc Hf Hw.
  pose proof (cs_recv_case a HI) as Hcase.
  inversion Hcase as [E0|v q k' r' o y Hn Hq Hb Hw' Ho Hs Hv Heq|v q c1 Hn Hq Hns Heq|k' r' o y Hn Hq Hb Hw' Ho Hs Hv Heq|c1 Hn Hq Hns Heq].
  - congruence.
  - rewrite Hw in Hw'. injection Hw' as <- <-.
    exists o, y, v, (mkConf (set_queue (set_wait (set_queue (ch a) q) r) (q ++ [y])) (update k (fin_take o) (objs a)) (handles a)).
    repeat (split; [assumption || reflexivity|]). split; [|reflexivity].
    simpl. apply lookup_update_eq. eapply lookup_in; eauto.
  - destruct Hns as [[Hb _]|[_ [Hwl _]]]; simpl in *; congruence.
  - rewrite Hw in Hw'. injection Hw' as <- <-.
    exists o, y, y, (mkConf (set_wait (ch a) r) (update k (fin_take o) (objs a)) (handles a)).
    repeat (split; [assumption || reflexivity|]). split; [|reflexivity].
    simpl. apply lookup_update_eq. eapply lookup_in; eauto.
  - destruct Hns as [[Hb _]|[_ [Hwl _]]]; simpl in *; congruence.
Qed.
