(* Ops.v - per-operation facts for C13 (timed), C14 (non-blocking), C15 (dropping a future),
   C16 (polling contract), over the Atomic model under its invariant *)
From KV Require Import Base Chan Atomic.
From KV.proofs Require Import Assoc Inv Cases StepInv Ledger Fifo.
From Coq Require Import ZifyN ZifyBool ZifyNat.

Lemma listed_of_locked a k o :
  Inv a -> lookup k (objs a) = Some o -> o_fst o = FWaiting -> o_sig o = SLocked ->
  In k (wait_list (ch a)) /\ recv_blocking (ch a) = negb (is_send o) /\ has_val o = is_send o.
Proof.
  intros (HO & _ & _) Ho Hf Hs. pose proof (i_obj _ _ _ _ HO k o Ho) as Hok.
  unfold obj_okb in Hok. rewrite Hf, Hs in Hok.
  destruct (mem k (wait_list (ch a))) eqn:E; [|discriminate]. simpl in Hok.
  apply andb_prop in Hok as [H1 H2]. apply eqb_prop in H1, H2. apply mem_in in E. auto.
Qed.

(* ---------------- C13 ---------------- *)
(* the deadline passes while the timed call is still unfinished: it removes itself under the lock
   and reports Timeout; its value (a send) is destroyed or handed back in that step; nothing of it
   stays in the channel *)
Theorem timeout_fires a k o :
  Inv a -> lookup k (objs a) = Some o -> kind_timed (o_kind o) = true -> o_sig o = SLocked ->
  let '(a', out) := step_timeout a k in
  r_res out = RErr ETimeout /\ lookup k (objs a') = None /\ ~ In k (wait_list (ch a')) /\
  wait_list (ch a') = remove_first k (wait_list (ch a)) /\
  r_drops out ++ r_back out = oval o /\ res_received (r_res out) = [].
Proof.
  intros HI Ho Hkt Hsig. pose proof HI as (HO & _ & _).
  pose proof (i_obj _ _ _ _ HO k o Ho) as Hok.
  assert (Hfst : o_fst o = FWaiting).
  { apply (okb_sync _ _ _ Hok). destruct (o_kind o); simpl in *; auto; discriminate. }
  destruct (listed_of_locked a k o HI Ho Hfst Hsig) as (Hin & Hfl & Hv).
  unfold step_timeout. rewrite Ho, Hkt, Hsig. simpl.
  assert (Hnl : lookup k (remove_key k (objs a)) = None) by (apply lookup_remove_eq; apply (i_keys _ _ _ _ HO)).
  assert (Hnw : ~ In k (remove_first k (wait_list (ch a)))) by (apply remove_first_notin; apply (i_wl _ _ _ _ HO)).
  unfold is_send in *.
  destruct (kind_side (o_kind o)) eqn:Hside; simpl in Hfl.
  - unfold cancel_send_signal. rewrite Hfl. apply mem_in in Hin. rewrite Hin. simpl.
    apply has_val_true in Hv as [x Hx]. unfold oval. rewrite Hx.
    destruct (o_kind o); simpl in *; try discriminate; repeat split; auto.
  - unfold cancel_recv_signal. rewrite Hfl. apply mem_in in Hin. rewrite Hin. simpl.
    apply has_val_false in Hv. unfold oval. rewrite Hv.
    destruct (o_kind o); simpl in *; try discriminate; repeat split; auto.
Qed.

(* once a peer has finished the signal the timeout can no longer fire: the peer's verdict stands *)
Theorem timeout_defers_to_the_peer a k o :
  lookup k (objs a) = Some o -> o_sig o <> SLocked -> step_timeout a k = invalid a.
Proof.
  intros Ho Hs. unfold step_timeout. rewrite Ho. destruct (negb (kind_timed (o_kind o))); auto.
  destruct (o_sig o); auto. congruence.
Qed.

(* ---------------- C14 ---------------- *)
(* a non-blocking send never registers a waiter, and when refused leaves everything but the lazy
   direction flag as it was *)
Theorem try_send_never_registers a h x opt :
  Inv a -> keys (objs (fst (step_try_send a h x opt))) = keys (objs a) /\
           (forall k, In k (wait_list (ch (fst (step_try_send a h x opt)))) -> In k (wait_list (ch a))).
Proof.
  intros HI. unfold step_try_send. destruct (negb (is_side a h SSend)); simpl; auto.
  pose proof (cs_send_case a x HI) as Hc.
  destruct Hc as [E0|k r0 o N0 F W Ho Hs Hv|c1 N0 Hn Hl|c1 N0 Hn Hl]; simpl; auto.
  - split; [apply keys_update|]. intros k' Hk. rewrite W. right. exact Hk.
  - rewrite (no_recv_wl _ _ Hn). auto.
  - rewrite (no_recv_wl _ _ Hn). auto.
Qed.

Theorem try_send_refused_changes_nothing a h x opt :
  Inv a -> r_res (snd (step_try_send a h x opt)) = ROkB false ->
  let a' := fst (step_try_send a h x opt) in
  queue (ch a') = queue (ch a) /\ wait_list (ch a') = wait_list (ch a) /\ objs a' = objs a /\
  handles a' = handles a /\ send_count (ch a') = send_count (ch a) /\ recv_count (ch a') = recv_count (ch a).
Proof.
  intros HI. unfold step_try_send. destruct (negb (is_side a h SSend)); simpl; [discriminate|].
  pose proof (cs_send_case a x HI) as Hc.
  destruct Hc as [E0|k r0 o N0 F W Ho Hs Hv|c1 N0 Hn Hl|c1 N0 Hn Hl]; simpl; destruct opt; simpl; try discriminate; intros _;
    destruct Hn as [[_ ->]|(_ & _ & ->)]; simpl; auto 10.
Qed.

Theorem try_recv_never_registers a h :
  Inv a -> keys (objs (fst (step_try_recv a h))) = keys (objs a) /\
           (forall k, In k (wait_list (ch (fst (step_try_recv a h)))) -> In k (wait_list (ch a))).
Proof.
  intros HI. unfold step_try_recv. destruct (negb (is_side a h SRecv)); simpl; auto.
  pose proof (cs_recv_case a HI) as Hc.
  destruct Hc as [E0|v q k r0 o y N0 Q F W Ho Hs Hv|v q c1 N0 Q Hn|k r0 o y N0 Q F W Ho Hs Hv|c1 N0 Q Hn]; simpl; auto.
  - split; [apply keys_update|]. intros k' Hk. rewrite W. right. exact Hk.
  - rewrite (no_send_wl _ _ Hn). auto.
  - split; [apply keys_update|]. intros k' Hk. rewrite W. right. exact Hk.
  - destruct (N.eqb (send_count c1) 0); simpl; rewrite (no_send_wl _ _ Hn); auto.
Qed.

(* the realtime variants give up at once when the lock is taken: nothing changes, the value comes back *)
Theorem realtime_busy_gives_up a h x :
  is_side a h SSend = true ->
  astep a (LTrySendRT h x true) = (a, mkOut (ROkB false) [x] [] []) /\
  astep a (LTrySendOptRT h (Some x) true) = (a, mkOut (ROkB false) [] [] [x]).
Proof. intros Hs. simpl. rewrite Hs. auto. Qed.

(* ---------------- C15 ---------------- *)
Theorem drop_future_spec a f o :
  Inv a -> lookup f (objs a) = Some o -> kind_async (o_kind o) = true ->
  let '(a', out) := step_drop_fut a f in
  r_res out = RUnit /\ lookup f (objs a') = None /\ ~ In f (wait_list (ch a')) /\
  wait_list (ch a') = remove_first f (wait_list (ch a)) /\
  r_drops out = oval o /\ r_back out = [] /\ res_received (r_res out) = [].
Proof.
  intros HI Ho Hka. pose proof HI as (HO & _ & _).
  pose proof (i_obj _ _ _ _ HO f o Ho) as Hok.
  pose proof (okb_oval _ _ _ Hok) as Hv.
  assert (Hnl : lookup f (remove_key f (objs a)) = None) by (apply lookup_remove_eq; apply (i_keys _ _ _ _ HO)).
  assert (Hnw : ~ In f (remove_first f (wait_list (ch a)))) by (apply remove_first_notin; apply (i_wl _ _ _ _ HO)).
  assert (Hsame : ~ In f (wait_list (ch a)) -> remove_first f (wait_list (ch a)) = wait_list (ch a)).
  { intros Hn. generalize (wait_list (ch a)) Hn. clear. induction l as [|y r IH]; simpl; auto.
    intros Hn. destruct (N.eqb_spec f y) as [->|]; [exfalso; apply Hn; left; reflexivity|].
    f_equal. apply IH. intros H. apply Hn. right. exact H. }
  unfold step_drop_fut. rewrite Ho, Hka. simpl.
  unfold is_send in Hv.
  destruct (kind_side (o_kind o)) eqn:Hside; destruct (o_fst o) eqn:Hfst; simpl in *.
  - (* send, Zero *)
    assert (Hn : ~ In f (wait_list (ch a))) by (eapply unlisted_of_sig; eauto; right; congruence).
    rewrite (Hsame Hn). unfold oval. destruct (o_val o); repeat split; auto.
  - (* send, Waiting *)
    destruct (o_sig o) eqn:Hsig.
    + destruct (listed_of_locked a f o HI Ho Hfst Hsig) as (Hin & Hfl & Hv').
      unfold is_send in Hfl. rewrite Hside in Hfl. simpl in Hfl.
      unfold cancel_send_signal. rewrite Hfl. apply mem_in in Hin. rewrite Hin. simpl.
      unfold oval. destruct (o_val o); repeat split; auto.
    + assert (Hn : ~ In f (wait_list (ch a))) by (eapply unlisted_of_sig; eauto; left; congruence).
      destruct (cancel_send_case (ch a) f) as [(_ & _ & Hin & _)| ->]; [tauto|]. simpl.
      rewrite (Hsame Hn). rewrite (oval_has_val o Hv). repeat split; auto.
    + assert (Hn : ~ In f (wait_list (ch a))) by (eapply unlisted_of_sig; eauto; left; congruence).
      destruct (cancel_send_case (ch a) f) as [(_ & _ & Hin & _)| ->]; [tauto|]. simpl.
      rewrite (Hsame Hn). unfold oval. destruct (o_val o); repeat split; auto.
  - assert (Hn : ~ In f (wait_list (ch a))) by (eapply unlisted_of_sig; eauto; right; congruence).
    rewrite (Hsame Hn). assert (Hv' : has_val o = false) by (destruct (o_sig o); exact Hv).
    rewrite (oval_has_val o Hv'). repeat split; auto.
  - assert (Hn : ~ In f (wait_list (ch a))) by (eapply unlisted_of_sig; eauto; right; congruence).
    rewrite (Hsame Hn). rewrite (oval_has_val o Hv). repeat split; auto.
  - destruct (o_sig o) eqn:Hsig.
    + destruct (listed_of_locked a f o HI Ho Hfst Hsig) as (Hin & Hfl & Hv').
      unfold is_send in Hfl, Hv'. rewrite Hside in Hfl, Hv'. simpl in Hfl.
      unfold cancel_recv_signal. rewrite Hfl. apply mem_in in Hin. rewrite Hin. simpl.
      rewrite (oval_has_val o Hv'). repeat split; auto.
    + assert (Hn : ~ In f (wait_list (ch a))) by (eapply unlisted_of_sig; eauto; left; congruence).
      destruct (cancel_recv_case (ch a) f) as [(_ & _ & Hin & _)| ->]; [tauto|]. simpl.
      rewrite (Hsame Hn). unfold oval. destruct (o_val o); repeat split; auto.
    + assert (Hn : ~ In f (wait_list (ch a))) by (eapply unlisted_of_sig; eauto; left; congruence).
      destruct (cancel_recv_case (ch a) f) as [(_ & _ & Hin & _)| ->]; [tauto|]. simpl.
      rewrite (Hsame Hn). rewrite (oval_has_val o Hv). repeat split; auto.
  - assert (Hn : ~ In f (wait_list (ch a))) by (eapply unlisted_of_sig; eauto; right; congruence).
    rewrite (Hsame Hn). assert (Hv' : has_val o = false) by (destruct (o_sig o); exact Hv).
    rewrite (oval_has_val o Hv'). repeat split; auto.
Qed.

(* the value a dropped future destroys is at most one *)
Lemma oval_at_most_one o : length (oval o) <= 1.
Proof. unfold oval. destruct (o_val o); simpl; lia. Qed.

(* ---------------- C16 ---------------- *)
(* a spurious poll of a registered, unfinished future: Pending, nothing moves, at most the
   registered waker is replaced by the one just supplied *)
Theorem spurious_poll_send a f o w :
  Inv a -> lookup f (objs a) = Some o -> o_kind o = KSendFut -> o_fst o = FWaiting -> o_sig o = SLocked ->
  poll_send a f o w = (put a f (set_waker o (Some w)), PPending, [], []) \/
  (o_waker o = Some w /\ poll_send a f o w = (a, PPending, [], [])).
Proof.
  intros HI Ho Hk Hf Hs. unfold poll_send. rewrite Hf, Hs.
  destruct (listed_of_locked a f o HI Ho Hf Hs) as (Hin & Hfl & _).
  unfold is_send in Hfl. rewrite Hk in Hfl. simpl in Hfl.
  unfold send_signal_exists. rewrite Hfl. apply mem_in in Hin. rewrite Hin.
  destruct (o_waker o) as [w'|]; [|left; reflexivity].
  destruct (N.eqb_spec w' w) as [->|Hn]; [right; auto|left; reflexivity].
Qed.

Theorem spurious_poll_recv a f o w :
  Inv a -> lookup f (objs a) = Some o -> (o_kind o = KRecvFut \/ o_kind o = KStream) ->
  o_fst o = FWaiting -> o_sig o = SLocked ->
  poll_recv a f o w = (put a f (set_waker o (Some w)), PPending, [], []) \/
  (o_waker o = Some w /\ poll_recv a f o w = (a, PPending, [], [])).
Proof.
  intros HI Ho Hk Hf Hs. unfold poll_recv. rewrite Hf, Hs.
  destruct (listed_of_locked a f o HI Ho Hf Hs) as (Hin & Hfl & _).
  unfold is_send in Hfl. assert (Hfl' : recv_blocking (ch a) = true) by (destruct Hk as [Hk|Hk]; rewrite Hk in Hfl; exact Hfl).
  unfold recv_signal_exists. rewrite Hfl'. apply mem_in in Hin. rewrite Hin. simpl.
  destruct (o_waker o) as [w'|]; [|left; reflexivity].
  destruct (N.eqb_spec w' w) as [->|Hn]; [right; auto|left; reflexivity].
Qed.

(* a completed (non-stream) future panics when polled again, and nothing changes *)
Theorem poll_after_completion a f o w :
  lookup f (objs a) = Some o -> o_fst o = FDone -> (o_kind o = KSendFut \/ o_kind o = KRecvFut) ->
  step_poll a f w = (a, out_of RPanic).
Proof.
  intros Ho Hf [Hk|Hk]; unfold step_poll; rewrite Ho, Hk; simpl.
  - unfold poll_send. rewrite Hf. reflexivity.
  - unfold poll_recv. rewrite Hf, Hk. reflexivity.
Qed.

(* an ended stream keeps reporting the end *)
Theorem stream_end_is_final a f o w :
  lookup f (objs a) = Some o -> o_kind o = KStream -> o_term o = true -> step_poll a f w = (a, out_of RNone).
Proof. intros Ho Hk Ht. unfold step_poll. rewrite Ho, Hk, Ht. reflexivity. Qed.

(* the peer that finishes a registered async waiter wakes the waker registered by the latest poll *)
Theorem wake_uses_registered_waker o w :
  kind_async (o_kind o) = true -> o_waker o = Some w -> wake_of o = [w].
Proof. intros Hk Hw. unfold wake_of. rewrite Hk, Hw. reflexivity. Qed.
