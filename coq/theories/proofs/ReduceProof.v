From KV Require Import Mem Mutex.
From KV.proofs Require Import MutexProof.
From Coq Require Import List Lia Bool NArith.
Import ListNotations.
From KV Require Import Reduce.

Section ReduceProof.
  Variables (S L O : Type).
  Variable exec : O -> S -> L -> S * L.
  Variables (o_s o_u : ordering).

  Notation fstate := (fstate S L).
  Notation cstate := (cstate S L).
  Notation item := (item L O).
  Notation fstep := (fstep S L O exec o_s o_u).
  Notation frun := (frun S L O exec o_s o_u).
  Notation cstep := (cstep S L O exec).
  Notation crun := (crun S L O exec).
  Notation run_items := (run_items S L O exec).
  Notation ser := (ser L O o_s o_u).
  Notation MI := (MInv (mutex_ords_ok o_s o_u)).

  Lemma mstep_pc_other m t e m' u :
    mstep o_s o_u m t e = Some m' -> u <> t -> m_pc m' u = m_pc m u.
  Proof.
    intros E Hu. unfold mstep in E.
    assert (Hc : forall ok fpc, cas o_s m t ok fpc = Some m' -> m_pc m' u = m_pc m u).
    { intros ok fpc Ec. unfold cas in Ec.
      destruct (m_flag m); destruct ok; try discriminate;
        try (destruct (is_acq o_s && m_deposited m)); injection Ec as <-; simpl; apply upd_other; exact Hu. }
    destruct e; destruct (m_pc m t); try discriminate; eauto.
    - injection E as <-. reflexivity.
    - destruct (m_owner m) as [t'|]; [destruct (N.eqb t' t)|]; injection E as <-; simpl; apply upd_other; exact Hu.
    - injection E as <-. reflexivity.
  Qed.

  Lemma holds_other m t e m' u :
    mstep o_s o_u m t e = Some m' -> u <> t -> holds m' u = holds m u.
  Proof. intros E Hu. unfold holds. rewrite (mstep_pc_other _ _ _ _ _ E Hu). reflexivity. Qed.

  Lemma holds_excl m t1 t2 : MI m -> holds m t1 = true -> holds m t2 = true -> t1 = t2.
  Proof.
    intros HI H1 H2. apply (mi_excl _ _ HI); unfold holds in *.
    - destruct (m_pc m t1); congruence.
    - destruct (m_pc m t2); congruence.
  Qed.

  Lemma updl_same (loc : N -> L) t v : updl L loc t v t = v.
  Proof. unfold updl. rewrite N.eqb_refl. reflexivity. Qed.
  Lemma updl_other (loc : N -> L) t v x : x <> t -> updl L loc t v x = loc x.
  Proof. unfold updl. intros H. destruct (N.eqb_spec x t); [congruence|reflexivity]. Qed.

  Definition Rel (s : fstate) (c : cstate) (pend : list item) : Prop :=
    (forall h, holds (f_m _ _ s) h = true ->
       run_items (c_sh _ _ c, c_loc _ _ c h) pend = (f_sh _ _ s, f_loc _ _ s h)
       /\ forall u, u <> h -> c_loc _ _ c u = f_loc _ _ s u)
    /\ (lock_free (f_m _ _ s) ->
        pend = [] /\ c_sh _ _ c = f_sh _ _ s /\ forall u, c_loc _ _ c u = f_loc _ _ s u).

  Lemma fstep_inv s t e s1 : MI (f_m _ _ s) -> fstep s t e = Some s1 -> MI (f_m _ _ s1).
  Proof.
    intros HI E. destruct e as [me|o|g]; simpl in E.
    - destruct me; try discriminate;
        match type of E with context [mstep ?a ?b ?c ?d ?e] => destruct (mstep a b c d e) as [m'|] eqn:Em end;
        try discriminate; injection E as <-; simpl; eapply mstep_inv; eauto.
    - destruct (holds (f_m _ _ s) t); [|discriminate]. injection E as <-. exact HI.
    - injection E as <-. exact HI.
  Qed.

  Lemma run_items_app p a b : run_items p (a ++ b) = run_items (run_items p a) b.
  Proof. unfold Reduce.run_items. apply fold_left_app. Qed.

  (* one fine step against the serialisation: the relation is kept *)
  Lemma step_rel s c pend t e s1 :
    MI (f_m _ _ s) -> Rel s c pend -> fstep s t e = Some s1 ->
    exists secs pend', 
      (forall r, ser (f_m _ _ s) pend ((t, e) :: r) = secs ++ ser (f_m _ _ s1) pend' r)
      /\ Rel s1 (crun c secs) pend'.
  Proof.
    intros HI [HR1 HR2] E. destruct e as [me|o|g].
    - (* lock protocol *)
      assert (Em : exists m', mstep o_s o_u (f_m _ _ s) t me = Some m' /\ s1 = mkF _ _ m' (f_sh _ _ s) (f_loc _ _ s)).
      { simpl in E. destruct me; try discriminate;
          match type of E with context [mstep ?a ?b ?c ?d ?e] => destruct (mstep a b c d e) as [m'|] eqn:Em end;
          try discriminate; injection E as <-; eauto. }
      destruct Em as [m' [Em ->]].
      pose proof (mstep_inv _ _ _ _ _ _ HI Em) as HI'.
      destruct (holds (f_m _ _ s) t) eqn:Ht; destruct (holds m' t) eqn:Ht'.
      + (* still inside *)
        exists [], pend. split.
        * intros r. simpl. rewrite Em, Ht, Ht'. reflexivity.
        * simpl. split; simpl.
          -- intros h Hh. assert (h = t) by (eapply (holds_excl m'); eauto). subst h. apply HR1. exact Ht.
          -- intros Hf. rewrite (Hf t) in Ht'. discriminate.
      + (* the unlock: the section is emitted *)
        exists [(t, pend)], []. split.
        * intros r. simpl. rewrite Em, Ht, Ht'. reflexivity.
        * destruct (HR1 t Ht) as [Hrun Hoth].
          assert (Hfree : lock_free m').
          { intros u. destruct (N.eq_dec u t) as [->|Hu]; [exact Ht'|].
            rewrite (holds_other _ _ _ _ _ Em Hu). destruct (holds (f_m _ _ s) u) eqn:Hu'; [|reflexivity].
            exfalso. apply Hu. eapply (holds_excl (f_m _ _ s)); eauto. }
          split; simpl.
          -- intros h Hh. rewrite (Hfree h) in Hh. discriminate.
          -- intros _. unfold Reduce.cstep; simpl. fold (run_items (c_sh _ _ c, c_loc _ _ c t) pend). rewrite Hrun. simpl.
             split; [reflexivity|split; [reflexivity|]].
             intros u. destruct (N.eq_dec u t) as [->|Hu]; [apply updl_same|].
             rewrite updl_other by exact Hu. apply Hoth. exact Hu.
      + (* the acquisition *)
        exists [], pend. split.
        * intros r. simpl. rewrite Em, Ht, Ht'. reflexivity.
        * assert (Hfree : lock_free (f_m _ _ s)).
          { intros u. destruct (N.eq_dec u t) as [->|Hu]; [exact Ht|].
            rewrite <- (holds_other _ _ _ _ _ Em Hu). destruct (holds m' u) eqn:Hu'; [|reflexivity].
            exfalso. apply Hu. eapply (holds_excl m'); eauto. }
          destruct (HR2 Hfree) as [-> [Hsh Hloc]].
          split; simpl.
          -- intros h Hh. assert (h = t) by (eapply (holds_excl m'); eauto). subst h.
             split; [unfold Reduce.run_items; simpl; rewrite Hsh, Hloc; reflexivity|]. intros u _. apply Hloc.
          -- intros Hf. rewrite (Hf t) in Ht'. discriminate.
      + (* an event of a thread that is outside: attempts, pauses *)
        exists [], pend. split.
        * intros r. simpl. rewrite Em, Ht, Ht'. reflexivity.
        * split; simpl.
          -- intros h Hh. assert (Hne : h <> t) by (intros ->; congruence).
             rewrite (holds_other _ _ _ _ _ Em Hne) in Hh. apply HR1. exact Hh.
          -- intros Hf. apply HR2. intros u. destruct (N.eq_dec u t) as [->|Hu]; [exact Ht|].
             rewrite <- (holds_other _ _ _ _ _ Em Hu). apply Hf.
    - (* micro-operation inside the critical section *)
      simpl in E. destruct (holds (f_m _ _ s) t) eqn:Ht; [|discriminate]. injection E as <-.
      exists [], (pend ++ [IOp _ _ o]). split; [intros r; reflexivity|].
      destruct (HR1 t Ht) as [Hrun Hoth]. split; simpl.
      + intros h Hh. assert (h = t) by (eapply (holds_excl (f_m _ _ s)); eauto). subst h.
        rewrite run_items_app, Hrun. unfold Reduce.run_items; simpl. rewrite updl_same.
        split; [destruct (exec o (f_sh _ _ s) (f_loc _ _ s t)); reflexivity|].
        intros u Hu. rewrite updl_other by exact Hu. apply Hoth. exact Hu.
      + intros Hf. rewrite (Hf t) in Ht. discriminate.
    - (* private computation *)
      simpl in E. injection E as <-. destruct (holds (f_m _ _ s) t) eqn:Ht.
      + exists [], (pend ++ [ILoc _ _ g]). split; [intros r; simpl; rewrite Ht; reflexivity|].
        destruct (HR1 t Ht) as [Hrun Hoth]. split; simpl.
        * intros h Hh. assert (h = t) by (eapply (holds_excl (f_m _ _ s)); eauto). subst h.
          rewrite run_items_app, Hrun. unfold Reduce.run_items; simpl. rewrite updl_same.
          split; [reflexivity|]. intros u Hu. rewrite updl_other by exact Hu. apply Hoth. exact Hu.
        * intros Hf. rewrite (Hf t) in Ht. discriminate.
      + exists [(t, [ILoc _ _ g])], pend. split; [intros r; simpl; rewrite Ht; reflexivity|].
        split; simpl.
        * intros h Hh. assert (Hne : h <> t) by (intros ->; congruence).
          destruct (HR1 h Hh) as [Hrun Hoth].
          rewrite !updl_other by exact Hne. split; [exact Hrun|].
          intros u Hu. destruct (N.eq_dec u t) as [->|Hut].
          -- rewrite !updl_same. unfold Reduce.run_items; simpl. rewrite (Hoth t) by (intros ->; congruence). reflexivity.
          -- rewrite !updl_other by exact Hut. apply Hoth. exact Hu.
        * intros Hf. destruct (HR2 Hf) as [-> [Hsh Hloc]]. split; [reflexivity|split; [exact Hsh|]].
          intros u. destruct (N.eq_dec u t) as [->|Hut].
          -- rewrite !updl_same. unfold Reduce.run_items; simpl. rewrite Hloc. reflexivity.
          -- rewrite !updl_other by exact Hut. apply Hloc.
  Qed.

  Lemma crun_app c a b : crun c (a ++ b) = crun (crun c a) b.
  Proof. unfold Reduce.crun. apply fold_left_app. Qed.

  Lemma serialise_gen tr : forall s c pend s',
    MI (f_m _ _ s) -> Rel s c pend -> frun s tr = Some s' -> lock_free (f_m _ _ s') ->
    let c' := crun c (ser (f_m _ _ s) pend tr) in
    c_sh _ _ c' = f_sh _ _ s' /\ forall u, c_loc _ _ c' u = f_loc _ _ s' u.
  Proof.
    induction tr as [|[t e] tr IH]; intros s c pend s' HI HR E Hfree.
    - simpl in E. injection E as <-. simpl. destruct HR as [_ HR2]. destruct (HR2 Hfree) as [_ H]. exact H.
    - simpl in E. destruct (fstep s t e) as [s1|] eqn:E1; [|discriminate].
      destruct (step_rel _ _ _ _ _ _ HI HR E1) as [secs [pend' [Hser HR']]].
      rewrite Hser, crun_app. apply IH; auto. eapply fstep_inv; eauto.
  Qed.

  (* ---- the theorem: every fine-grained execution equals its serialisation ---- *)
  Theorem critical_sections_are_atomic sh loc tr s' :
    frun (finit S L sh loc) tr = Some s' -> lock_free (f_m _ _ s') ->
    let c' := crun (cinit S L sh loc) (ser minit [] tr) in
    c_sh _ _ c' = f_sh _ _ s' /\ forall u, c_loc _ _ c' u = f_loc _ _ s' u.
  Proof.
    intros E Hf. apply (serialise_gen tr (finit S L sh loc) (cinit S L sh loc) [] s'); auto.
    - apply minit_inv.
    - split; simpl.
      + intros h Hh. discriminate.
      + intros _. auto.
  Qed.

  (* ---- and the serialisation keeps every thread's program order ---- *)
  Notation proj := (proj L O).
  Notation cproj := (cproj L O).

  Lemma cproj_app t a b : cproj t (a ++ b) = cproj t a ++ cproj t b.
  Proof.
    induction a as [|[u is] a IH]; simpl; [reflexivity|].
    destruct (N.eqb u t); [rewrite IH, app_assoc; reflexivity|exact IH].
  Qed.

  Lemma order_gen tr : forall s pend s',
    MI (f_m _ _ s) -> (lock_free (f_m _ _ s) -> pend = []) ->
    frun s tr = Some s' -> lock_free (f_m _ _ s') ->
    forall t, cproj t (ser (f_m _ _ s) pend tr) = (if holds (f_m _ _ s) t then pend else []) ++ proj t tr.
  Proof.
    induction tr as [|[u e] tr IH]; intros s pend s' HI Hp E Hfree t.
    - simpl in E. injection E as <-. simpl. rewrite (Hfree t). reflexivity.
    - simpl in E. destruct (fstep s u e) as [s1|] eqn:E1; [|discriminate].
      pose proof (fstep_inv _ _ _ _ HI E1) as HI1.
      destruct e as [me|o|g].
      + assert (Em : exists m', mstep o_s o_u (f_m _ _ s) u me = Some m' /\ s1 = mkF _ _ m' (f_sh _ _ s) (f_loc _ _ s)).
        { simpl in E1. destruct me; try discriminate;
            match type of E1 with context [mstep ?a ?b ?c ?d ?e] => destruct (mstep a b c d e) as [m'|] eqn:Em end;
            try discriminate; injection E1 as <-; eauto. }
        destruct Em as [m' [Em ->]]. simpl in HI1.
        assert (Hproj : proj t ((u, FLock L O me) :: tr) = proj t tr) by reflexivity. rewrite Hproj.
        cbn [Reduce.ser]. rewrite Em.
        destruct (holds (f_m _ _ s) u) eqn:Hu; destruct (holds m' u) eqn:Hu'; cbn [andb negb].
        * (* still inside *)
          rewrite (IH (mkF _ _ m' (f_sh _ _ s) (f_loc _ _ s)) pend s'); auto.
          -- simpl. destruct (N.eq_dec t u) as [->|Hne]; [rewrite Hu, Hu'; reflexivity|].
             rewrite (holds_other _ _ _ _ _ Em Hne). reflexivity.
          -- simpl. intros Hf. rewrite (Hf u) in Hu'. discriminate.
        * (* unlock *)
          assert (Hf' : lock_free m').
          { intros x. destruct (N.eq_dec x u) as [->|Hx]; [exact Hu'|].
            rewrite (holds_other _ _ _ _ _ Em Hx). destruct (holds (f_m _ _ s) x) eqn:Hx'; [|reflexivity].
            exfalso. apply Hx. eapply (holds_excl (f_m _ _ s)); eauto. }
          cbn [Reduce.cproj]. rewrite (IH (mkF _ _ m' (f_sh _ _ s) (f_loc _ _ s)) [] s'); auto.
          simpl. rewrite (Hf' t). destruct (N.eqb_spec u t) as [->|Hne].
          -- rewrite Hu. rewrite app_nil_l. reflexivity.
          -- destruct (holds (f_m _ _ s) t) eqn:Ht; [|reflexivity].
             exfalso. apply Hne. eapply (holds_excl (f_m _ _ s)); eauto.
        * (* acquisition *)
          assert (Hf0 : lock_free (f_m _ _ s)).
          { intros x. destruct (N.eq_dec x u) as [->|Hx]; [exact Hu|].
            rewrite <- (holds_other _ _ _ _ _ Em Hx). destruct (holds m' x) eqn:Hx'; [|reflexivity].
            exfalso. apply Hx. eapply (holds_excl m'); eauto. }
          rewrite (Hp Hf0). rewrite (IH (mkF _ _ m' (f_sh _ _ s) (f_loc _ _ s)) [] s'); auto.
          simpl. rewrite (Hf0 t). destruct (holds m' t); reflexivity.
        * (* outside *)
          rewrite (IH (mkF _ _ m' (f_sh _ _ s) (f_loc _ _ s)) pend s'); auto.
          -- simpl. destruct (N.eq_dec t u) as [->|Hne]; [rewrite Hu, Hu'; reflexivity|].
             rewrite (holds_other _ _ _ _ _ Em Hne). reflexivity.
          -- simpl. intros Hf. apply Hp. intros x. destruct (N.eq_dec x u) as [->|Hx]; [exact Hu|].
             rewrite <- (holds_other _ _ _ _ _ Em Hx). apply Hf.
      + simpl in E1. destruct (holds (f_m _ _ s) u) eqn:Hu; [|discriminate]. injection E1 as <-.
        cbn [Reduce.ser Reduce.proj]. 
        rewrite (IH (mkF _ _ (f_m _ _ s) (fst (exec o (f_sh _ _ s) (f_loc _ _ s u))) (updl L (f_loc _ _ s) u (snd (exec o (f_sh _ _ s) (f_loc _ _ s u))))) (pend ++ [IOp L O o]) s'); auto.
        * simpl. destruct (N.eqb_spec u t) as [->|Hne].
          -- rewrite Hu. rewrite <- app_assoc. reflexivity.
          -- destruct (holds (f_m _ _ s) t) eqn:Ht; [|reflexivity].
             exfalso. apply Hne. eapply (holds_excl (f_m _ _ s)); eauto.
        * simpl. intros Hf. rewrite (Hf u) in Hu. discriminate.
      + simpl in E1. injection E1 as <-. cbn [Reduce.ser Reduce.proj].
        destruct (holds (f_m _ _ s) u) eqn:Hu.
        * rewrite (IH (mkF _ _ (f_m _ _ s) (f_sh _ _ s) (updl L (f_loc _ _ s) u (g (f_loc _ _ s u)))) (pend ++ [ILoc L O g]) s'); auto.
          -- simpl. destruct (N.eqb_spec u t) as [->|Hne].
             ++ rewrite Hu. rewrite <- app_assoc. reflexivity.
             ++ destruct (holds (f_m _ _ s) t) eqn:Ht; [|reflexivity].
                exfalso. apply Hne. eapply (holds_excl (f_m _ _ s)); eauto.
          -- simpl. intros Hf. rewrite (Hf u) in Hu. discriminate.
        * cbn [Reduce.cproj]. rewrite (IH (mkF _ _ (f_m _ _ s) (f_sh _ _ s) (updl L (f_loc _ _ s) u (g (f_loc _ _ s u)))) pend s'); auto.
          simpl. destruct (N.eqb_spec u t) as [->|Hne]; [|reflexivity].
          rewrite Hu. reflexivity.
  Qed.

  Theorem serialisation_keeps_program_order sh loc tr s' :
    frun (finit S L sh loc) tr = Some s' -> lock_free (f_m _ _ s') ->
    forall t, cproj t (ser minit [] tr) = proj t tr.
  Proof.
    intros E Hf t.
    pose proof (order_gen tr (finit S L sh loc) [] s' (minit_inv _) (fun _ => eq_refl) E Hf t) as H.
    simpl in H. rewrite H. destruct (holds minit t); reflexivity.
  Qed.
End ReduceProof.
