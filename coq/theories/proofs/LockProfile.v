(* LockProfile.v - C03 ingredient: every entry point of lib.rs / future.rs acquires the channel
   lock at most once for its own critical section (twice where the code cancels or re-registers
   under the lock): computed on the lock profiles regenerated from the CURRENT source. *)
From KV Require Import Mem.
From KV.gen Require Import Gen_Skel.
From Coq Require Import Ascii.
Open Scope string_scope.

Fixpoint ltrim (s : string) : string :=
  match s with
  | String c r => if Ascii.eqb c " "%char then ltrim r else s
  | EmptyString => s
  end.

(* lines that take the lock: the two helpers, and calls of the crate's own locking methods on self *)
Definition locking_lines : list string :=
  ["acquire_internal"; "try_acquire_internal"; "self.is_closed"; "self.len"; "self.is_empty"; "self.is_full";
   "self.capacity"; "self.receiver_count"; "self.sender_count"; "self.close"; "self.is_disconnected";
   "self.is_terminated"; "self.clone"; "self.try_send"; "self.try_recv"; "self.drain_into"].

Definition acquires (ls : list string) : nat :=
  length (filter (fun l => existsb (String.eqb (ltrim l)) locking_lines) ls).

(* how many acquisition sites an entry point may contain *)
Definition bound (fn : string) : nat :=
  if existsb (String.eqb fn)
       ["lib.Sender.send_timeout"; "lib.Sender.send_option_timeout"; "lib.Receiver.recv_timeout";
        "future.SendFuture.Future.poll"; "future.ReceiveFuture.Future.poll"]
  then 2 else 1.

Definition profile_ok (p : string * list string) : bool := Nat.leb (acquires (snd p)) (bound (fst p)).

Definition offenders : list string := map fst (filter (fun p => negb (profile_ok p)) lock_profiles).

Theorem one_critical_section_per_entry_point : offenders = [].
Proof. vm_compute. reflexivity. Qed.

(* the realtime variants never use the blocking acquisition *)
Definition realtime_fns : list string :=
  ["lib.shared_send_impl.try_send_realtime"; "lib.shared_send_impl.try_send_option_realtime"; "lib.shared_recv_impl.try_recv_realtime"].
Definition uses_blocking_acquire (ls : list string) : bool := existsb (fun l => String.eqb (ltrim l) "acquire_internal") ls.
Definition waits (ls : list string) : bool :=
  existsb (fun l => existsb (fun w => String.eqb (ltrim l) w) ["sig.wait"; "sig.wait_timeout"; "sig.async_blocking_wait"]) ls.

Theorem realtime_never_block_on_the_lock :
  forallb (fun fn => match skel_lookup fn lock_profiles with Some ls => negb (uses_blocking_acquire ls) | None => false end) realtime_fns = true.
Proof. vm_compute. reflexivity. Qed.

(* no try_* / drain_into entry point waits on a signal *)
Definition nonblocking_fns : list string :=
  ["lib.shared_send_impl.try_send"; "lib.shared_send_impl.try_send_option"; "lib.shared_send_impl.try_send_realtime";
   "lib.shared_send_impl.try_send_option_realtime"; "lib.shared_recv_impl.try_recv"; "lib.shared_recv_impl.try_recv_realtime";
   "lib.shared_recv_impl.drain_into"].
Theorem nonblocking_never_wait :
  forallb (fun fn => match skel_lookup fn lock_profiles with Some ls => negb (waits ls) | None => false end) nonblocking_fns = true.
Proof. vm_compute. reflexivity. Qed.
