(* Frames.v - what each step leaves alone: counts and capacity change only through
   clone / drop / close; used by C10, C11, C12, C08. *)
From KV Require Import Base Chan Atomic.
From KV.proofs Require Import Assoc Inv Cases StepInv.
From Coq Require Import ZifyN ZifyBool ZifyNat.

Definition meta (a : aconf) : N * N * N := (recv_count (ch a), send_count (ch a), capacity (ch a)).

Lemma send_case_meta a x r :
  Inv a -> send_case a x r ->
  match r with SCSent a1 _ | SCFull a1 => meta a1 = meta a /\ handles a1 = handles a | SCErr _ => True end.
Proof.
  intros HI Hc. pose proof (send_case_inv a x r HI Hc) as H. unfold meta.
  destruct r as [e|a1 ws|a1]; auto.
  - destruct H as (_ & H1 & R & S & C). rewrite R, S, C. auto.
  - destruct H as (_ & _ & _ & H1 & _ & _ & _ & _ & C & R & S). rewrite R, S, C. auto.
Qed.

Lemma recv_case_meta a r :
  Inv a -> recv_case a r ->
  match r with RCGot _ a1 _ | RCNone a1 => meta a1 = meta a /\ handles a1 = handles a | _ => True end.
Proof.
  intros HI Hc. pose proof (recv_case_inv a r HI Hc) as H. unfold meta.
  destruct r as [|v a1 ws|a1|]; auto.
  - destruct H as (_ & H1 & R & S & C). rewrite R, S, C. auto.
  - destruct H as (_ & _ & _ & H1 & _ & _ & C & R & S). rewrite R, S, C. auto.
Qed.

Definition handle_label (l : label) : bool :=
  match l with LClone _ _ | LDropH _ | LClose _ => true | _ => false end.

Lemma meta_put a f o : meta (put a f o) = meta a /\ handles (put a f o) = handles a.
Proof. auto. Qed.

Local Arguments drain_senders : simpl never.

Lemma drain_senders_meta n : forall c os ys c2 os2 ws,
  drain_senders n c os = Some (ys, c2, os2, ws) ->
  recv_count c2 = recv_count c /\ send_count c2 = send_count c /\ capacity c2 = capacity c.
Proof.
  induction n as [|n IH]; intros c os ys c2 os2 ws E; [discriminate|].
  unfold drain_senders in E; fold drain_senders in E.
  destruct (next_send_case c) as [(k & r & F & W & En)|(c1 & Hns & En)]; rewrite En in E.
  - destruct (sig_take k os) as [[ov os1] ws1]. destruct ov; [|discriminate].
    destruct (drain_senders n (set_wait c r) os1) as [[[[ys1 c3] os3] ws3]|] eqn:E1; [|discriminate].
    injection E as <- <- <- <-. apply IH in E1. exact E1.
  - injection E as <- <- <- <-. destruct Hns as [[_ ->]|(_ & _ & ->)]; auto.
Qed.

Theorem astep_meta a l :
  Inv a -> handle_label l = false ->
  meta (fst (astep a l)) = meta a /\ handles (fst (astep a l)) = handles a.
Proof.
  intros HI Hl.
  assert (HS : forall x, match cs_send a x with SCSent a1 _ | SCFull a1 => meta a1 = meta a /\ handles a1 = handles a | SCErr _ => True end)
    by (intros x; apply (send_case_meta a x); auto; apply cs_send_case; auto).
  assert (HR : match cs_recv a with RCGot _ a1 _ | RCNone a1 => meta a1 = meta a /\ handles a1 = handles a | _ => True end)
    by (apply (recv_case_meta a); auto; apply cs_recv_case; auto).
  assert (Hsl : forall k h x kd, meta (fst (step_send_like a k h x kd)) = meta a /\ handles (fst (step_send_like a k h x kd)) = handles a).
  { intros k h x kd. unfold step_send_like. specialize (HS x).
    destruct (negb (is_side a h SSend) || negb (fresh a k)); simpl; auto.
    destruct (cs_send a x); simpl; auto. }
  assert (Hts : forall h x opt, meta (fst (step_try_send a h x opt)) = meta a /\ handles (fst (step_try_send a h x opt)) = handles a).
  { intros h x opt. unfold step_try_send. specialize (HS x).
    destruct (negb (is_side a h SSend)); simpl; auto.
    destruct (cs_send a x); simpl; auto. }
  assert (Hrl : forall k h t e, meta (fst (step_recv_like a k h t e)) = meta a /\ handles (fst (step_recv_like a k h t e)) = handles a).
  { intros k h t e. unfold step_recv_like.
    destruct (negb (is_side a h SRecv) || negb (fresh a k)); simpl; auto.
    destruct (cs_recv a) as [|v a1 ws|a1|]; simpl; auto.
    destruct (t && e); simpl; auto. destruct (N.eqb (send_count (ch a1)) 0); simpl; auto. }
  assert (Htr : forall h, meta (fst (step_try_recv a h)) = meta a /\ handles (fst (step_try_recv a h)) = handles a).
  { intros h. unfold step_try_recv.
    destruct (negb (is_side a h SRecv)); simpl; auto.
    destruct (cs_recv a) as [|v a1 ws|a1|]; simpl; auto.
    destruct (N.eqb (send_count (ch a1)) 0); simpl; auto. }
  destruct l; simpl in Hl; try discriminate; simpl astep; auto.
  - unfold step_obs. destruct (handle_side a h); auto.
  - destruct x; auto. destruct (is_side a h SSend); auto.
  - destruct x; auto. destruct (is_side a h SSend); auto.
  - destruct busy; auto. destruct (is_side a h SSend); auto.
  - destruct x; [destruct busy; auto|]; destruct (is_side a h SSend); auto.
  - destruct busy; auto. destruct (is_side a h SRecv); auto.
  - unfold step_drain. destruct (negb (is_side a h SRecv)); simpl; auto.
    destruct (N.eqb (recv_count (ch a)) 0); simpl; auto.
    destruct (drain_senders _ _ _) as [[[[ys c2] os2] ws]|] eqn:E; simpl; auto.
    apply drain_senders_meta in E. simpl in E. unfold meta. simpl. destruct E as (-> & -> & ->). auto.
  - unfold step_complete. destruct (lookup k (objs a)) as [o|]; simpl; auto.
    destruct (kind_async (o_kind o)); simpl; auto.
    destruct (o_sig o), (kind_side (o_kind o)); simpl; auto; destruct (o_val o); simpl; auto;
      destruct (o_kind o); simpl; auto.
  - unfold step_timeout. destruct (lookup k (objs a)) as [o|]; simpl; auto.
    destruct (negb (kind_timed (o_kind o))); simpl; auto.
    destruct (o_sig o); simpl; auto.
    destruct (kind_side (o_kind o)).
    + destruct (cancel_send_case (ch a) k) as [(_ & -> & _)| ->]; simpl; auto.
      destruct (o_kind o), (o_val o); simpl; auto.
    + destruct (cancel_recv_case (ch a) k) as [(_ & -> & _)| ->]; simpl; auto.
      destruct (o_kind o), (o_val o); simpl; auto.
  - unfold step_mk. destruct (negb (is_side a h (kind_side KSendFut)) || negb (fresh a f)); simpl; auto.
  - unfold step_mk. destruct (negb (is_side a h (kind_side KRecvFut)) || negb (fresh a f)); simpl; auto.
  - unfold step_mk. destruct (negb (is_side a h (kind_side KStream)) || negb (fresh a f)); simpl; auto.
  - (* poll *)
    assert (Hpz : forall o, meta (st4 (poll_recv_zero a f o w)) = meta a /\ handles (st4 (poll_recv_zero a f o w)) = handles a).
    { intros o. unfold poll_recv_zero, st4. destruct (cs_recv a) as [|v a1 ws|a1|]; simpl; auto.
      destruct (N.eqb (send_count (ch a1)) 0); simpl; auto. }
    assert (Hpr : forall o, meta (st4 (poll_recv a f o w)) = meta a /\ handles (st4 (poll_recv a f o w)) = handles a).
    { intros o. unfold poll_recv. destruct (o_fst o); auto.
      - unfold st4. destruct (o_sig o); simpl; auto.
        + destruct (match o_waker o with Some w' => N.eqb w' w | None => false end); simpl; auto.
          destruct (recv_signal_exists (ch a) f); simpl; auto.
        + destruct (o_val o); simpl; auto.
      - destruct (o_kind o); unfold st4; simpl; auto. apply Hpz. }
    unfold step_poll. destruct (lookup f (objs a)) as [o|]; simpl; auto.
    destruct (o_kind o); simpl; auto.
    + assert (Hps : meta (st4 (poll_send a f o w)) = meta a /\ handles (st4 (poll_send a f o w)) = handles a).
      { unfold poll_send, st4. destruct (o_fst o); simpl; auto.
        - destruct (o_val o) as [x|]; simpl; auto. specialize (HS x).
          destruct (cs_send a x); simpl; auto.
        - destruct (o_sig o); simpl; auto.
          + destruct (match o_waker o with Some w' => N.eqb w' w | None => false end); simpl; auto.
            destruct (send_signal_exists (ch a) f); simpl; auto.
          + destruct (o_val o); simpl; auto. }
      unfold st4 in Hps. destruct (poll_send a f o w) as [[[a1 p] ds] ws]. exact Hps.
    + specialize (Hpr o). unfold st4 in Hpr. destruct (poll_recv a f o w) as [[[a1 p] ds] ws]. exact Hpr.
    + destruct (o_term o); simpl; auto.
      specialize (Hpr o). unfold st4 in Hpr. destruct (poll_recv a f o w) as [[[a1 p] ds] ws]. simpl in *.
      destruct p; simpl; auto. destruct (lookup f (objs a1)); simpl; auto.
  - unfold step_drop_fut. destruct (lookup f (objs a)) as [o|]; simpl; auto.
    destruct (negb (kind_async (o_kind o))); simpl; auto.
    destruct (kind_side (o_kind o)), (o_fst o); simpl; auto.
    + destruct (cancel_send_case (ch a) f) as [(_ & -> & _)| ->]; simpl; auto. destruct (o_sig o); simpl; auto.
    + destruct (cancel_recv_case (ch a) f) as [(_ & -> & _)| ->]; simpl; auto. destruct (o_sig o); simpl; auto.
  - unfold step_stream_term. destruct (lookup f (objs a)) as [o|]; simpl; auto. destruct (o_kind o); simpl; auto.
Qed.
