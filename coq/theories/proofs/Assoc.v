(* Assoc.v - lemmas about the association lists of Base.v *)
From KV Require Import Base.
From Coq Require Import ZifyN ZifyBool ZifyNat.
Arguments N.add : simpl never.
Arguments N.sub : simpl never.
Arguments N.eqb : simpl never.
Arguments N.ltb : simpl never.
Arguments N.leb : simpl never.

Definition keys {A} (l : list (N * A)) : list N := map fst l.

Section Assoc.
  Context {A : Type}.
  Implicit Types (l : list (N * A)) (k : N) (v : A).

  Lemma lookup_cons k k' v l :
    lookup k ((k', v) :: l) = if N.eqb k k' then Some v else lookup k l.
  Proof. reflexivity. Qed.

  Lemma lookup_in k v l : lookup k l = Some v -> In k (keys l).
  Proof.
    induction l as [|[k' v'] l IH]; simpl; [discriminate|].
    destruct (N.eqb_spec k k') as [->|Hn]; intros H; auto.
  Qed.

  Lemma lookup_none k l : lookup k l = None <-> ~ In k (keys l).
  Proof.
    induction l as [|[k' v'] l IH]; simpl; [tauto|].
    destruct (N.eqb_spec k k') as [->|Hn].
    - split; [discriminate|]. intros H; exfalso; apply H; auto.
    - rewrite IH. split; intros H; [intros [E|E]; [congruence|tauto]|tauto].
  Qed.

  Lemma lookup_some_or_none k l : (exists v, lookup k l = Some v) \/ lookup k l = None.
  Proof. destruct (lookup k l); eauto. Qed.

  (* the one structural lemma: a bound key splits the list *)
  Lemma lookup_split k v l :
    lookup k l = Some v ->
    exists l1 l2, l = l1 ++ (k, v) :: l2 /\ ~ In k (keys l1).
  Proof.
    induction l as [|[k' v'] l IH]; simpl; [discriminate|].
    destruct (N.eqb_spec k k') as [->|Hn]; intros H.
    - injection H as ->. exists [], l. split; auto.
    - destruct (IH H) as (l1 & l2 & -> & Hni).
      exists ((k', v') :: l1), l2. split; [reflexivity|].
      simpl. intros [E|E]; [congruence|tauto].
  Qed.

  Lemma lookup_app_notin k l1 l2 : ~ In k (keys l1) -> lookup k (l1 ++ l2) = lookup k l2.
  Proof.
    induction l1 as [|[k' v'] l1 IH]; simpl; auto.
    intros H. destruct (N.eqb_spec k k') as [->|Hn]; [tauto|]. apply IH; tauto.
  Qed.

  Lemma update_split k v v' l1 l2 :
    ~ In k (keys l1) -> update k v' (l1 ++ (k, v) :: l2) = l1 ++ (k, v') :: l2.
  Proof.
    induction l1 as [|[k' w] l1 IH]; simpl.
    - rewrite N.eqb_refl. reflexivity.
    - intros H. destruct (N.eqb_spec k k') as [->|Hn]; [tauto|]. rewrite IH; tauto.
  Qed.

  Lemma remove_split k v l1 l2 :
    ~ In k (keys l1) -> remove_key k (l1 ++ (k, v) :: l2) = l1 ++ l2.
  Proof.
    induction l1 as [|[k' w] l1 IH]; simpl.
    - rewrite N.eqb_refl. reflexivity.
    - intros H. destruct (N.eqb_spec k k') as [->|Hn]; [tauto|]. rewrite IH; tauto.
  Qed.

  Lemma keys_update k v l : keys (update k v l) = keys l.
  Proof.
    induction l as [|[k' w] l IH]; simpl; auto.
    destruct (N.eqb k k'); simpl; congruence.
  Qed.

  Lemma lookup_update_eq k v l : In k (keys l) -> lookup k (update k v l) = Some v.
  Proof.
    induction l as [|[k' w] l IH]; simpl; [tauto|].
    destruct (N.eqb_spec k k') as [->|Hn]; simpl.
    - rewrite N.eqb_refl. reflexivity.
    - intros [E|E]; [congruence|]. destruct (N.eqb_spec k k'); [congruence|]. auto.
  Qed.

  Lemma lookup_update_neq k k' v l : k <> k' -> lookup k (update k' v l) = lookup k l.
  Proof.
    intros Hn. induction l as [|[k2 w] l IH]; simpl; auto.
    destruct (N.eqb_spec k' k2) as [->|Hn2]; simpl.
    - destruct (N.eqb_spec k k2); [congruence|reflexivity].
    - destruct (N.eqb k k2); auto.
  Qed.

  Lemma lookup_update k k' v l :
    lookup k (update k' v l) =
    if N.eqb k k' then (match lookup k l with Some _ => Some v | None => None end) else lookup k l.
  Proof.
    destruct (N.eqb_spec k k') as [->|Hn].
    - destruct (lookup k' l) eqn:E.
      + apply lookup_update_eq. eapply lookup_in; eauto.
      + apply lookup_none. rewrite keys_update. apply lookup_none. exact E.
    - apply lookup_update_neq; auto.
  Qed.

  Lemma lookup_remove_neq k k' l : k <> k' -> lookup k (remove_key k' l) = lookup k l.
  Proof.
    intros Hn. induction l as [|[k2 w] l IH]; simpl; auto.
    destruct (N.eqb_spec k' k2) as [->|Hn2]; simpl.
    - destruct (N.eqb_spec k k2); [congruence|reflexivity].
    - destruct (N.eqb k k2); auto.
  Qed.

  Lemma lookup_remove_eq k l : NoDup (keys l) -> lookup k (remove_key k l) = None.
  Proof.
    induction l as [|[k2 w] l IH]; simpl; auto.
    intros Hd. inversion Hd as [|? ? Hni Hd']; subst.
    destruct (N.eqb_spec k k2) as [->|Hn]; simpl.
    - apply lookup_none. exact Hni.
    - destruct (N.eqb_spec k k2); [congruence|]. auto.
  Qed.

  Lemma keys_remove_incl k l x : In x (keys (remove_key k l)) -> In x (keys l).
  Proof.
    induction l as [|[k2 w] l IH]; simpl; auto.
    destruct (N.eqb k k2); simpl; tauto.
  Qed.

  Lemma nodup_remove k l : NoDup (keys l) -> NoDup (keys (remove_key k l)).
  Proof.
    induction l as [|[k2 w] l IH]; simpl; auto.
    intros Hd. inversion Hd as [|? ? Hni Hd']; subst.
    destruct (N.eqb k k2); simpl; auto.
    constructor; auto. intros H. apply Hni. eapply keys_remove_incl; eauto.
  Qed.

  Lemma lookup_remove k k' l :
    NoDup (keys l) -> lookup k (remove_key k' l) = if N.eqb k k' then None else lookup k l.
  Proof.
    intros Hd. destruct (N.eqb_spec k k') as [->|Hn].
    - apply lookup_remove_eq; auto.
    - apply lookup_remove_neq; auto.
  Qed.
End Assoc.

Global Arguments lookup {A} k l : simpl never.
Global Arguments update {A} k v l : simpl never.
Global Arguments remove_key {A} k l : simpl never.

(* ---- lists of ids ---- *)
Lemma mem_in k l : mem k l = true <-> In k l.
Proof.
  unfold mem. rewrite existsb_exists. split.
  - intros (x & Hx & E). apply N.eqb_eq in E. subst; auto.
  - intros H. exists k. split; auto. apply N.eqb_refl.
Qed.

Lemma mem_false k l : mem k l = false <-> ~ In k l.
Proof. rewrite <- mem_in. destruct (mem k l); split; congruence. Qed.

Lemma mem_app k l1 l2 : mem k (l1 ++ l2) = mem k l1 || mem k l2.
Proof. unfold mem. apply existsb_app. Qed.

Lemma remove_first_in k x l : In x (remove_first k l) -> In x l.
Proof.
  induction l as [|y l IH]; simpl; auto.
  destruct (N.eqb k y); simpl; tauto.
Qed.

Lemma remove_first_in_neq k x l : x <> k -> In x l -> In x (remove_first k l).
Proof.
  intros Hn. induction l as [|y l IH]; simpl; auto.
  destruct (N.eqb_spec k y) as [->|Hn2]; simpl; intros [E|E]; auto; congruence.
Qed.

Lemma remove_first_nodup k l : NoDup l -> NoDup (remove_first k l).
Proof.
  induction l as [|y l IH]; simpl; auto.
  intros Hd. inversion Hd as [|? ? Hni Hd']; subst.
  destruct (N.eqb k y); auto. constructor; auto.
  intros H. apply Hni. eapply remove_first_in; eauto.
Qed.

Lemma remove_first_notin k l : NoDup l -> ~ In k (remove_first k l).
Proof.
  induction l as [|y l IH]; simpl; auto.
  intros Hd. inversion Hd as [|? ? Hni Hd']; subst.
  destruct (N.eqb_spec k y) as [->|Hn]; auto.
  simpl. intros [E|E]; [congruence|]. apply IH; auto.
Qed.

Lemma remove_first_split k l :
  In k l -> exists l1 l2, l = l1 ++ k :: l2 /\ ~ In k l1 /\ remove_first k l = l1 ++ l2.
Proof.
  induction l as [|y l IH]; simpl; [tauto|].
  destruct (N.eqb_spec k y) as [->|Hn]; intros H.
  - exists [], l. auto.
  - destruct H as [E|H]; [congruence|].
    destruct (IH H) as (l1 & l2 & -> & Hni & Hr).
    exists (y :: l1), l2. simpl. rewrite Hr. repeat split; auto.
    intros [E|E]; [congruence|tauto].
Qed.

Lemma len_app {A} (l1 l2 : list A) : len (l1 ++ l2) = (len l1 + len l2)%N.
Proof. unfold len. rewrite app_length. lia. Qed.

Lemma len_cons {A} (x : A) l : len (x :: l) = (len l + 1)%N.
Proof. unfold len. simpl. lia. Qed.

Lemma len_nil {A} : len (@nil A) = 0%N.
Proof. reflexivity. Qed.

Lemma len_zero {A} (l : list A) : len l = 0%N <-> l = [].
Proof. unfold len. destruct l; simpl; split; intros; try lia; congruence. Qed.
