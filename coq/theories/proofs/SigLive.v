(* SigLive.v - C06, progress of the hand-off protocol, on the finite set of reachable protocol states
   (SigProof.reachable_set, for the orderings of the current source).
   Waiting steps (a pause, a spurious return of park, a spurious poll that finds nothing new, a load that
   leaves the owner where it was) may be repeated any number of times; every other step is "genuine".
     (1) a peer that has claimed a signal is never blocked and is done after at most 7 of its own steps;
     (2) once the peer is done, the owner always has a genuine step until its wait has ended, and is
         finished after a bounded number of genuine steps (a rank decreases): no lost wake-up, no wait
         for something that will not come;
     (3) a timed owner that nobody claims finishes after a bounded number of genuine steps once the
         deadline has passed (the passing of the deadline is a genuine step).
   With a fair scheduler (every thread that can take a genuine step eventually takes one) this gives
   termination of every claimed hand-off; the fairness argument itself is not part of the theorem. *)
From KV Require Import Mem Sig.
From KV.gen Require Import Gen_Sites.
From KV.proofs Require Import SigProof.
From Coq Require Import List Arith Lia.
Import ListNotations.

Definition genuine (e : sev) : bool :=
  match e with EPause | EPark false | EWakerReadOwner | EReRegister => false | _ => true end.

Definition steps_of (evs : list sev) (s : sigst) : list sigst :=
  flat_map (fun e => if genuine e
                     then match sstep s e with Some s' => if sigst_beq s' s then [] else [s'] | None => [] end
                     else []) evs.

Definition own_next (s : sigst) : list sigst :=
  if s_viol s then [] else steps_of (owner_events actual_ords s) s.
Definition peer_next (s : sigst) : list sigst :=
  if s_viol s then [] else steps_of (claimer_events actual_ords s) s.

Lemma steps_of_sub evs s s' : In s' (steps_of evs s) -> exists e, In e evs /\ sstep s e = Some s'.
Proof.
  unfold steps_of. rewrite in_flat_map. intros (e & He & Hin). exists e. split; [exact He|].
  destruct (genuine e); [|destruct Hin]. destruct (sstep s e) as [s1|]; [|destruct Hin].
  destruct (sigst_beq s1 s); [destruct Hin|]. destruct Hin as [->|[]]. reflexivity.
Qed.

Lemma own_next_sub s s' : In s' (own_next s) -> In s' (snext actual_ords s).
Proof.
  unfold own_next, snext. destruct (s_viol s); [intros []|]. intros H.
  destruct (steps_of_sub _ _ _ H) as (e & He & Hs). rewrite in_flat_map. exists e. split.
  - apply in_or_app. left. exact He.
  - rewrite Hs. left. reflexivity.
Qed.

Lemma peer_next_sub s s' : In s' (peer_next s) -> In s' (snext actual_ords s).
Proof.
  unfold peer_next, snext. destruct (s_viol s); [intros []|]. intros H.
  destruct (steps_of_sub _ _ _ H) as (e & He & Hs). rewrite in_flat_map. exists e. split.
  - apply in_or_app. right. exact He.
  - rewrite Hs. left. reflexivity.
Qed.

(* ---------- (1) the peer ---------- *)
Definition crank (c : cpc) : nat :=
  match c with CNone => 8 | CClaimed => 7 | CSlotDone => 6 | CKindRead => 5 | CCasFailed => 4 | CWakerRead => 3 | CStored => 2 | CDone => 0 end.

Definition peer_busy (s : sigst) : bool := match s_c s with CNone | CDone => false | _ => true end.

Definition peer_ok (s : sigst) : bool :=
  negb (peer_busy s) ||
  (match peer_next s with [] => false | _ => true end
   && forallb (fun s' => Nat.ltb (crank (s_c s')) (crank (s_c s))) (peer_next s)).

Lemma peer_ok_all : forallb peer_ok reachable_set = true.
Proof. vm_compute. reflexivity. Qed.

(* ---------- rank tables ---------- *)
Definition rk_lookup (tab : list (sigst * nat)) (s : sigst) : nat :=
  match find (fun p => sigst_beq (fst p) s) tab with Some p => snd p | None => 0 end.

Definition rk_relax (dom : list sigst) (next : sigst -> list sigst) (tab : list (sigst * nat)) : list (sigst * nat) :=
  map (fun s => (s, match next s with [] => 0 | l => S (fold_left Nat.max (map (rk_lookup tab) l) 0) end)) dom.

Fixpoint rk_iter (n : nat) (dom : list sigst) (next : sigst -> list sigst) (tab : list (sigst * nat)) :=
  match n with O => tab | S k => rk_iter k dom next (rk_relax dom next tab) end.

(* ---------- (2) the owner, once the peer is done ---------- *)
Definition cdone (s : sigst) : bool := match s_c s with CDone => true | _ => false end.
Definition ended (s : sigst) : bool := match s_o s with OEnded => true | _ => false end.

Definition dom2 : list sigst := Eval vm_compute in filter cdone reachable_set.
Definition tab2 : list (sigst * nat) := Eval vm_compute in rk_iter 40 dom2 own_next (map (fun s => (s, 0)) dom2).
Definition orank (s : sigst) : nat := rk_lookup tab2 s.

Definition owner_ok (s : sigst) : bool :=
  negb (cdone s) ||
  ((ended s || match own_next s with [] => false | _ => true end)
   && forallb (fun s' => cdone s' && Nat.ltb (orank s') (orank s)) (own_next s)).

Lemma owner_ok_all : forallb owner_ok reachable_set = true.
Proof. vm_compute. reflexivity. Qed.

(* ---------- (3) the timed owner that nobody claims ---------- *)
Definition alone_timed (s : sigst) : bool := s_timed s && match s_c s with CNone => true | _ => false end.
Definition dom3 : list sigst := Eval vm_compute in filter alone_timed reachable_set.
Definition next3 (s : sigst) : list sigst := filter alone_timed (own_next s).
Definition tab3 : list (sigst * nat) := Eval vm_compute in rk_iter 40 dom3 next3 (map (fun s => (s, 0)) dom3).
Definition trank (s : sigst) : nat := rk_lookup tab3 s.

Definition timed_ok (s : sigst) : bool :=
  negb (alone_timed s) ||
  ((ended s || match next3 s with [] => false | _ => true end)
   && forallb (fun s' => Nat.ltb (trank s') (trank s)) (next3 s)).

Lemma timed_ok_all : forallb timed_ok reachable_set = true.
Proof. vm_compute. reflexivity. Qed.

(* ---------- the statements, for every reachable state ---------- *)
Lemma reach_in i s : In i sinits -> reach (snext actual_ords) i s -> In s reachable_set.
Proof.
  intros Hi Hr.
  assert (Hm : memb i reachable_set = true).
  { pose proof inits_in as H. rewrite forallb_forall in H. apply H. exact Hi. }
  exact (closed_reach _ _ _ Hm reachable_closed s Hr).
Qed.

Theorem claiming_peer_never_blocks : forall i s,
  In i sinits -> reach (snext actual_ords) i s -> peer_busy s = true ->
  peer_next s <> [] /\ forall s', In s' (peer_next s) -> crank (s_c s') < crank (s_c s).
Proof.
  intros i s Hi Hr Hb. pose proof peer_ok_all as H. rewrite forallb_forall in H.
  specialize (H s (reach_in i s Hi Hr)). unfold peer_ok in H. rewrite Hb in H. cbn [negb orb] in H.
  apply andb_prop in H. destruct H as [Hne Hall]. split.
  - destruct (peer_next s); [discriminate|discriminate].
  - intros s' Hs'. rewrite forallb_forall in Hall. apply Nat.ltb_lt. apply Hall. exact Hs'.
Qed.

Theorem owner_finishes_once_peer_is_done : forall i s,
  In i sinits -> reach (snext actual_ords) i s -> s_c s = CDone ->
  (s_o s = OEnded \/ own_next s <> []) /\
  forall s', In s' (own_next s) -> s_c s' = CDone /\ orank s' < orank s.
Proof.
  intros i s Hi Hr Hc. pose proof owner_ok_all as H. rewrite forallb_forall in H.
  specialize (H s (reach_in i s Hi Hr)). unfold owner_ok, cdone in H. rewrite Hc in H. cbn [negb orb] in H.
  apply andb_prop in H. destruct H as [Hne Hall]. split.
  - apply Bool.orb_prop in Hne. destruct Hne as [He|Hn].
    + left. unfold ended in He. destruct (s_o s); try discriminate. reflexivity.
    + right. destruct (own_next s); [discriminate|discriminate].
  - intros s' Hs'. rewrite forallb_forall in Hall. specialize (Hall s' Hs').
    apply andb_prop in Hall. destruct Hall as [Hd Hlt]. split.
    + destruct (s_c s'); try discriminate. reflexivity.
    + apply Nat.ltb_lt. exact Hlt.
Qed.

(* any sequence of genuine owner steps after the peer is done is no longer than the rank of the state *)
Inductive opath : sigst -> list sigst -> Prop :=
| op_nil s : opath s []
| op_cons s s' p : In s' (own_next s) -> opath s' p -> opath s (s' :: p).

Theorem owner_steps_bounded : forall i s p,
  In i sinits -> reach (snext actual_ords) i s -> s_c s = CDone -> opath s p -> length p <= orank s.
Proof.
  intros i s p Hi Hr Hc Hp. revert Hr Hc. induction Hp as [s|s s' p Hin Hp IH]; intros Hr Hc.
  - simpl. lia.
  - destruct (owner_finishes_once_peer_is_done i s Hi Hr Hc) as [_ Hall].
    destruct (Hall s' Hin) as [Hc' Hlt].
    assert (Hr' : reach (snext actual_ords) i s') by (eapply reach_step; [exact Hr|apply own_next_sub; exact Hin]).
    specialize (IH Hr' Hc'). simpl. lia.
Qed.

Theorem timed_owner_alone_finishes : forall i s,
  In i sinits -> reach (snext actual_ords) i s -> alone_timed s = true ->
  (s_o s = OEnded \/ next3 s <> []) /\ forall s', In s' (next3 s) -> trank s' < trank s.
Proof.
  intros i s Hi Hr Ha. pose proof timed_ok_all as H. rewrite forallb_forall in H.
  specialize (H s (reach_in i s Hi Hr)). unfold timed_ok in H. rewrite Ha in H. cbn [negb orb] in H.
  apply andb_prop in H. destruct H as [Hne Hall]. split.
  - apply Bool.orb_prop in Hne. destruct Hne as [He|Hn].
    + left. unfold ended in He. destruct (s_o s); try discriminate. reflexivity.
    + right. destruct (next3 s); [discriminate|discriminate].
  - intros s' Hs'. rewrite forallb_forall in Hall. apply Nat.ltb_lt. apply Hall. exact Hs'.
Qed.
