(* ShapeOk.v - the source shapes extracted by kx from the current /repo/src equal the pinned
   shapes the hand-written models were written against.  Re-checked by make on every run:
   an edit to the control skeleton of mutex.rs / backoff.rs::spin_cond / signal.rs, to the
   operands or number of their atomic operations, or to the lock profile of an entry point
   of lib.rs / future.rs makes the corresponding lemma fail. (Orderings are NOT compared
   here: they are parameters of the protocol theorems, see SigProof.v / MutexProof.v.) *)
From KV Require Import Mem Expected.
From KV.gen Require Import Gen_Skel Gen_Sites.

Definition strip_ord (s : string) : string :=
  (* the ordering arguments are printed after the operands as " [..]" : drop them *)
  match index 0 " [" s with
  | Some n => substring 0 n s
  | None => s
  end.

Definition strip_table (t : skel_table) : skel_table :=
  map (fun p => (fst p, map strip_ord (snd p))) t.

Lemma mutex_shape_ok :
  skel_diff ["mutex."; "backoff."] (strip_table protocol_skeletons) (strip_table expected_protocol_skeletons) = [].
Proof. vm_compute. reflexivity. Qed.

Lemma signal_shape_ok :
  skel_diff ["signal."] (strip_table protocol_skeletons) (strip_table expected_protocol_skeletons) = [].
Proof. vm_compute. reflexivity. Qed.

Lemma atomic_sites_shape_ok :
  list_eqb shape_eqb (map site_shape atomic_sites) (map site_shape expected_atomic_sites) = true.
Proof. vm_compute. reflexivity. Qed.

(* lock profiles, by group of entry points *)
Lemma lockprof_observers_close_ok :
  skel_diff ["lib.shared_impl."] lock_profiles expected_lock_profiles = [].
Proof. vm_compute. reflexivity. Qed.

Lemma lockprof_try_send_ok :
  skel_diff ["lib.shared_send_impl."] lock_profiles expected_lock_profiles = [].
Proof. vm_compute. reflexivity. Qed.

Lemma lockprof_try_recv_drain_ok :
  skel_diff ["lib.shared_recv_impl."] lock_profiles expected_lock_profiles = [].
Proof. vm_compute. reflexivity. Qed.

Lemma lockprof_handles_ok :
  skel_diff ["lib.Sender."; "lib.AsyncSender."; "lib.Receiver."; "lib.AsyncReceiver."; "lib.bounded"; "lib.unbounded"]
            lock_profiles expected_lock_profiles = [].
Proof. vm_compute. reflexivity. Qed.

Lemma lockprof_futures_ok :
  skel_diff ["future."] lock_profiles expected_lock_profiles = [].
Proof. vm_compute. reflexivity. Qed.

Lemma lockprof_internal_ok :
  skel_diff ["internal."] lock_profiles expected_lock_profiles = [].
Proof. vm_compute. reflexivity. Qed.
