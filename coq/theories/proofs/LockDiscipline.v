(* LockDiscipline.v - C03 / C06 / C12 / C14 / C19 ingredient, on the lock-discipline automata regenerated from the
   CURRENT source (gen/Gen_Lock.v: every exported function of lib.rs / future.rs that takes the channel lock,
   private helpers inlined, the two functions of internal.rs that call lock() / try_lock() recognised as the
   acquisition primitives whatever their names).
   Abstract interpretation of each automaton over (lock ld_held?, acquisitions since the last wait):
     - the lock is never acquired while it is ld_held (no self-deadlock);
     - the protected data is used only while the lock is ld_held;
     - a wait on a signal never happens while the lock is ld_held (the peer needs the lock to release the waiter);
     - no path returns with the lock ld_held; a release happens only while it is ld_held;
     - between two waits (or the start, or the end) a path acquires the lock at most once:
       one critical section per phase of a call - the registration, and the cancellation after a timeout;
     - the realtime variants never use the blocking acquisition; try_* / drain_into never wait. *)
From Coq Require Import String List Arith Bool.
Import ListNotations.
From KV.gen Require Import Gen_Lock.
Open Scope string_scope.

Definition ld_edge := (nat * string * nat)%type.

(* abstract state of an automaton state: which (ld_held, count) pairs are possible; count in {0,1,2} (2 = too many) *)
Record ld_abs := ld_mkAbs { u0 : bool; u1 : bool; u2 : bool; h1 : bool; h2 : bool }.
(* u_k: not ld_held, k acquisitions in this phase; h_k: ld_held, k acquisitions (k >= 1) *)
Definition ld_abot := ld_mkAbs false false false false false.
Definition ld_ajoin (a b : ld_abs) := ld_mkAbs (u0 a || u0 b) (u1 a || u1 b) (u2 a || u2 b) (h1 a || h1 b) (h2 a || h2 b).
Definition ld_aeqb (a b : ld_abs) :=
  Bool.eqb (u0 a) (u0 b) && Bool.eqb (u1 a) (u1 b) && Bool.eqb (u2 a) (u2 b) && Bool.eqb (h1 a) (h1 b) && Bool.eqb (h2 a) (h2 b).
Definition ld_held (a : ld_abs) := h1 a || h2 a.
Definition ld_unheld (a : ld_abs) := u0 a || u1 a || u2 a.

Definition is_ret (l : string) : bool := String.prefix "ret[" l.
Definition is_bad (l : string) : bool := String.prefix "unsupported" l.

(* ld_transfer of one event; the second component tells whether the event is a violation in this abstract state *)
Definition ld_transfer (l : string) (a : ld_abs) : ld_abs * bool :=
  if String.eqb l "acquire" || String.eqb l "try_acquire=some" then
    (ld_mkAbs false false false (u0 a) (u1 a || u2 a), ld_held a)
  else if String.eqb l "release" then
    (ld_mkAbs false (h1 a) (h2 a) false false, ld_unheld a)
  else if String.eqb l "cs" then
    (ld_mkAbs false false false (h1 a) (h2 a), ld_unheld a)
  else if String.eqb l "wait" then
    (ld_mkAbs (ld_unheld a) false false false false, ld_held a)
  else if is_ret l then (a, ld_held a)
  else if is_bad l then (a, true)
  else (a, false).

Definition ld_get (m : list (nat * ld_abs)) (s : nat) : ld_abs :=
  match find (fun p => Nat.eqb (fst p) s) m with Some p => snd p | None => ld_abot end.
Fixpoint ld_put (m : list (nat * ld_abs)) (s : nat) (a : ld_abs) : list (nat * ld_abs) :=
  match m with
  | [] => [(s, a)]
  | (k, b) :: r => if Nat.eqb k s then (k, ld_ajoin a b) :: r else (k, b) :: ld_put r s a
  end.

Definition ld_sweep (es : list ld_edge) (m : list (nat * ld_abs)) : list (nat * ld_abs) :=
  fold_left (fun m e => let '(a, l, b) := e in ld_put m b (fst (ld_transfer l (ld_get m a)))) es m.

Fixpoint ld_iterate (n : nat) (es : list ld_edge) (m : list (nat * ld_abs)) : list (nat * ld_abs) :=
  match n with O => m | S k => ld_iterate k es (ld_sweep es m) end.

Definition ld_init : list (nat * ld_abs) := [(0, ld_mkAbs true false false false false)].

Definition ld_solution (es : list ld_edge) : list (nat * ld_abs) := ld_iterate (S (length es)) es ld_init.

(* the ld_solution is a post-fixpoint (so it covers every path), no event is a violation in it, and no state can
   have seen two acquisitions in one phase *)
Definition ld_stable (es : list ld_edge) (m : list (nat * ld_abs)) : bool :=
  forallb (fun e => let '(a, l, b) := e in
                    let t := fst (ld_transfer l (ld_get m a)) in ld_aeqb (ld_ajoin t (ld_get m b)) (ld_get m b)) es.
Definition ld_violations (es : list ld_edge) (m : list (nat * ld_abs)) : list (nat * string) :=
  flat_map (fun e => let '(a, l, _) := e in if snd (ld_transfer l (ld_get m a)) then [(a, l)] else []) es.
Definition ld_too_many (m : list (nat * ld_abs)) : bool := existsb (fun p => u2 (snd p) || h2 (snd p)) m.

Definition table_ok (es : list ld_edge) (m : list (nat * ld_abs)) : bool :=
  u0 (ld_get m 0) && ld_stable es m && match ld_violations es m with [] => true | _ => false end && negb (ld_too_many m).

Definition fn_ok (f : string * list ld_edge) : bool := table_ok (snd f) (ld_solution (snd f)).

(* ---- what an accepted table means: the concrete executions of the automaton ---- *)
(* a concrete state of the discipline: is the lock ld_held, how many acquisitions since the last wait *)
Definition ld_conc := (bool * nat)%type.

(* is the event a violation in this concrete state? *)
Definition violates (l : string) (c : ld_conc) : bool :=
  let '(h, n) := c in
  if String.eqb l "acquire" || String.eqb l "try_acquire=some" then h
  else if String.eqb l "release" then negb h
  else if String.eqb l "cs" then negb h
  else if String.eqb l "wait" then h
  else if is_ret l then h
  else is_bad l.

Definition ld_cnext (l : string) (c : ld_conc) : ld_conc :=
  let '(h, n) := c in
  if String.eqb l "acquire" || String.eqb l "try_acquire=some" then (true, S n)
  else if String.eqb l "release" then (false, n)
  else if String.eqb l "wait" then (false, 0)
  else c.

(* the executions of an automaton that have not violated the discipline so far *)
Inductive ld_run (es : list ld_edge) : nat -> ld_conc -> Prop :=
| ld_run_init : ld_run es 0 (false, 0)
| ld_run_step a l b c : ld_run es a c -> In (a, l, b) es -> violates l c = false -> ld_run es b (ld_cnext l c).

Definition ld_mem (c : ld_conc) (a : ld_abs) : bool :=
  match c with
  | (false, 0) => u0 a | (false, 1) => u1 a | (false, _) => u2 a
  | (true, 0) => false | (true, 1) => h1 a | (true, _) => h2 a
  end.

Lemma ld_mem_join c a b : ld_mem c b = true -> ld_mem c (ld_ajoin a b) = true.
Proof.
  destruct c as [[|] [|[|n]]]; simpl; intros H; rewrite ?H, ?orb_true_r; auto.
Qed.

Lemma ld_aeqb_mem c a b : ld_aeqb a b = true -> ld_mem c a = true -> ld_mem c b = true.
Proof.
  unfold ld_aeqb. intros H. repeat (apply andb_prop in H; destruct H as [H ?]).
  repeat match goal with E : Bool.eqb _ _ = true |- _ => apply Bool.eqb_prop in E end.
  destruct c as [[|] [|[|n]]]; simpl; congruence.
Qed.

Lemma ld_mem_join_l c a b : ld_mem c a = true -> ld_mem c (ld_ajoin a b) = true.
Proof.
  destruct c as [[|] [|[|n]]]; simpl; intros H; rewrite ?H; auto.
Qed.

(* the abstract ld_transfer covers the concrete step and flags every concrete violation *)
Ltac fin h n Hm := destruct h, n as [|[|n]]; cbn in *; unfold ld_held, ld_unheld; cbn; rewrite ?Hm, ?orb_true_r; split; intros; try discriminate; auto.

Lemma transfer_sound l c a :
  ld_mem c a = true ->
  (violates l c = true -> snd (ld_transfer l a) = true) /\
  (violates l c = false -> ld_mem (ld_cnext l c) (fst (ld_transfer l a)) = true).
Proof.
  intros Hm. destruct c as [h n].
  destruct (String.eqb l "acquire") eqn:E1; [apply String.eqb_eq in E1; subst l; fin h n Hm|].
  destruct (String.eqb l "try_acquire=some") eqn:E2; [apply String.eqb_eq in E2; subst l; fin h n Hm|].
  destruct (String.eqb l "release") eqn:E3; [apply String.eqb_eq in E3; subst l; fin h n Hm|].
  destruct (String.eqb l "cs") eqn:E4; [apply String.eqb_eq in E4; subst l; fin h n Hm|].
  destruct (String.eqb l "wait") eqn:E5; [apply String.eqb_eq in E5; subst l; fin h n Hm|].
  unfold violates, ld_cnext, ld_transfer. rewrite E1, E2, E3, E4, E5. cbn [orb].
  destruct (is_ret l).
  - destruct h, n as [|[|n]]; cbn in *; unfold ld_held; rewrite ?Hm, ?orb_true_r; split; intros; try discriminate; auto.
  - destruct (is_bad l); cbn; split; intros; try discriminate; auto.
Qed.

Lemma stable_edge es m a l b :
  ld_stable es m = true -> In (a, l, b) es ->
  forall c, ld_mem c (fst (ld_transfer l (ld_get m a))) = true -> ld_mem c (ld_get m b) = true.
Proof.
  unfold ld_stable. rewrite forallb_forall. intros H Hin c Hc.
  specialize (H (a, l, b) Hin). cbn in H.
  eapply ld_aeqb_mem; [exact H|]. apply ld_mem_join_l. exact Hc.
Qed.

(* every execution stays inside an accepted table *)
Lemma run_in_table es m :
  u0 (ld_get m 0) = true -> ld_stable es m = true -> forall s c, ld_run es s c -> ld_mem c (ld_get m s) = true.
Proof.
  intros H0 Hst s c Hr. induction Hr as [|a l b c Hr IH Hin Hv].
  - exact H0.
  - eapply stable_edge; eauto. apply (proj2 (transfer_sound l c (ld_get m a) IH)). exact Hv.
Qed.

(* soundness of the checker: in an accepted automaton no execution ever reaches a violating event ... *)
Theorem table_ok_sound es m :
  table_ok es m = true ->
  forall a l b c, ld_run es a c -> In (a, l, b) es -> violates l c = false.
Proof.
  unfold table_ok. intros H a l b c Hr Hin.
  apply andb_prop in H. destruct H as [H Hmany]. apply andb_prop in H. destruct H as [H Hviol].
  apply andb_prop in H. destruct H as [H0 Hst].
  pose proof (run_in_table es m H0 Hst a c Hr) as Hm.
  destruct (violates l c) eqn:Ev; [|reflexivity]. exfalso.
  pose proof (proj1 (transfer_sound l c (ld_get m a) Hm) Ev) as Hs.
  assert (Hnil : ld_violations es m = []) by (destruct (ld_violations es m); [reflexivity|discriminate]).
  assert (Hne : In (a, l) (ld_violations es m)).
  { unfold ld_violations. apply in_flat_map. exists (a, l, b). split; [exact Hin|]. cbv beta iota. rewrite Hs. left. reflexivity. }
  rewrite Hnil in Hne. destruct Hne.
Qed.

Definition undisciplined : list string := map fst (filter (fun f => negb (fn_ok f)) lock_automata).

(* ... and no execution sees two acquisitions between two waits *)
Lemma too_many_false m s : ld_too_many m = false -> u2 (ld_get m s) = false /\ h2 (ld_get m s) = false.
Proof.
  intros H. unfold ld_get. destruct (find (fun p => Nat.eqb (fst p) s) m) as [p|] eqn:F; [|split; reflexivity].
  apply find_some in F. destruct F as [Hin _].
  unfold ld_too_many in H. destruct (u2 (snd p) || h2 (snd p)) eqn:E.
  - assert (existsb (fun p => u2 (snd p) || h2 (snd p)) m = true) by (apply existsb_exists; exists p; auto). congruence.
  - apply orb_false_elim in E. exact E.
Qed.

Theorem table_ok_one_section_per_phase es m :
  table_ok es m = true -> forall s c, ld_run es s c -> snd c <= 1.
Proof.
  unfold table_ok. intros H s c Hr.
  apply andb_prop in H. destruct H as [H Hmany]. apply andb_prop in H. destruct H as [H _].
  apply andb_prop in H. destruct H as [H0 Hst].
  pose proof (run_in_table es m H0 Hst s c Hr) as Hm.
  apply negb_true_iff in Hmany. destruct (too_many_false m s Hmany) as [Hu Hh].
  destruct c as [[|] [|[|n]]]; simpl in *; auto; congruence.
Qed.

Theorem lock_discipline_holds : undisciplined = [].
Proof. vm_compute. reflexivity. Qed.

(* unfolded: in every function of the table, no execution of its automaton violates the discipline.
   (Stated first for an arbitrary table, so that no step of the proof computes on the generated data.) *)
Lemma all_ok_of_none_rejected (tab : list (string * list ld_edge)) :
  map fst (filter (fun f => negb (fn_ok f)) tab) = [] -> forall f, In f tab -> fn_ok f = true.
Proof.
  induction tab as [|g tab IH]; intros H f Hf; [destruct Hf|].
  cbn [filter] in H. destruct (fn_ok g) eqn:Eg; cbn [negb] in H.
  - destruct Hf as [<-|Hf]; [exact Eg|exact (IH H f Hf)].
  - cbn [map] in H. discriminate.
Qed.

Corollary no_execution_violates_the_discipline f a l b c :
  In f lock_automata -> ld_run (snd f) a c -> (In (a, l, b) (snd f) -> violates l c = false) /\ snd c <= 1.
Proof.
  intros Hf Hr.
  pose proof (all_ok_of_none_rejected lock_automata lock_discipline_holds f Hf) as Hok.
  unfold fn_ok in Hok. split.
  - intros Hin. exact (table_ok_sound (snd f) (ld_solution (snd f)) Hok a l b c Hr Hin).
  - exact (table_ok_one_section_per_phase (snd f) (ld_solution (snd f)) Hok a c Hr).
Qed.

(* by name: the public entry points that must exist in the table with particular properties *)
Definition has_event (ev : string) (fn : string) : option bool :=
  match find (fun f => String.eqb (fst f) fn) lock_automata with
  | Some f => Some (existsb (fun e => String.eqb (snd (fst e)) ev) (snd f))
  | None => None
  end.

Definition realtime_fns : list string :=
  ["lib.try_send_realtime"; "lib.try_send_option_realtime"; "lib.try_recv_realtime"].
Theorem realtime_never_use_the_blocking_acquisition :
  forallb (fun fn => match has_event "acquire" fn with Some false => true | _ => false end) realtime_fns = true.
Proof. vm_compute. reflexivity. Qed.

Definition nonblocking_fns : list string :=
  ["lib.try_send"; "lib.try_send_option"; "lib.try_send_realtime";
   "lib.try_send_option_realtime"; "lib.try_recv"; "lib.try_recv_realtime";
   "lib.drain_into"].
Theorem nonblocking_never_wait :
  forallb (fun fn => match has_event "wait" fn with Some false => true | _ => false end) nonblocking_fns = true.
Proof. vm_compute. reflexivity. Qed.

(* the blocking and timed entry points are in the table (a renamed or vanished entry point is not silently skipped) *)
Definition blocking_fns : list string :=
  ["lib.Sender.send"; "lib.Sender.send_timeout"; "lib.Sender.send_option_timeout"; "lib.Receiver.recv"; "lib.Receiver.recv_timeout";
   "future.SendFuture.Future.poll"; "future.ReceiveFuture.Future.poll"; "future.SendFuture.Drop.drop"; "future.ReceiveFuture.Drop.drop";
   "lib.close"; "lib.Sender.Drop.drop"; "lib.Receiver.Drop.drop"; "lib.Sender.Clone.clone"; "lib.Receiver.Clone.clone"].
Theorem entry_points_are_covered :
  forallb (fun fn => match has_event "acquire" fn with Some true => true | _ => false end) blocking_fns = true.
Proof. vm_compute. reflexivity. Qed.

(* the checker is not vacuous: it rejects an acquisition inside a critical section, a use after the release,
   a wait under the lock, and two critical sections in one phase *)
Example checker_rejects :
  map fn_ok [("a", [(0, "acquire", 1); (1, "acquire", 2); (2, "release", 3); (3, "ret[]", 4)]);
             ("b", [(0, "acquire", 1); (1, "release", 2); (2, "cs", 3); (3, "ret[]", 4)]);
             ("c", [(0, "acquire", 1); (1, "wait", 2); (2, "release", 3); (3, "ret[]", 4)]);
             ("d", [(0, "acquire", 1); (1, "release", 2); (2, "acquire", 3); (3, "release", 4); (4, "ret[]", 5)]);
             ("e", [(0, "acquire", 1); (1, "release", 2); (2, "wait", 3); (3, "acquire", 4); (4, "release", 5); (5, "ret[]", 6)]);
             ("f", [(0, "acquire", 1); (1, "ret[]", 2)])]
  = [false; false; false; false; true; false].
Proof. vm_compute. reflexivity. Qed.
