(* SigProof.v - every reachable state of the signal protocol is safe, for the orderings
   written in the current source (gen/Gen_Sites.v): proof by computing the finite set of
   reachable states inside Coq and checking that it is closed under `snext`. *)
From KV Require Import Mem Sig.
From KV.gen Require Import Gen_Sites.

Scheme Equality for stv.
Scheme Equality for holder.
Scheme Equality for flav.
Scheme Equality for ckind.
Scheme Equality for phase.
Scheme Equality for opc.
Scheme Equality for cpc.
Scheme Equality for sigst.

Definition memb (x : sigst) (l : list sigst) : bool := existsb (sigst_beq x) l.

Lemma memb_in x l : memb x l = true -> In x l.
Proof.
  unfold memb. rewrite existsb_exists. intros (y & Hy & E).
  apply internal_sigst_dec_bl in E. subst. exact Hy.
Qed.

(* ---------- generic: a set that contains the initial states and is closed contains every reachable state ---------- *)
Section Closure.
  Variable next : sigst -> list sigst.

  Inductive reach (i : sigst) : sigst -> Prop :=
  | reach_refl : reach i i
  | reach_step s s' : reach i s -> In s' (next s) -> reach i s'.

  Definition closedb (R : list sigst) : bool :=
    forallb (fun s => forallb (fun s' => memb s' R) (next s)) R.

  Lemma closed_reach R i :
    memb i R = true -> closedb R = true -> forall s, reach i s -> In s R.
  Proof.
    intros Hi Hc s Hr. induction Hr as [|s s' Hr IH Hn].
    - apply memb_in. exact Hi.
    - unfold closedb in Hc. rewrite forallb_forall in Hc. specialize (Hc s IH).
      rewrite forallb_forall in Hc. apply memb_in. apply Hc. exact Hn.
  Qed.

  (* worklist exploration with fuel *)
  Fixpoint explore (fuel : nat) (todo seen : list sigst) : option (list sigst) :=
    match fuel with
    | O => None
    | S n =>
        match todo with
        | [] => Some seen
        | s :: r =>
            if memb s seen then explore n r seen
            else explore n (next s ++ r) (s :: seen)
        end
    end.
End Closure.

(* ---------- instantiate with the orderings of the current source ---------- *)
Definition actual_ords : sig_ords := ords_of atomic_sites.

Definition reachable_set : list sigst :=
  match explore (snext actual_ords) 200000 sinits [] with Some l => l | None => [] end.

Definition reachable_count : nat := Eval vm_compute in length reachable_set.

Lemma reachable_set_nonempty : reachable_set <> [].
Proof. vm_compute. discriminate. Qed.

Lemma inits_in : forallb (fun i => memb i reachable_set) sinits = true.
Proof. vm_compute. reflexivity. Qed.

Lemma reachable_closed : closedb (snext actual_ords) reachable_set = true.
Proof. vm_compute. reflexivity. Qed.

Lemma reachable_all_safe : forallb safe reachable_set = true.
Proof. vm_compute. reflexivity. Qed.

(* C06 / C07 for the hand-off protocol: in every execution of any length, of a sync (plain or
   timed) or async waiter against its claiming peer, under any interleaving, any number of
   spin / park / sleep iterations, spurious wake-ups and any moment for the deadline:
   no slot / waker / lifetime access happens without its ownership token (no data race, no
   access after the owner's frame or future is gone), no parked owner is left without a
   wake-up once its peer is done, and the owner reports success exactly when the peer
   delivered. *)
Theorem signal_protocol_safe :
  forall i s, In i sinits -> reach (snext actual_ords) i s -> safe s = true.
Proof.
  intros i s Hi Hr.
  assert (Hm : memb i reachable_set = true).
  { pose proof inits_in as H. rewrite forallb_forall in H. apply H. exact Hi. }
  pose proof (closed_reach _ _ _ Hm reachable_closed s Hr) as Hin.
  pose proof reachable_all_safe as Hs. rewrite forallb_forall in Hs. apply Hs. exact Hin.
Qed.
