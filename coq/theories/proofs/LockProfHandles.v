(* LockProfHandles.v - see ShapeBase.v *)
From KV Require Import Mem Expected.
From KV.gen Require Import Gen_Skel Gen_Sites.
From KV.proofs Require Import ShapeBase.

Lemma lockprof_handles_ok :
  skel_diff ["lib.Sender."; "lib.AsyncSender."; "lib.Receiver."; "lib.AsyncReceiver."; "lib.bounded"; "lib.unbounded"]
            lock_profiles expected_lock_profiles = [].
Proof. vm_compute. reflexivity. Qed.
