(* ShapeOk.v - the source shapes extracted by kx from the current /repo/src equal the pinned
   shapes the hand-written models were written against.  Re-checked by make on every run:
   an edit to the control skeleton of mutex.rs / backoff.rs::spin_cond / signal.rs, to the
   operands or number of their atomic operations, or to the lock profile of an entry point
   of lib.rs / future.rs makes the corresponding lemma fail. (Orderings are NOT compared
   here: they are parameters of the protocol theorems, see SigProof.v / MutexProof.v.) *)
From KV Require Import Mem Expected.
From KV.gen Require Import Gen_Skel Gen_Sites.

Definition strip_ord (s : string) : string :=
  (* the ordering arguments are printed after the operands as " [..]" : drop them *)
  match index 0 " [" s with
  | Some n => substring 0 n s
  | None => s
  end.

Definition strip_table (t : skel_table) : skel_table :=
  map (fun p => (fst p, map strip_ord (snd p))) t.

