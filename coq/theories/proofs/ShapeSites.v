(* ShapeSites.v - see ShapeBase.v *)
From KV Require Import Mem Expected.
From KV.gen Require Import Gen_Skel Gen_Sites.
From KV.proofs Require Import ShapeBase.

Lemma atomic_sites_shape_ok :
  list_eqb shape_eqb (map site_shape atomic_sites) (map site_shape expected_atomic_sites) = true.
Proof. vm_compute. reflexivity. Qed.
