(* PtrProof.v - C04 (data half): on every transfer path and for every size of T, the bytes
   obtained are the bytes sent; no uninitialised word or cell is read, no `unreachable` leaf
   is reached.  The size dispatch is the one regenerated from the current source. *)
From KV Require Import PtrBase Ptr.
From KV.gen Require Import Gen_Ptr.
From Coq Require Import Lia.

Lemma eval_cmp_class c r sz : eval_cmp c sz (rhs_val r) = eval_cmp c (rep (class_of sz)) (rhs_val r).
Proof.
  unfold class_of, ptr_size.
  destruct (N.eqb_spec sz 0) as [->|H0]; [reflexivity|].
  destruct (N.ltb_spec sz 8) as [Hl|Hl]; [|destruct (N.eqb_spec sz 8) as [->|H8]; [reflexivity|]];
    destruct c, r; simpl; unfold ptr_size;
    repeat match goal with
    | |- context [N.ltb ?a ?b] => destruct (N.ltb_spec a b)
    | |- context [N.leb ?a ?b] => destruct (N.leb_spec a b)
    | |- context [N.eqb ?a ?b] => destruct (N.eqb_spec a b)
    end; try reflexivity; lia.
Qed.

Lemma eval_tree_class t sz : eval_tree t sz = eval_tree t (rep (class_of sz)).
Proof.
  induction t as [a|c r t1 IH1 t2 IH2|s]; simpl; auto.
  rewrite (eval_cmp_class c r sz), IH1, IH2. reflexivity.
Qed.

Lemma at_site_class {A} sites name (sem : list string -> option A) sz :
  at_site sites name sem sz = at_site sites name sem (rep (class_of sz)).
Proof. unfold at_site. destruct (site_tree name sites); auto. rewrite eval_tree_class. reflexivity. Qed.

(* every path function depends on sz only through at_site, hence only through its class *)
Lemma class_zst sz : class_of sz = ZST -> sz = 0%N.
Proof.
  unfold class_of. destruct (N.eqb_spec sz 0); auto.
  destruct (N.ltb sz ptr_size); [discriminate|]. destruct (N.eqb sz ptr_size); discriminate.
Qed.

Lemma len_zero (d : list byte) : N.of_nat (length d) = 0%N -> d = [].
Proof. destruct d; simpl; [reflexivity|lia]. Qed.

Ltac by_class_len sz d Hlen :=
  unfold path_sync_receiver, path_sync_sender, path_async_sender, path_async_sender_local, path_async_receiver,
         drop_agrees, storing, reading, writing;
  repeat rewrite (at_site_class ptr_sites _ _ sz);
  destruct (class_of sz) eqn:Hc;
  [apply class_zst in Hc; rewrite Hc in Hlen; apply len_zero in Hlen; rewrite Hlen; vm_compute; reflexivity
  | vm_compute; reflexivity ..].

Ltac by_class sz :=
  unfold path_sync_receiver, path_sync_sender, path_async_sender, path_async_sender_local, path_async_receiver,
         drop_agrees, storing, reading, writing;
  repeat rewrite (at_site_class ptr_sites _ _ sz);
  destruct (class_of sz); vm_compute; reflexivity.

Theorem sync_receiver_recv_integrity sz d :
  N.of_nat (length d) = sz -> path_sync_receiver ptr_sites sz "lib.Receiver.recv#0" d = Some d.
Proof. intros Hlen. by_class_len sz d Hlen. Qed.

Theorem sync_receiver_recv_timeout_integrity sz d :
  N.of_nat (length d) = sz -> path_sync_receiver ptr_sites sz "lib.Receiver.recv_timeout#0" d = Some d.
Proof. intros Hlen. by_class_len sz d Hlen. Qed.

Theorem sync_sender_integrity sz d : N.of_nat (length d) = sz -> path_sync_sender ptr_sites sz d = Some d.
Proof. intros Hlen. by_class_len sz d Hlen. Qed.

Theorem async_sender_integrity sz d : N.of_nat (length d) = sz -> path_async_sender ptr_sites sz d = Some d.
Proof. intros Hlen. by_class_len sz d Hlen. Qed.

Theorem async_sender_local_integrity sz d : N.of_nat (length d) = sz -> path_async_sender_local ptr_sites sz d = Some d.
Proof. intros Hlen. by_class_len sz d Hlen. Qed.

Theorem async_receiver_integrity sz d : N.of_nat (length d) = sz -> path_async_receiver ptr_sites sz d = Some d.
Proof. intros Hlen. by_class_len sz d Hlen. Qed.

Theorem drop_paths_agree sz : drop_agrees ptr_sites sz = Some true.
Proof. by_class sz. Qed.

(* a zero-sized value is never read through a pointer (its alignment may exceed the word's) *)
Theorem zst_never_dereferenced : reading ptr_sites 0 = Some RZeroed /\ writing ptr_sites 0 = Some WNothing.
Proof. split; vm_compute; reflexivity. Qed.
