(* AtomicReduce.v - C03: Reduce.v instantiated with the atomic channel.
   Protected data = the channel configuration; a micro-operation = one label of Atomic.astep (one
   critical section of the code); the local data of a thread = the outputs of its calls so far.
   Any interleaving, lock event by lock event, of threads that each run a sequence of
   lock ; one critical section ; unlock, with any number of failed attempts and pauses in
   between, ends in the configuration - and gives every thread exactly the outputs - of
   Atomic.arun on the critical sections in the order of their unlocks.  Hence every theorem
   about arun (invariant, conservation, order, capacity, closure) holds for concurrent
   executions at the granularity of critical sections. *)
From KV Require Import Base Chan Atomic Mem Mutex Reduce.
From KV.proofs Require Import MutexProof ReduceProof.
From Coq Require Import List Lia.
Import ListNotations.

Definition aexec (l : label) (a : aconf) (outs : list out) : aconf * list out :=
  let '(a', o) := astep a l in (a', outs ++ [o]).

(* the critical sections of a serialised execution, as (thread, label), in order *)
Definition ops_of (is : list (item (list out) label)) : list label :=
  flat_map (fun i => match i with IOp _ _ l => [l] | ILoc _ _ _ => [] end) is.
Definition tagged (secs : list (N * list (item (list out) label))) : list (N * label) :=
  flat_map (fun s => map (fun l => (fst s, l)) (ops_of (snd s))) secs.

(* outputs of thread t in a run of tagged labels: those of its own labels, in order *)
Fixpoint outs_of (t : N) (a : aconf) (tl : list (N * label)) : list out :=
  match tl with
  | [] => []
  | (u, l) :: r => let '(a1, o) := astep a l in if N.eqb u t then o :: outs_of t a1 r else outs_of t a1 r
  end.

Definition no_local (secs : list (N * list (item (list out) label))) : Prop :=
  forall s i, In s secs -> In i (snd s) -> exists l, i = IOp _ _ l.

Lemma run_items_ops a outs is :
  (forall i, In i is -> exists l, i = IOp _ _ l) ->
  run_items aconf (list out) label aexec (a, outs) is =
  (fst (arun a (ops_of is)), outs ++ snd (arun a (ops_of is))).
Proof.
  revert a outs. induction is as [|i is IH]; intros a outs H.
  - simpl. rewrite app_nil_r. reflexivity.
  - destruct (H i (or_introl eq_refl)) as [l ->].
    unfold run_items in *. cbn [fold_left run_item fst snd ops_of flat_map app].
    unfold aexec at 2. destruct (astep a l) as [a1 o] eqn:E. cbn [fst snd].
    change (flat_map (fun i => match i with IOp _ _ l0 => [l0] | ILoc _ _ _ => [] end) is) with (ops_of is).
    rewrite IH by (intros j Hj; apply H; right; exact Hj).
    cbn [arun]. rewrite E. destruct (arun a1 (ops_of is)) as [a2 os]. cbn [fst snd].
    rewrite <- app_assoc. reflexivity.
Qed.

Lemma arun_app a l1 l2 :
  arun a (l1 ++ l2) = (fst (arun (fst (arun a l1)) l2), snd (arun a l1) ++ snd (arun (fst (arun a l1)) l2)).
Proof.
  revert a. induction l1 as [|l r IH]; intros a; cbn [app arun fst snd].
  - destruct (arun a l2); reflexivity.
  - destruct (astep a l) as [a1 o]. rewrite IH.
    destruct (arun a1 r) as [a2 os]. cbn [fst snd]. destruct (arun a2 l2). reflexivity.
Qed.

Lemma outs_of_app t a l1 l2 :
  outs_of t a (l1 ++ l2) = outs_of t a l1 ++ outs_of t (fst (arun a (map snd l1))) l2.
Proof.
  revert a. induction l1 as [|[u l] r IH]; intros a; cbn [app outs_of map arun fst snd].
  - reflexivity.
  - destruct (astep a l) as [a1 o]. rewrite IH.
    destruct (arun a1 (map snd r)) as [a2 os]. cbn [fst]. destruct (N.eqb u t); reflexivity.
Qed.

Lemma outs_of_same t a ls :
  outs_of t a (map (fun l => (t, l)) ls) = snd (arun a ls).
Proof.
  revert a. induction ls as [|l r IH]; intros a; cbn [map outs_of arun snd]; [reflexivity|].
  destruct (astep a l) as [a1 o]. rewrite N.eqb_refl, IH. destruct (arun a1 r). reflexivity.
Qed.

Lemma outs_of_other t u a ls : u <> t -> outs_of t a (map (fun l => (u, l)) ls) = [].
Proof.
  intros Hne. revert a. induction ls as [|l r IH]; intros a; cbn [map outs_of]; [reflexivity|].
  destruct (astep a l) as [a1 o]. destruct (N.eqb_spec u t); [congruence|apply IH].
Qed.

Lemma map_snd_tag (t : N) (ls : list label) : map snd (map (fun l => (t, l)) ls) = ls.
Proof. induction ls; simpl; congruence. Qed.

Lemma cstep_ops c u is :
  (forall i, In i is -> exists l, i = IOp _ _ l) ->
  cstep aconf (list out) label aexec c (u, is) =
  mkC _ _ (fst (arun (c_sh _ _ c) (ops_of is)))
          (updl _ (c_loc _ _ c) u (c_loc _ _ c u ++ snd (arun (c_sh _ _ c) (ops_of is)))).
Proof.
  intros H. unfold cstep. cbn [fst snd]. rewrite (run_items_ops _ _ _ H). reflexivity.
Qed.

(* the coarse execution of sections of critical sections is arun on their labels *)
Lemma crun_is_arun secs : forall c,
  no_local secs ->
  c_sh _ _ (crun aconf (list out) label aexec c secs) = fst (arun (c_sh _ _ c) (map snd (tagged secs))) /\
  forall t, c_loc _ _ (crun aconf (list out) label aexec c secs) t = c_loc _ _ c t ++ outs_of t (c_sh _ _ c) (tagged secs).
Proof.
  induction secs as [|[u is] secs IH]; intros c Hnl.
  - simpl. split; [reflexivity|]. intros t. rewrite app_nil_r. reflexivity.
  - assert (Hops : forall i, In i is -> exists l, i = IOp _ _ l).
    { intros i Hi. apply (Hnl (u, is) i); [left; reflexivity|exact Hi]. }
    assert (Hnl' : no_local secs).
    { intros s i Hs Hi. apply (Hnl s i); [right; exact Hs|exact Hi]. }
    unfold crun. cbn [fold_left]. fold (crun aconf (list out) label aexec).
    change (fold_left (cstep aconf (list out) label aexec) secs (cstep aconf (list out) label aexec c (u, is)))
      with (crun aconf (list out) label aexec (cstep aconf (list out) label aexec c (u, is)) secs).
    rewrite (cstep_ops c u is Hops).
    destruct (IH (mkC _ _ (fst (arun (c_sh _ _ c) (ops_of is)))
                      (updl _ (c_loc _ _ c) u (c_loc _ _ c u ++ snd (arun (c_sh _ _ c) (ops_of is))))) Hnl') as [IHs IHl].
    cbn [c_sh c_loc] in IHs, IHl.
    assert (Htag : tagged ((u, is) :: secs) = map (fun l => (u, l)) (ops_of is) ++ tagged secs) by reflexivity.
    rewrite Htag, map_app, map_snd_tag, arun_app. cbn [fst]. split; [exact IHs|].
    intros t. rewrite IHl, outs_of_app, map_snd_tag.
    unfold updl. destruct (N.eqb_spec t u) as [->|Hne].
    + rewrite outs_of_same. rewrite <- app_assoc. reflexivity.
    + rewrite (outs_of_other t u) by congruence. reflexivity.
Qed.

Lemma ser_no_local o_s o_u tr : forall m pend,
  (forall i, In i pend -> exists l, i = IOp (list out) label l) ->
  (forall t e, In (t, e) tr -> forall g, e <> FLocal _ _ g) ->
  no_local (ser (list out) label o_s o_u m pend tr).
Proof.
  induction tr as [|[u e] tr IH]; intros m pend Hp Hnl.
  - intros s i [].
  - assert (Hnl' : forall t e0, In (t, e0) tr -> forall g, e0 <> FLocal _ _ g).
    { intros t e0 Hin. apply (Hnl t e0). right. exact Hin. }
    destruct e as [me|o|g]; cbn [ser].
    + destruct (mstep o_s o_u m u me) as [m'|]; [|intros s i []].
      destruct (holds m u && negb (holds m' u))%bool.
      * intros s i [<-|Hs] Hi.
        -- apply Hp. exact Hi.
        -- revert s i Hs Hi. apply IH; [intros i []|exact Hnl'].
      * apply IH; assumption.
    + apply IH; [|exact Hnl'].
      intros i Hi. apply in_app_or in Hi. destruct Hi as [Hi|[<-|[]]]; [apply Hp; exact Hi|eauto].
    + exfalso. apply (Hnl u (FLocal _ _ g) (or_introl eq_refl) g). reflexivity.
Qed.

(* ---- the statement of C03 at the granularity of critical sections ---- *)
Theorem lock_level_executions_are_atomic_runs o_s o_u a0 tr s' :
  (forall t e, In (t, e) tr -> forall g, e <> FLocal _ _ g) ->
  frun aconf (list out) label aexec o_s o_u (finit _ _ a0 (fun _ => [])) tr = Some s' ->
  lock_free (f_m _ _ s') ->
  let order := tagged (ser (list out) label o_s o_u minit [] tr) in
  f_sh _ _ s' = fst (arun a0 (map snd order)) /\
  forall t, f_loc _ _ s' t = outs_of t a0 order.
Proof.
  intros Hnoloc E Hfree order.
  pose proof (critical_sections_are_atomic aconf (list out) label aexec o_s o_u a0 (fun _ => []) tr s' E Hfree) as [Hsh Hloc].
  cbn zeta in Hsh, Hloc.
  assert (Hnl : no_local (ser (list out) label o_s o_u minit [] tr)).
  { apply ser_no_local; [intros i []|exact Hnoloc]. }
  destruct (crun_is_arun _ (cinit _ _ a0 (fun _ => [])) Hnl) as [Cs Cl].
  cbn [cinit c_sh c_loc] in Cs, Cl.
  split.
  - rewrite <- Hsh. exact Cs.
  - intros t. rewrite <- Hloc, Cl. reflexivity.
Qed.

(* so the invariant of the atomic channel holds after every concurrent execution of critical sections *)
From KV.proofs Require Import Inv StepInv.
Corollary concurrent_executions_keep_the_invariant o_s o_u b cap tr s' :
  (forall t e, In (t, e) tr -> forall g, e <> FLocal _ _ g) ->
  frun aconf (list out) label aexec o_s o_u (finit _ _ (init b cap) (fun _ => [])) tr = Some s' ->
  lock_free (f_m _ _ s') ->
  Inv (f_sh _ _ s').
Proof.
  intros Hnl E Hf.
  destruct (lock_level_executions_are_atomic_runs o_s o_u (init b cap) tr s' Hnl E Hf) as [Hsh _].
  cbn zeta in Hsh. rewrite Hsh. apply reachable_inv.
Qed.
