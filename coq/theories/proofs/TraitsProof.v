(* TraitsProof.v - C20 over the struct definitions and unsafe impls of the current source *)
From KV Require Import TraitsBase Traits.
From KV.gen Require Import Gen_Traits.

Definition dv (tsend tsync : bool) (tr : trait) (n : string) : bool :=
  derives struct_defs type_aliases explicit_impls tsend tsync 40 tr (TApp n [TParam]).

(* T: Send  ==>  the four handles are Send and Sync, the futures and the stream are Send *)
Theorem send_message_types_cross_threads : forall tsync,
  forallb (fun n => dv true tsync Send n && dv true tsync Sync n) public_handles = true /\
  forallb (fun n => dv true tsync Send n) public_futures = true.
Proof. intros [|]; split; vm_compute; reflexivity. Qed.

(* T not Send  ==>  no handle, future or stream is Send or Sync *)
Theorem non_send_message_types_stay_put : forall tsync,
  forallb (fun n => negb (dv false tsync Send n) && negb (dv false tsync Sync n)) (public_handles ++ public_futures) = true.
Proof. intros [|]; vm_compute; reflexivity. Qed.

(* the full verdict table (compared with rustc's verdicts by the check) *)
Definition verdicts : list (string * bool * bool * bool * bool) :=
  flat_map (fun n => flat_map (fun ts => flat_map (fun ty => [(n, ts, ty, dv ts ty Send n, dv ts ty Sync n)]) [true; false]) [true; false])
           (public_handles ++ public_futures).
