(* Ledger.v - conservation of messages (C01, C05): in every step of the Atomic
   model, the values offered by the call plus the values held by the channel
   before the step are, as a multiset, exactly the values received, destroyed
   and handed back by the call plus the values held afterwards. *)
From KV Require Import Base Chan Atomic.
From KV.proofs Require Import Assoc Inv Cases StepInv.
From Coq Require Import ZifyN ZifyBool ZifyNat Permutation.

Definition oval (o : obj) : list tag := match o_val o with Some v => [v] | None => [] end.
Fixpoint vals (os : list (id * obj)) : list tag :=
  match os with [] => [] | (_, o) :: r => oval o ++ vals r end.

(* every value inside the channel: the buffer, blocked senders' values, values
   delivered to blocked receivers and not yet picked up, values inside futures *)
Definition held (a : aconf) : list tag := queue (ch a) ++ vals (objs a).

Definition cnt (t : tag) (l : list tag) : nat := count_occ N.eq_dec l t.

Global Arguments cnt : simpl never.
Lemma cnt_app t l1 l2 : cnt t (l1 ++ l2) = cnt t l1 + cnt t l2.
Proof. apply count_occ_app. Qed.
Lemma cnt_nil t : cnt t [] = 0.
Proof. reflexivity. Qed.
Lemma cnt_cons t x l : cnt t (x :: l) = cnt t [x] + cnt t l.
Proof. change (x :: l) with ([x] ++ l). apply cnt_app. Qed.

Lemma vals_app l1 l2 : vals (l1 ++ l2) = vals l1 ++ vals l2.
Proof. induction l1 as [|[k o] l1 IH]; simpl; auto. rewrite IH, app_assoc. reflexivity. Qed.

Lemma vals_lookup t k o os :
  lookup k os = Some o ->
  exists n, cnt t (vals os) = cnt t (oval o) + n /\
            (forall o', cnt t (vals (update k o' os)) = cnt t (oval o') + n) /\
            cnt t (vals (remove_key k os)) = n.
Proof.
  intros H. destruct (lookup_split _ _ _ H) as (l1 & l2 & -> & Hni).
  exists (cnt t (vals l1) + cnt t (vals l2)). repeat split.
  - rewrite vals_app. simpl. rewrite !cnt_app. lia.
  - intros o'. rewrite update_split by exact Hni. rewrite vals_app. simpl. rewrite !cnt_app. lia.
  - rewrite remove_split by exact Hni. rewrite vals_app, cnt_app. reflexivity.
Qed.

Lemma oval_set_sig o s : oval (set_sig o s) = oval o.
Proof. reflexivity. Qed.
Lemma oval_set_fst o s : oval (set_fst o s) = oval o.
Proof. reflexivity. Qed.
Lemma oval_set_waker o s : oval (set_waker o s) = oval o.
Proof. reflexivity. Qed.
Lemma oval_set_term o s : oval (set_term o s) = oval o.
Proof. reflexivity. Qed.

(* ---------- what each label offers ---------- *)
Definition offered (a : aconf) (l : label) : list tag :=
  match l with
  | LSend k h x | LSendTimeout k h x | LSendOptTimeout k h (Some x) =>
      if is_side a h SSend && fresh a k then [x] else []
  | LTrySend h x | LTrySendOpt h (Some x) | LTrySendRT h x _ | LTrySendOptRT h (Some x) _ =>
      if is_side a h SSend then [x] else []
  | LMkSend f h x => if is_side a h SSend && fresh a f then [x] else []
  | _ => []
  end.

Definition out_tags (o : out) : list tag := res_received (r_res o) ++ r_drops o ++ r_back o.

Definition conserves (a : aconf) (l : label) : Prop :=
  forall t, cnt t (offered a l) + cnt t (held a) =
            cnt t (out_tags (snd (astep a l))) + cnt t (held (fst (astep a l))).

(* ---------- critical sections ---------- *)
Lemma send_case_cnt a x r t :
  Inv a -> send_case a x r ->
  match r with
  | SCErr _ => True
  | SCSent a1 _ => cnt t (held a1) = cnt t [x] + cnt t (held a)
  | SCFull a1 => cnt t (held a1) = cnt t (held a)
  end.
Proof.
  intros HI [E0|k r0 o N0 F W Ho Hs Hv|c1 N0 Hn Hl|c1 N0 Hn Hl]; auto; unfold held; simpl.
  - destruct (vals_lookup t k o _ Ho) as (n & E1 & E2 & _).
    rewrite !cnt_app, E1, E2. unfold oval, fin_deliver. simpl. rewrite Hv. simpl. lia.
  - destruct (no_recv_inv a c1 HI Hn) as (_ & _ & Q1 & _). rewrite Q1, !cnt_app. lia.
  - destruct (no_recv_inv a c1 HI Hn) as (_ & _ & Q1 & _). rewrite Q1. reflexivity.
Qed.

Lemma recv_case_cnt a r t :
  Inv a -> recv_case a r ->
  match r with
  | RCGot v a1 _ => cnt t (held a) = cnt t [v] + cnt t (held a1)
  | RCNone a1 => cnt t (held a1) = cnt t (held a)
  | _ => True
  end.
Proof.
  intros HI [E0|v q k r0 o y N0 Q F W Ho Hs Hv|v q c1 N0 Q Hn|k r0 o y N0 Q F W Ho Hs Hv|c1 N0 Q Hn];
    auto; unfold held; simpl.
  - destruct (vals_lookup t k o _ Ho) as (n & E1 & E2 & _).
    rewrite Q, !cnt_app, E1, E2. unfold oval, fin_take. simpl. rewrite Hv.
    rewrite (cnt_cons t v q). simpl. lia.
  - assert (Q1 : queue c1 = q) by (destruct Hn as [[_ ->]|(_ & _ & ->)]; reflexivity).
    rewrite Q, Q1, !cnt_app, (cnt_cons t v q). lia.
  - destruct (vals_lookup t k o _ Ho) as (n & E1 & E2 & _).
    rewrite Q, !cnt_app, E1, E2. unfold oval, fin_take. simpl. rewrite Hv. simpl. lia.
  - assert (Q1 : queue c1 = queue (ch a)) by (destruct Hn as [[_ ->]|(_ & _ & ->)]; reflexivity).
    rewrite Q1. reflexivity.
Qed.

Lemma term_all_cnt t wl : forall os, cnt t (vals (fst (term_all wl os))) = cnt t (vals os).
Proof.
  induction wl as [|k r IH]; intros os; simpl; auto.
  unfold sig_term. destruct (lookup k os) as [o|] eqn:Ho.
  - specialize (IH (update k (set_sig o STerm) os)).
    destruct (term_all r (update k (set_sig o STerm) os)) as [os2 w2]. simpl in *.
    rewrite IH. destruct (vals_lookup t k o _ Ho) as (n & E1 & E2 & _).
    rewrite E1, E2. rewrite oval_set_sig. reflexivity.
  - specialize (IH os). destruct (term_all r os) as [os2 w2]. simpl in *. exact IH.
Qed.

Lemma terminate_cnt t a :
  cnt t (held (fst (terminate_signals a))) = cnt t (held a).
Proof.
  unfold terminate_signals, held. pose proof (term_all_cnt t (wait_list (ch a)) (objs a)) as H.
  destruct (term_all (wait_list (ch a)) (objs a)) as [os ws]. simpl in *. rewrite !cnt_app, H. reflexivity.
Qed.

Ltac cns := repeat match goal with
  | |- context [cnt ?t (?x :: ?l)] => lazymatch l with [] => fail | _ => rewrite (cnt_cons t x l) end
  end.
Ltac cn := unfold out_tags, held, out_of, invalid in *; simpl in *; rewrite ?cnt_app, ?cnt_nil in *; cns;
           rewrite ?cnt_app, ?cnt_nil; try lia.

Lemma held_put t a f o o' :
  lookup f (objs a) = Some o ->
  cnt t (held (put a f o')) + cnt t (oval o) = cnt t (held a) + cnt t (oval o').
Proof.
  intros Ho. unfold held, put. simpl. destruct (vals_lookup t f o _ Ho) as (n & E1 & E2 & _).
  rewrite !cnt_app, E1, E2. lia.
Qed.

Lemma held_remove t a f o :
  lookup f (objs a) = Some o ->
  cnt t (held (with_objs a (remove_key f (objs a)))) + cnt t (oval o) = cnt t (held a).
Proof.
  intros Ho. unfold held. simpl. destruct (vals_lookup t f o _ Ho) as (n & E1 & _ & E3).
  rewrite !cnt_app, E1, E3. lia.
Qed.

Lemma step_send_like_cnt a k h x kd t :
  Inv a ->
  cnt t (if is_side a h SSend && fresh a k then [x] else []) + cnt t (held a) =
  cnt t (out_tags (snd (step_send_like a k h x kd))) + cnt t (held (fst (step_send_like a k h x kd))).
Proof.
  intros HI. unfold step_send_like.
  destruct (is_side a h SSend); simpl; [|cn].
  destruct (fresh a k); simpl; [|cn].
  pose proof (send_case_cnt a x _ t HI (cs_send_case a x HI)) as H.
  destruct (cs_send a x) as [e|a1 ws|a1]; simpl.
  - destruct kd; cn.
  - cn.
  - unfold add_obj, new_obj, oval in *. cn.
Qed.

Lemma step_try_send_cnt a h x opt t :
  Inv a ->
  cnt t (if is_side a h SSend then [x] else []) + cnt t (held a) =
  cnt t (out_tags (snd (step_try_send a h x opt))) + cnt t (held (fst (step_try_send a h x opt))).
Proof.
  intros HI. unfold step_try_send.
  destruct (is_side a h SSend); simpl; [|cn].
  pose proof (send_case_cnt a x _ t HI (cs_send_case a x HI)) as H.
  destruct (cs_send a x) as [e|a1 ws|a1]; simpl; destruct opt; cn.
Qed.

Lemma step_recv_like_cnt a k h timed early t :
  Inv a ->
  cnt t (held a) =
  cnt t (out_tags (snd (step_recv_like a k h timed early))) + cnt t (held (fst (step_recv_like a k h timed early))).
Proof.
  intros HI. unfold step_recv_like.
  destruct (is_side a h SRecv); simpl; [|cn].
  destruct (fresh a k); simpl; [|cn].
  pose proof (recv_case_cnt a _ t HI (cs_recv_case a HI)) as H.
  destruct (cs_recv a) as [|v a1 ws|a1|]; simpl; try solve [cn].
  destruct (timed && early); simpl; [cn|].
  destruct (N.eqb (send_count (ch a1)) 0); simpl; [cn|].
  unfold add_obj, new_obj, oval in *. cn.
Qed.

Lemma step_try_recv_cnt a h t :
  Inv a ->
  cnt t (held a) =
  cnt t (out_tags (snd (step_try_recv a h))) + cnt t (held (fst (step_try_recv a h))).
Proof.
  intros HI. unfold step_try_recv.
  destruct (is_side a h SRecv); simpl; [|cn].
  pose proof (recv_case_cnt a _ t HI (cs_recv_case a HI)) as H.
  destruct (cs_recv a) as [|v a1 ws|a1|]; simpl; try solve [cn].
  destruct (N.eqb (send_count (ch a1)) 0); cn.
Qed.

Lemma drain_senders_cnt t n : forall c os ys c2 os2 ws,
  InvO (recv_blocking c) (wait_list c) os [] \/ True ->
  drain_senders n c os = Some (ys, c2, os2, ws) ->
  cnt t (vals os) = cnt t ys + cnt t (vals os2) /\ queue c2 = queue c.
Proof.
  induction n as [|n IH]; intros c os ys c2 os2 ws _ E; simpl in E; [discriminate|].
  destruct (next_send_case c) as [(k & r & F & W & En)|(c1 & Hns & En)]; rewrite En in E.
  - unfold sig_take in E. destruct (lookup k os) as [o|] eqn:Ho; [|discriminate].
    destruct (o_val o) as [y|] eqn:Hy; [|discriminate].
    destruct (drain_senders n (set_wait c r) (update k (set_sig (set_val o None) SOk) os))
      as [[[[ys1 c3] os3] ws3]|] eqn:E1; [|discriminate].
    injection E as <- <- <- <-.
    destruct (IH _ _ _ _ _ _ (or_intror I) E1) as [H1 H2].
    destruct (vals_lookup t k o _ Ho) as (m & E2 & E3 & _).
    rewrite E3 in H1. rewrite E2. unfold oval in *. simpl in *. rewrite Hy.
    rewrite (cnt_cons t y ys1). cn. split; [lia|exact H2].
  - injection E as <- <- <- <-. cn. split; [reflexivity|].
    destruct Hns as [[_ ->]|(_ & _ & ->)]; reflexivity.
Qed.

Local Arguments drain_senders : simpl never.

Lemma step_drain_cnt a h t :
  Inv a ->
  cnt t (held a) = cnt t (out_tags (snd (step_drain a h))) + cnt t (held (fst (step_drain a h))).
Proof.
  intros HI. unfold step_drain.
  destruct (is_side a h SRecv); simpl; [|cn].
  destruct (N.eqb (recv_count (ch a)) 0); simpl; [cn|].
  destruct (drain_senders (S (length (wait_list (ch a)))) (set_queue (ch a) []) (objs a))
    as [[[[ys c2] os2] ws]|] eqn:E; [|cn].
  destruct (drain_senders_cnt t _ _ _ _ _ _ _ (or_intror I) E) as [H1 H2].
  simpl in H2. unfold out_tags, held. simpl. rewrite H2. cn.
Qed.

Lemma step_close_cnt a h t :
  cnt t (held a) = cnt t (out_tags (snd (step_close a h))) + cnt t (held (fst (step_close a h))).
Proof.
  unfold step_close. destruct (handle_side a h); simpl; [|cn].
  destruct (N.eqb (recv_count (ch a)) 0 && N.eqb (send_count (ch a)) 0); simpl; [cn|].
  pose proof (terminate_cnt t (with_ch a (set_counts (ch a) 0 0))) as H.
  destruct (terminate_signals (with_ch a (set_counts (ch a) 0 0))) as [a2 ws] eqn:E.
  simpl in *. unfold held in *. simpl in *.
  assert (Q : queue (ch a2) = queue (ch a)).
  { unfold terminate_signals in E. simpl in E.
    destruct (term_all (wait_list (ch a)) (objs a)). injection E as <- _. reflexivity. }
  rewrite Q in H. cn.
Qed.

Lemma step_drop_handle_cnt a h t :
  cnt t (held a) = cnt t (out_tags (snd (step_drop_handle a h))) + cnt t (held (fst (step_drop_handle a h))).
Proof.
  unfold step_drop_handle. destruct (handle_side a h) as [s|]; simpl; [|cn].
  destruct (borrowed a h); simpl; [cn|].
  match goal with |- context [let '(a1, ws) := ?X in _] =>
    assert (HX : cnt t (held (fst X)) = cnt t (held a)); [|destruct X as [a1 ws]] end.
  { destruct s;
      repeat match goal with |- context [if ?b then _ else _] => destruct b end;
      simpl; try reflexivity;
      match goal with |- context [terminate_signals ?A] => rewrite (terminate_cnt t A) end; reflexivity. }
  simpl in HX. destruct (remove_key h (handles a)); unfold held in *; simpl in *; cn.
Qed.

Lemma okb_sync l f o : obj_okb l f o = true -> kind_async (o_kind o) = false -> o_fst o = FWaiting.
Proof.
  unfold obj_okb. intros H K. rewrite K in H. destruct (o_fst o); auto; destruct (o_sig o);
    rewrite ?andb_false_r in H; simpl in H; discriminate.
Qed.

(* the value field of an object, from its shape *)
Lemma okb_oval l f o :
  obj_okb l f o = true ->
  match o_fst o, o_sig o with
  | FWaiting, SOk => has_val o = negb (is_send o)
  | FDone, _ => has_val o = false
  | _, _ => has_val o = is_send o
  end.
Proof.
  unfold obj_okb. destruct (o_fst o), (o_sig o); intros H; try discriminate;
    repeat (apply andb_prop in H; destruct H as [H ?]);
    try (apply eqb_prop; assumption);
    try (destruct (has_val o); simpl in *; congruence).
Qed.

Lemma oval_has_val o : has_val o = false -> oval o = [].
Proof. unfold has_val, oval. destruct (o_val o); congruence. Qed.

Lemma step_complete_cnt a k t :
  Inv a ->
  cnt t (held a) = cnt t (out_tags (snd (step_complete a k))) + cnt t (held (fst (step_complete a k))).
Proof.
  intros HI. unfold step_complete.
  destruct (lookup k (objs a)) as [o|] eqn:Ho; simpl; [|cn].
  destruct (kind_async (o_kind o)) eqn:Hka; simpl; [cn|].
  destruct HI as (HO & _ & _). pose proof (i_obj _ _ _ _ HO k o Ho) as Hok.
  pose proof (okb_sync _ _ _ Hok Hka) as Hfst.
  pose proof (okb_oval _ _ _ Hok) as Hv. rewrite Hfst in Hv.
  pose proof (held_remove t a k o Ho) as Hr.
  unfold is_send in Hv.
  destruct (o_sig o) eqn:Hsig; simpl; [cn| |];
    destruct (kind_side (o_kind o)) eqn:Hside; simpl in *.
  - rewrite (oval_has_val o Hv) in Hr. cn.
  - unfold oval, has_val in *. destruct (o_val o); [cn|discriminate].
  - unfold oval, has_val in *. destruct (o_val o); [|discriminate]. destruct (o_kind o); cn.
  - rewrite (oval_has_val o Hv) in Hr. cn.
Qed.

Lemma step_timeout_cnt a k t :
  Inv a ->
  cnt t (held a) = cnt t (out_tags (snd (step_timeout a k))) + cnt t (held (fst (step_timeout a k))).
Proof.
  intros HI. unfold step_timeout.
  destruct (lookup k (objs a)) as [o|] eqn:Ho; simpl; [|cn].
  destruct (kind_timed (o_kind o)) eqn:Hkt; simpl; [|cn].
  destruct (o_sig o) eqn:Hsig; simpl; [|cn|cn].
  destruct HI as (HO & _ & _). pose proof (i_obj _ _ _ _ HO k o Ho) as Hok.
  pose proof (held_remove t a k o Ho) as Hr.
  assert (Hq : forall c1, queue c1 = queue (ch a) ->
               cnt t (held (mkConf c1 (remove_key k (objs a)) (handles a))) + cnt t (oval o) = cnt t (held a)).
  { intros c1 Q. unfold held in *. simpl in *. rewrite Q. exact Hr. }
  destruct (kind_side (o_kind o)) eqn:Hside.
  - destruct (cancel_send_case (ch a) k) as [(_ & -> & Hin & _)| ->]; simpl; [|cn].
    specialize (Hq _ eq_refl).
    destruct (o_kind o); simpl in *; try discriminate; unfold oval in *;
      destruct (o_val o); cn.
  - destruct (cancel_recv_case (ch a) k) as [(_ & -> & Hin & _)| ->]; simpl; [|cn].
    specialize (Hq _ eq_refl).
    apply mem_in in Hin. rewrite Hin in Hok. apply okb_listed in Hok as (_ & _ & _ & Hv).
    unfold is_send in Hv. rewrite Hside in Hv. rewrite (oval_has_val o Hv) in Hq.
    destruct (o_kind o); simpl in *; try discriminate; destruct (o_val o); cn.
Qed.

Lemma step_mk_cnt a f h kd v t :
  cnt t (if is_side a h (kind_side kd) && fresh a f then match v with Some x => [x] | None => [] end else []) +
  cnt t (held a) =
  cnt t (out_tags (snd (step_mk a f h kd v))) + cnt t (held (fst (step_mk a f h kd v))).
Proof.
  unfold step_mk. destruct (is_side a h (kind_side kd)); simpl; [|cn].
  destruct (fresh a f); simpl; [|cn]. unfold oval. destruct v; cn.
Qed.

Definition ds4 {A B D} (x : A * B * list tag * D) : list tag := snd (fst x).
Definition pr4 {A D} (x : A * pollres * list tag * D) : list tag :=
  match snd (fst (fst x)) with PReadyOkV v => [v] | _ => [] end.

Lemma poll_send_cnt a f o w t :
  Inv a -> lookup f (objs a) = Some o -> o_kind o = KSendFut ->
  cnt t (held a) = cnt t (pr4 (poll_send a f o w)) + cnt t (ds4 (poll_send a f o w)) +
                   cnt t (held (st4 (poll_send a f o w))).
Proof.
  intros HI Ho Hkd. unfold poll_send, st4, ds4, pr4.
  pose proof HI as (HO & HQ & HC).
  pose proof (i_obj _ _ _ _ HO f o Ho) as Hok.
  pose proof (okb_oval _ _ _ Hok) as Hv.
  assert (Hsend : is_send o = true) by (unfold is_send; rewrite Hkd; reflexivity).
  rewrite Hsend in Hv. simpl in Hv.
  destruct (o_fst o) eqn:Hfst.
  - destruct (okb_zero_facts _ _ _ Hok Hfst) as (Hl & Hsig & _ & _). apply mem_false in Hl.
    destruct (o_val o) as [x|] eqn:Hval; simpl; [|cn].
    pose proof (send_case_cnt a x _ t HI (cs_send_case a x HI)) as H.
    pose proof (send_case_frame a x _ (cs_send_case a x HI)) as Hfr.
    pose proof (send_case_inv a x _ HI (cs_send_case a x HI)) as Hi.
    destruct (cs_send a x) as [e|a1 ws|a1]; simpl.
    + pose proof (held_put t a f o (set_fst (set_val o None) FDone) Ho) as Hp.
      unfold oval in Hp. simpl in Hp. rewrite Hval in Hp. cn.
    + destruct Hfr as [Fr1 _]. rewrite <- (Fr1 f Hl) in Ho.
      pose proof (held_put t a1 f o (set_fst (set_val o None) FDone) Ho) as Hp.
      unfold oval in Hp. simpl in Hp. rewrite Hval in Hp. cn.
    + destruct Hi as (_ & _ & O1 & _). rewrite <- O1 in Ho.
      pose proof (held_put t a1 f o (set_waker (set_fst o FWaiting) (Some w)) Ho) as Hp.
      rewrite oval_set_waker, oval_set_fst in Hp. unfold held in *. simpl in *. cn.
  - destruct (o_sig o) eqn:Hsig; simpl.
    + destruct (match o_waker o with Some w' => N.eqb w' w | None => false end); simpl; [cn|].
      destruct (send_signal_exists (ch a) f); simpl; [|cn].
      pose proof (held_put t a f o (set_waker o (Some w)) Ho) as Hp. rewrite oval_set_waker in Hp. cn.
    + pose proof (held_put t a f o (set_fst o FDone) Ho) as Hp. rewrite oval_set_fst in Hp. cn.
    + destruct (o_val o) as [x|] eqn:Hval; simpl; [|cn].
      pose proof (held_put t a f o (set_fst (set_val o None) FDone) Ho) as Hp.
      unfold oval in Hp. simpl in Hp. rewrite Hval in Hp. cn.
  - cn.
Qed.

Lemma poll_recv_zero_cnt a f o0 o w t :
  Inv a -> lookup f (objs a) = Some o0 -> ~ In f (wait_list (ch a)) ->
  oval o0 = [] -> o_val o = None ->
  cnt t (held a) = cnt t (pr4 (poll_recv_zero a f o w)) + cnt t (ds4 (poll_recv_zero a f o w)) +
                   cnt t (held (st4 (poll_recv_zero a f o w))).
Proof.
  intros HI Ho Hni Hv0 Hv. unfold poll_recv_zero, st4, ds4, pr4.
  pose proof (recv_case_cnt a _ t HI (cs_recv_case a HI)) as H.
  pose proof (recv_case_frame a _ (cs_recv_case a HI)) as Hfr.
  pose proof (recv_case_inv a _ HI (cs_recv_case a HI)) as Hi.
  assert (Hov : forall s, oval (set_fst o s) = []) by (intros s; unfold oval; simpl; rewrite Hv; reflexivity).
  destruct (cs_recv a) as [|v a1 ws|a1|]; simpl.
  - pose proof (held_put t a f o0 (set_fst o FDone) Ho) as Hp. rewrite Hov, Hv0 in Hp. cn.
  - destruct Hfr as [Fr1 _]. rewrite <- (Fr1 f Hni) in Ho.
    pose proof (held_put t a1 f o0 (set_fst o FDone) Ho) as Hp. rewrite Hov, Hv0 in Hp. cn.
  - destruct Hi as (_ & _ & O1 & _). rewrite <- O1 in Ho.
    destruct (N.eqb (send_count (ch a1)) 0); simpl.
    + pose proof (held_put t a1 f o0 (set_fst o FDone) Ho) as Hp. rewrite Hov, Hv0 in Hp. cn.
    + pose proof (held_put t a1 f o0 (set_waker (set_fst o FWaiting) (Some w)) Ho) as Hp.
      rewrite oval_set_waker, Hov, Hv0 in Hp. unfold held in *. simpl in *. cn.
  - cn.
Qed.

Lemma poll_recv_cnt a f o w t :
  Inv a -> lookup f (objs a) = Some o -> (o_kind o = KRecvFut \/ o_kind o = KStream) ->
  cnt t (held a) = cnt t (pr4 (poll_recv a f o w)) + cnt t (ds4 (poll_recv a f o w)) +
                   cnt t (held (st4 (poll_recv a f o w))).
Proof.
  intros HI Ho Hkd. unfold poll_recv.
  pose proof HI as (HO & HQ & HC).
  pose proof (i_obj _ _ _ _ HO f o Ho) as Hok.
  pose proof (okb_oval _ _ _ Hok) as Hv.
  assert (Hsend : is_send o = false) by (unfold is_send; destruct Hkd as [-> | ->]; reflexivity).
  rewrite Hsend in Hv. simpl in Hv.
  destruct (o_fst o) eqn:Hfst.
  - destruct (okb_zero_facts _ _ _ Hok Hfst) as (Hl & Hsig & _ & _). apply mem_false in Hl.
    apply poll_recv_zero_cnt with (o0 := o); auto.
    + apply oval_has_val. exact Hv.
    + apply has_val_false. exact Hv.
  - unfold st4, ds4, pr4. destruct (o_sig o) eqn:Hsig; simpl.
    + destruct (match o_waker o with Some w' => N.eqb w' w | None => false end); simpl; [cn|].
      destruct (recv_signal_exists (ch a) f); simpl; [|cn].
      pose proof (held_put t a f o (set_waker o (Some w)) Ho) as Hp. rewrite oval_set_waker in Hp. cn.
    + destruct (o_val o) as [v|] eqn:Hval; simpl; [|cn].
      pose proof (held_put t a f o (set_fst (set_val o None) FDone) Ho) as Hp.
      unfold oval in Hp. simpl in Hp. rewrite Hval in Hp. cn.
    + pose proof (held_put t a f o (set_fst o FDone) Ho) as Hp. rewrite oval_set_fst in Hp. cn.
  - assert (Hni : ~ In f (wait_list (ch a))).
    { eapply unlisted_of_sig; eauto. right. congruence. }
    assert (Hv0 : has_val o = false) by (destruct (o_sig o); exact Hv).
    destruct (o_kind o) eqn:Hk; try solve [unfold st4, ds4, pr4; cn].
    apply poll_recv_zero_cnt with (o0 := o); auto.
    + apply oval_has_val. exact Hv0.
    + simpl. apply has_val_false. exact Hv0.
Qed.

Lemma step_poll_cnt a f w t :
  Inv a ->
  cnt t (held a) = cnt t (out_tags (snd (step_poll a f w))) + cnt t (held (fst (step_poll a f w))).
Proof.
  intros HI. unfold step_poll.
  destruct (lookup f (objs a)) as [o|] eqn:Ho; simpl; [|cn].
  destruct (o_kind o) eqn:Hk; simpl; try solve [cn].
  - pose proof (poll_send_cnt a f o w t HI Ho Hk) as H. unfold st4, ds4, pr4 in H.
    destruct (poll_send a f o w) as [[[a1 p] ds] ws]. simpl in *. destruct p; cn.
  - pose proof (poll_recv_cnt a f o w t HI Ho (or_introl Hk)) as H. unfold st4, ds4, pr4 in H.
    destruct (poll_recv a f o w) as [[[a1 p] ds] ws]. simpl in *. destruct p; cn.
  - destruct (o_term o); simpl; [cn|].
    pose proof (poll_recv_cnt a f o w t HI Ho (or_intror Hk)) as H. unfold st4, ds4, pr4 in H.
    destruct (poll_recv a f o w) as [[[a1 p] ds] ws]. simpl in *.
    destruct p; simpl; try solve [cn].
    destruct (lookup f (objs a1)) as [o1|] eqn:Ho1; simpl; [|cn].
    pose proof (held_put t a1 f o1 (set_term o1 true) Ho1) as Hp. rewrite oval_set_term in Hp. cn.
Qed.

Lemma step_drop_fut_cnt a f t :
  Inv a ->
  cnt t (held a) = cnt t (out_tags (snd (step_drop_fut a f))) + cnt t (held (fst (step_drop_fut a f))).
Proof.
  intros HI. unfold step_drop_fut.
  destruct (lookup f (objs a)) as [o|] eqn:Ho; simpl; [|cn].
  destruct (kind_async (o_kind o)); simpl; [|cn].
  destruct HI as (HO & _ & _). pose proof (i_obj _ _ _ _ HO f o Ho) as Hok.
  pose proof (okb_oval _ _ _ Hok) as Hv.
  pose proof (held_remove t a f o Ho) as Hr.
  assert (Hq : forall c1, queue c1 = queue (ch a) ->
               cnt t (held (mkConf c1 (remove_key f (objs a)) (handles a))) + cnt t (oval o) = cnt t (held a)).
  { intros c1 Q. unfold held in *. simpl in *. rewrite Q. exact Hr. }
  unfold is_send in Hv.
  destruct (kind_side (o_kind o)) eqn:Hside; destruct (o_fst o) eqn:Hfst; simpl in *.
  - unfold oval in *. destruct (o_val o); cn.
  - destruct (cancel_send_case (ch a) f) as [(_ & -> & Hin & _)| ->]; simpl.
    + specialize (Hq _ eq_refl). unfold oval in *. destruct (o_val o); cn.
    + destruct (o_sig o) eqn:Hsig; simpl.
      * cn.
      * rewrite (oval_has_val o Hv) in Hr. cn.
      * unfold oval in *. destruct (o_val o); cn.
  - assert (Hv' : has_val o = false) by (destruct (o_sig o); exact Hv).
    rewrite (oval_has_val o Hv') in Hr. cn.
  - assert (Hv' : has_val o = false) by (destruct (o_sig o); exact Hv).
    rewrite (oval_has_val o Hv') in Hr. cn.
  - destruct (cancel_recv_case (ch a) f) as [(_ & -> & Hin & _)| ->]; simpl.
    + specialize (Hq _ eq_refl).
      apply mem_in in Hin. rewrite Hin in Hok. apply okb_listed in Hok as (_ & Hsg & _ & _).
      rewrite Hsg in Hv. rewrite (oval_has_val o Hv) in Hq. cn.
    + destruct (o_sig o) eqn:Hsig; simpl.
      * cn.
      * unfold oval in *. destruct (o_val o); cn.
      * rewrite (oval_has_val o Hv) in Hr. cn.
  - assert (Hv' : has_val o = false) by (destruct (o_sig o); exact Hv).
    rewrite (oval_has_val o Hv') in Hr. cn.
Qed.

(* ---------- the step theorem ---------- *)
Theorem astep_conserves a l : Inv a -> conserves a l.
Proof.
  intros HI t. destruct l; simpl offered; simpl astep.
  - unfold step_clone. destruct (handle_side a h); [destruct (handle_side a h')|]; cn.
    destruct s; repeat match goal with |- context [if ?b then _ else _] => destruct b end; cn.
  - rewrite cnt_nil. apply (step_drop_handle_cnt a h t).
  - rewrite cnt_nil. apply (step_close_cnt a h t).
  - unfold step_obs. destruct (handle_side a h) as [s|]; [destruct o; try destruct s|]; cn.
  - apply step_send_like_cnt; auto.
  - apply step_send_like_cnt; auto.
  - destruct x; [apply step_send_like_cnt; auto|]. destruct (is_side a h SSend); cn.
  - apply step_try_send_cnt; auto.
  - destruct x; [apply step_try_send_cnt; auto|]. destruct (is_side a h SSend); cn.
  - destruct busy; [destruct (is_side a h SSend); cn|apply step_try_send_cnt; auto].
  - destruct x; [|destruct (is_side a h SSend); cn].
    destruct busy; [destruct (is_side a h SSend); cn|apply step_try_send_cnt; auto].
  - rewrite cnt_nil. apply step_recv_like_cnt; auto.
  - rewrite cnt_nil. apply step_recv_like_cnt; auto.
  - rewrite cnt_nil. apply step_try_recv_cnt; auto.
  - rewrite cnt_nil. destruct busy; [destruct (is_side a h SRecv); cn|apply step_try_recv_cnt; auto].
  - rewrite cnt_nil. apply step_drain_cnt; auto.
  - rewrite cnt_nil. apply step_complete_cnt; auto.
  - rewrite cnt_nil. apply step_timeout_cnt; auto.
  - apply (step_mk_cnt a f h KSendFut (Some x) t).
  - pose proof (step_mk_cnt a f h KRecvFut None t) as H. simpl in H.
    destruct (is_side a h SRecv && fresh a f); exact H.
  - pose proof (step_mk_cnt a f h KStream None t) as H. simpl in H.
    destruct (is_side a h SRecv && fresh a f); exact H.
  - rewrite cnt_nil. apply step_poll_cnt; auto.
  - rewrite cnt_nil. apply step_drop_fut_cnt; auto.
  - unfold step_stream_term. destruct (lookup f (objs a)) as [o|]; [destruct (o_kind o)|]; cn.
Qed.

(* ---------- whole executions ---------- *)
Fixpoint offered_run (a : aconf) (ls : list label) : list tag :=
  match ls with
  | [] => []
  | l :: r => offered a l ++ offered_run (fst (astep a l)) r
  end.

Definition outs_tags (os : list out) : list tag := flat_map out_tags os.
Definition outs_received (os : list out) : list tag := flat_map (fun o => res_received (r_res o)) os.
Definition outs_dropped (os : list out) : list tag := flat_map r_drops os.
Definition outs_back (os : list out) : list tag := flat_map r_back os.

Lemma arun_conserves ls : forall a t, Inv a ->
  cnt t (offered_run a ls) + cnt t (held a) =
  cnt t (outs_tags (snd (arun a ls))) + cnt t (held (fst (arun a ls))).
Proof.
  induction ls as [|l ls IH]; intros a t HI; simpl; [cn|].
  pose proof (astep_conserves a l HI t) as H1.
  pose proof (astep_inv a l HI) as HI1.
  destruct (astep a l) as [a1 o] eqn:E1. simpl in *.
  specialize (IH a1 t HI1). destruct (arun a1 ls) as [a2 os]. simpl in *.
  unfold outs_tags in *. simpl. rewrite !cnt_app in *. lia.
Qed.

Lemma cnt_flat_map_split t os :
  cnt t (outs_tags os) = cnt t (outs_received os) + cnt t (outs_dropped os) + cnt t (outs_back os).
Proof.
  unfold outs_tags, outs_received, outs_dropped, outs_back.
  induction os as [|o os IH]; simpl; [reflexivity|].
  unfold out_tags at 1. rewrite !cnt_app, IH. lia.
Qed.

(* C01 / C05, multiset form: over any execution from a fresh channel, the values
   offered are exactly the values received + destroyed + handed back + still held *)
Theorem ledger_conservation b cap ls :
  let '(a, os) := arun (init b cap) ls in
  Permutation (offered_run (init b cap) ls)
              (outs_received os ++ outs_dropped os ++ outs_back os ++ held a).
Proof.
  destruct (arun (init b cap) ls) as [a os] eqn:E.
  apply (Permutation_count_occ N.eq_dec). intros t.
  pose proof (arun_conserves ls (init b cap) t (init_inv b cap)) as H. rewrite E in H. simpl in H.
  fold (cnt t (offered_run (init b cap) ls)).
  fold (cnt t (outs_received os ++ outs_dropped os ++ outs_back os ++ held a)).
  rewrite !cnt_app. rewrite cnt_flat_map_split in H.
  change (held (init b cap)) with (@nil tag) in H. rewrite cnt_nil in H. lia.
Qed.
