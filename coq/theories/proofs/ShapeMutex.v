(* ShapeMutex.v - see ShapeBase.v *)
From KV Require Import Mem Expected.
From KV.gen Require Import Gen_Skel Gen_Sites.
From KV.proofs Require Import ShapeBase.

Lemma mutex_shape_ok :
  skel_diff ["mutex."; "backoff."] (strip_table protocol_skeletons) (strip_table expected_protocol_skeletons) = [].
Proof. vm_compute. reflexivity. Qed.
