(* VecDrain.v - C19, the caller's vector: previous contents untouched, everything taken appended in
   order, the count returned is the number appended, no usize underflow - for every vector, every
   growth policy of the allocator and every channel state. *)
From KV Require Import Base Chan Atomic Vec.
From KV.proofs Require Import Inv StepInv Fifo Drain.
From Coq Require Import ZifyN ZifyBool ZifyNat.

Local Arguments N.add : simpl never.
Local Arguments N.sub : simpl never.
Local Arguments N.ltb : simpl never.
Local Arguments N.leb : simpl never.

Definition grows_enough (grow : N -> N -> N) : Prop := forall cap need, (need <= grow cap need)%N.

Lemma len_app {A} (l r : list A) : len (l ++ r) = (len l + len r)%N.
Proof. unfold len. rewrite app_length. lia. Qed.

Lemma reserve_spec grow v n :
  grows_enough grow -> vec_ok v ->
  v_items (v_reserve grow v n) = v_items v /\ vec_ok (v_reserve grow v n) /\
  (len (v_items v) + n <= v_cap (v_reserve grow v n))%N.
Proof.
  intros Hg Hok. unfold v_reserve, vec_ok in *.
  destruct (N.leb_spec (len (v_items v) + n) (v_cap v)) as [E|E]; cbn [v_items v_cap].
  - repeat split; auto.
  - pose proof (Hg (v_cap v) (len (v_items v) + n)%N). repeat split; lia.
Qed.

Lemma push_spec grow v x :
  grows_enough grow -> vec_ok v ->
  v_items (v_push grow v x) = v_items v ++ [x] /\ vec_ok (v_push grow v x).
Proof.
  intros Hg Hok. unfold v_push, vec_ok in *. cbn [v_items v_cap]. split; [reflexivity|].
  rewrite len_app. change (len [x]) with 1%N.
  destruct (N.ltb_spec (len (v_items v)) (v_cap v)) as [E|E]; [lia|].
  pose proof (Hg (v_cap v) (len (v_items v) + 1)%N). lia.
Qed.

Lemma pushes_spec grow xs : forall v,
  grows_enough grow -> vec_ok v ->
  v_items (fold_left (v_push grow) xs v) = v_items v ++ xs /\ vec_ok (fold_left (v_push grow) xs v).
Proof.
  induction xs as [|x xs IH]; intros v Hg Hok; cbn [fold_left].
  - rewrite app_nil_r. auto.
  - destruct (push_spec grow v x Hg Hok) as [Hi Hok1].
    destruct (IH (v_push grow v x) Hg Hok1) as [Hi2 Hok2].
    split; [|exact Hok2]. rewrite Hi2, Hi, <- app_assoc. reflexivity.
Qed.

(* a push into spare capacity does not touch the allocation *)
Lemma push_keeps_cap grow v x :
  (len (v_items v) < v_cap v)%N -> v_cap (v_push grow v x) = v_cap v.
Proof.
  intros H. unfold v_push. cbn [v_cap]. destruct (N.ltb_spec (len (v_items v)) (v_cap v)); [reflexivity|lia].
Qed.

Theorem drain_into_vec_spec grow v required taken :
  grows_enough grow -> vec_ok v ->
  exists v',
    drain_into_vec grow v required taken = Some (v', required) /\
    v_items v' = v_items v ++ taken /\ vec_ok v'.
Proof.
  intros Hg Hok. unfold drain_into_vec, csub. pose proof Hok as Hok0. unfold vec_ok in Hok0.
  destruct (N.ltb_spec (v_cap v) (len (v_items v))) as [E|E]; [lia|].
  destruct (N.ltb_spec (v_cap v - len (v_items v)) required) as [R|R].
  - destruct (N.ltb_spec (len (v_items v) + required) (v_cap v - len (v_items v))) as [U|U]; [lia|].
    destruct (reserve_spec grow v (len (v_items v) + required - (v_cap v - len (v_items v))) Hg Hok)
      as (Hi & Hok1 & _).
    destruct (pushes_spec grow taken _ Hg Hok1) as [Hi2 Hok2].
    eexists. split; [reflexivity|]. split; [|exact Hok2]. rewrite Hi2, Hi. reflexivity.
  - destruct (pushes_spec grow taken v Hg Hok) as [Hi2 Hok2].
    eexists. split; [reflexivity|]. split; [exact Hi2|exact Hok2].
Qed.

(* channel and vector together: one drain_into call on any reachable configuration, any vector *)
Theorem drain_into_whole grow a h v :
  grows_enough grow -> vec_ok v ->
  Inv a -> is_side a h SRecv = true -> recv_count (ch a) <> 0%N ->
  exists a' ws n ys v',
    step_drain a h = (a', mkOut (RDrain n ys) [] ws []) /\
    drain_into_vec grow v n ys = Some (v', n) /\
    ys = pending a /\
    v_items v' = v_items v ++ pending a /\
    (len (v_items v') = len (v_items v) + n)%N /\
    firstn (length (v_items v)) (v_items v') = v_items v /\
    pending a' = [] /\ vec_ok v'.
Proof.
  intros Hg Hok HI Hs Hr.
  destruct (drain_spec a h HI Hs Hr) as (a' & ws & Hstep & Hp & _).
  destruct (drain_into_vec_spec grow v (len (pending a)) (pending a) Hg Hok) as (v' & Hd & Hi & Hok').
  exists a', ws, (len (pending a)), (pending a), v'.
  repeat split; auto.
  - rewrite Hi, len_app. reflexivity.
  - rewrite Hi, firstn_app, PeanoNat.Nat.sub_diag, firstn_all. cbn [firstn]. apply app_nil_r.
Qed.

Lemma grow_amortised_enough : grows_enough grow_amortised.
Proof. intros cap need. unfold grow_amortised. lia. Qed.

(* what the harness observes on the model is exactly (required, taken, intact) *)
Theorem drain_observed_spec prev spare required taken :
  drain_observed prev spare required taken = Some (required, taken, true).
Proof.
  unfold drain_observed.
  assert (Hok : vec_ok (mkVec prev (len prev + spare))) by (unfold vec_ok; cbn [v_items v_cap]; lia).
  destruct (drain_into_vec_spec grow_amortised _ required taken grow_amortised_enough Hok) as (v' & -> & Hi & _).
  cbn [v_items] in Hi. rewrite Hi, skipn_app, PeanoNat.Nat.sub_diag, skipn_all, firstn_app,
    PeanoNat.Nat.sub_diag, firstn_all. cbn [skipn firstn app]. rewrite app_nil_r.
  destruct (list_eq_dec N.eq_dec prev prev) as [_|N]; [reflexivity|congruence].
Qed.

(* a closed channel: the vector is not touched at all (the function returns before using it) *)
Theorem drain_into_closed_keeps_vector a h :
  is_side a h SRecv = true -> recv_count (ch a) = 0%N ->
  step_drain a h = (a, out_of (RErr EClosed)).
Proof. exact (drain_closed a h). Qed.

(* non-vacuity, and an observation about the code: the argument given to `reserve` is not the
   room that is missing (it is `len + required - remaining`, `reserve` wants `required - remaining`
   counted from `len`), so with len = 0, capacity 2 and five values to take the hint asks for
   capacity 3 and the pushes grow the vector again; with len = capacity = 4 and one value it asks
   for capacity 9.  The contents and the count are right either way (theorem above): this is
   an allocation quirk, not a violation of C19. *)
Definition grow_exact (cap need : N) : N := need.

Example drain_vec_example :
  (drain_into_vec grow_exact (mkVec [200; 201] 3) 3 [1; 2; 3]
  = Some (mkVec [200; 201; 1; 2; 3] 6, 3))%N.
Proof. vm_compute. reflexivity. Qed.

Example reserve_hint_under_reserves :
  (v_cap (v_reserve grow_exact (mkVec [] 2) (0 + 5 - 2)) = 3)%N.
Proof. vm_compute. reflexivity. Qed.

Example reserve_hint_over_reserves :
  (v_cap (v_reserve grow_exact (mkVec [7; 7; 7; 7] 4) (4 + 1 - 0)) = 9)%N.
Proof. vm_compute. reflexivity. Qed.
