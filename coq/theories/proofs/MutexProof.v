(* MutexProof.v - C17: mutual exclusion, hand-over of the protected data, try never waits,
   blocking acquisition; for any number of threads and any interleaving. *)
From KV Require Import Mem Mutex.
From Coq Require Import Lia.

Record MInv (rel_acq : bool) (s : mstate) : Prop := mkMInv {
  mi_excl : forall t1 t2, m_pc s t1 = MHold -> m_pc s t2 = MHold -> t1 = t2;
  mi_flag1 : forall t, m_pc s t = MHold -> m_flag s = true;
  mi_flag2 : m_flag s = true -> exists t, m_pc s t = MHold;
  mi_tok_free : rel_acq = true -> m_flag s = false -> m_deposited s = true /\ m_owner s = None;
  mi_tok_held : rel_acq = true -> forall t, m_pc s t = MHold -> m_owner s = Some t /\ m_deposited s = false
}.

Lemma upd_same pc t v : upd pc t v t = v.
Proof. unfold upd. rewrite N.eqb_refl. reflexivity. Qed.
Lemma upd_other pc t v x : x <> t -> upd pc t v x = pc x.
Proof. unfold upd. intros H. destruct (N.eqb_spec x t); [congruence|reflexivity]. Qed.

Lemma minit_inv b : MInv b minit.
Proof. constructor; simpl; intros; try discriminate; auto. Qed.

Lemma cas_inv o_s o_u s t ok fpc s' :
  MInv (mutex_ords_ok o_s o_u) s -> m_pc s t <> MHold -> fpc <> MHold ->
  cas o_s s t ok fpc = Some s' -> MInv (mutex_ords_ok o_s o_u) s'.
Proof.
  intros [Ex F1 F2 Tf Th] Hpc Hf. unfold cas.
  destruct (m_flag s) eqn:Fl; destruct ok; try discriminate.
  - (* failed attempt: only this thread's pc changes, to a non-holding one *)
    intros E. injection E as <-. constructor; simpl.
    + intros t1 t2. unfold upd. destruct (N.eqb_spec t1 t), (N.eqb_spec t2 t); try congruence. apply Ex.
    + intros x. unfold upd. destruct (N.eqb_spec x t); [congruence|auto].
    + intros _. destruct (F2 eq_refl) as [h Hh]. exists h. unfold upd.
      destruct (N.eqb_spec h t); [congruence|exact Hh].
    + intros _ Hx. discriminate Hx.
    + intros Hr x. unfold upd. destruct (N.eqb_spec x t); [congruence|apply Th; exact Hr].
  - (* successful attempt: the flag was clear, so nobody was holding *)
    assert (Hnone : forall x, m_pc s x <> MHold).
    { intros x Hx. specialize (F1 x Hx). congruence. }
    intros E.
    assert (Hs' : m_flag s' = true /\ m_pc s' = upd (m_pc s) t MHold).
    { destruct (is_acq o_s && m_deposited s); injection E as <-; simpl; auto. }
    destruct Hs' as [Hfl Hpc'].
    constructor; rewrite ?Hpc', ?Hfl.
    + intros t1 t2. unfold upd. destruct (N.eqb_spec t1 t), (N.eqb_spec t2 t); try congruence;
        intros H1 H2; exfalso; eapply Hnone; eauto.
    + auto.
    + intros _. exists t. apply upd_same.
    + intros _ Hx. discriminate Hx.
    + intros Hr x. unfold upd. destruct (N.eqb_spec x t) as [->|Hn].
      * intros _. destruct (Tf Hr eq_refl) as [Hd Ho].
        unfold mutex_ords_ok in Hr. apply andb_prop in Hr as [Ha _].
        rewrite Ha, Hd in E. simpl in E. injection E as <-. simpl. auto.
      * intros Hx. exfalso. eapply Hnone; eauto.
Qed.

Theorem mstep_inv o_s o_u s t e s' :
  MInv (mutex_ords_ok o_s o_u) s -> mstep o_s o_u s t e = Some s' -> MInv (mutex_ords_ok o_s o_u) s'.
Proof.
  intros HI. unfold mstep. destruct e; destruct (m_pc s t) eqn:Hpc; try discriminate.
  - apply cas_inv; auto; congruence.
  - apply cas_inv; auto; congruence.
  - apply cas_inv; auto; congruence.
  - intros E. injection E as <-. exact HI.
  - (* unlock *)
    destruct HI as [Ex F1 F2 Tf Th]. intros E.
    assert (Hs' : m_flag s' = false /\ m_pc s' = upd (m_pc s) t MIdle).
    { destruct (m_owner s) as [t'|]; [destruct (N.eqb t' t)|]; injection E as <-; simpl; auto. }
    destruct Hs' as [Hfl Hpc'].
    assert (Hnone : forall x, m_pc s' x <> MHold).
    { intros x. rewrite Hpc'. unfold upd. destruct (N.eqb_spec x t); [congruence|].
      intros Hx. apply n. apply Ex; auto. }
    constructor.
    + intros t1 t2 H1. exfalso. eapply Hnone; eauto.
    + intros x Hx. exfalso. eapply Hnone; eauto.
    + rewrite Hfl. discriminate.
    + intros Hr _. destruct (Th Hr t Hpc) as [Ho Hd]. rewrite Ho, N.eqb_refl in E.
      injection E as <-. simpl. unfold mutex_ords_ok in Hr. apply andb_prop in Hr as [_ ->]. auto.
    + intros Hr x Hx. exfalso. eapply Hnone; eauto.
  - intros E. injection E as <-. exact HI.
Qed.

Theorem mrun_inv o_s o_u tr : forall s s',
  MInv (mutex_ords_ok o_s o_u) s -> mrun o_s o_u s tr = Some s' -> MInv (mutex_ords_ok o_s o_u) s'.
Proof.
  induction tr as [|[t e] tr IH]; intros s s' HI; simpl.
  - intros E. injection E as <-. exact HI.
  - destruct (mstep o_s o_u s t e) as [s1|] eqn:E1; [|discriminate].
    apply IH. eapply mstep_inv; eauto.
Qed.

(* --- the statements of C17, for every execution from the initial state --- *)

(* at most one thread is inside a critical section *)
Theorem mutual_exclusion o_s o_u tr s t1 t2 :
  mrun o_s o_u minit tr = Some s -> m_pc s t1 = MHold -> m_pc s t2 = MHold -> t1 = t2.
Proof. intros E. apply (mi_excl _ _ (mrun_inv o_s o_u tr _ _ (minit_inv _) E)). Qed.

(* with a releasing unlock and an acquiring lock, whoever is inside owns the protected data:
   every access inside a critical section is race free and sees everything earlier holders did *)
Theorem handover o_s o_u tr s t :
  mutex_ords_ok o_s o_u = true ->
  mrun o_s o_u minit tr = Some s -> m_pc s t = MHold -> access_safe s t = true.
Proof.
  intros Hok E Hh. pose proof (mrun_inv o_s o_u tr _ _ (minit_inv _) E) as HI. rewrite Hok in HI.
  destruct (mi_tok_held _ _ HI eq_refl t Hh) as [Ho _]. unfold access_safe. rewrite Ho. apply N.eqb_refl.
Qed.

(* the protected data is accessed only from inside a critical section *)
Theorem access_only_inside o_s o_u s t s' : mstep o_s o_u s t MAccess = Some s' -> m_pc s t = MHold.
Proof. unfold mstep. destruct (m_pc s t); try discriminate. reflexivity. Qed.

(* a non-blocking attempt is one event and never leaves the thread waiting *)
Theorem try_lock_never_waits o_s o_u s t ok s' :
  mstep o_s o_u s t (MTryLock ok) = Some s' ->
  (ok = true /\ m_pc s' t = MHold) \/ (ok = false /\ m_pc s' t = MIdle /\ m_flag s = true).
Proof.
  unfold mstep. destruct (m_pc s t); try discriminate. unfold cas.
  destruct (m_flag s), ok; try discriminate; intros E.
  - right. injection E as <-. simpl. rewrite upd_same. auto.
  - left. destruct (is_acq o_s && m_deposited s); injection E as <-; simpl; rewrite upd_same; auto.
Qed.

(* blocking acquisition: a thread inside lock() leaves the retry loop only through a successful CAS *)
Theorem lock_returns_only_with_the_lock o_s o_u s t e s' :
  m_pc s t = MSpin -> mstep o_s o_u s t e = Some s' ->
  m_pc s' t = MSpin \/ (e = MLockCas true /\ m_pc s' t = MHold).
Proof.
  intros Hpc. unfold mstep. rewrite Hpc. destruct e; try discriminate.
  - unfold cas. destruct (m_flag s), ok; try discriminate; intros E.
    + left. injection E as <-. simpl. apply upd_same.
    + right. split; auto. destruct (is_acq o_s && m_deposited s); injection E as <-; simpl; apply upd_same.
  - intros E. injection E as <-. auto.
Qed.

(* ... and an attempt made while nobody holds the lock succeeds (strong compare_exchange) *)
Theorem lock_succeeds_once_free o_s o_u tr s t :
  mrun o_s o_u minit tr = Some s -> (forall x, m_pc s x <> MHold) -> m_pc s t <> MHold ->
  (exists s', mstep o_s o_u s t (MLockCas true) = Some s' /\ m_pc s' t = MHold) /\
  mstep o_s o_u s t (MLockCas false) = None.
Proof.
  intros E Hfree Ht. pose proof (mrun_inv o_s o_u tr _ _ (minit_inv _) E) as HI.
  assert (Fl : m_flag s = false).
  { destruct (m_flag s) eqn:F; auto. destruct (mi_flag2 _ _ HI F) as [h Hh]. exfalso. eapply Hfree; eauto. }
  unfold mstep. destruct (m_pc s t) eqn:Hpc; try congruence; unfold cas; rewrite Fl; split; auto;
    destruct (is_acq o_s && m_deposited s); eexists; split; try reflexivity; simpl; apply upd_same.
Qed.

(* an unordered unlock breaks the hand-over (so the ordering requirement is not vacuous) *)
Example relaxed_unlock_loses_the_data :
  exists tr s, mrun Acquire Relaxed minit tr = Some s /\ m_pc s 2%N = MHold /\ access_safe s 2%N = false.
Proof.
  exists [(1%N, MLockCas true); (1%N, MUnlock); (2%N, MLockCas true)].
  eexists. split; [vm_compute; reflexivity|]. split; reflexivity.
Qed.
