(* DeadlineProof.v - Timeout is never reported before the deadline *)
From KV Require Import Deadline.
From Coq Require Import List NArith Lia.
Import ListNotations.

(* invariant along a run: the deadline is the first reading + the duration, and the states that
   lead to Timeout have seen a reading at or past it *)
Definition until_of (s : tpc) : option N :=
  match s with TEarly u | TWait u | TExpired u | TTimeout u => Some u | _ => None end.

Definition seen_past (s : tpc) (rs : list N) : Prop :=
  match s with
  | TExpired u | TTimeout u => exists v, In v rs /\ (u <= v)%N
  | _ => True
  end.

Definition first_plus (dur : N) (s : tpc) (rs : list N) : Prop :=
  match until_of s with
  | Some u => exists t0 rest, rs = t0 :: rest /\ u = (t0 + dur)%N
  | None => True
  end.

Lemma tstep_inv dur re s e s' rs :
  seen_past s rs -> first_plus dur s rs -> tstep dur re s e = Some s' ->
  let rs' := rs ++ match e with Now v => [v] | _ => [] end in
  (s = TStart -> rs = []) ->
  seen_past s' rs' /\ first_plus dur s' rs'.
Proof.
  intros Hs Hf E rs' H0. unfold tstep in E.
  destruct s; destruct e; try discriminate; injection E as <-; subst rs'.
  - rewrite (H0 eq_refl). destruct re; simpl; split; auto; exists v, []; auto.
  - destruct Hf as (t0 & rest & -> & ->). destruct (N.ltb_spec (t0 + dur) v); simpl; split; auto.
    + exists v. split; [right; apply in_or_app; right; left; reflexivity|lia].
    + exists t0, (rest ++ [v]). auto.
    + exists t0, (rest ++ [v]). auto.
  - destruct Hf as (t0 & rest & -> & ->). destruct (N.ltb_spec v (t0 + dur)); simpl; split; auto.
    + exists t0, (rest ++ [v]). auto.
    + exists v. split; [right; apply in_or_app; right; left; reflexivity|lia].
    + exists t0, (rest ++ [v]). auto.
  - simpl. rewrite app_nil_r. unfold first_plus. simpl. auto.
  - simpl. rewrite app_nil_r. unfold first_plus. simpl. auto.
  - simpl in *. rewrite app_nil_r. auto.
Qed.

Theorem timeout_only_after_the_deadline dur re tr u :
  trun dur re TStart tr = Some (TTimeout u) ->
  exists t0 rest v, readings tr = t0 :: rest /\ u = (t0 + dur)%N /\ In v (readings tr) /\ (t0 + dur <= v)%N.
Proof.
  assert (G : forall tr s rs, seen_past s rs -> first_plus dur s rs -> (s = TStart -> rs = []) ->
              forall s', trun dur re s tr = Some s' ->
              seen_past s' (rs ++ readings tr) /\ first_plus dur s' (rs ++ readings tr)).
  { induction tr0 as [|e r IH]; intros s rs Hs Hf H0 s' E; simpl in *.
    - injection E as <-. rewrite app_nil_r. auto.
    - destruct (tstep dur re s e) as [s1|] eqn:E1; [|discriminate].
      destruct (tstep_inv dur re s e s1 rs Hs Hf E1 H0) as [Hs1 Hf1].
      assert (H01 : s1 = TStart -> rs ++ match e with Now v => [v] | _ => [] end = []).
      { intros ->. unfold tstep in E1. destruct s, e; try discriminate;
          repeat match goal with H : Some (if ?b then _ else _) = Some _ |- _ => destruct b end; discriminate. }
      destruct (IH s1 _ Hs1 Hf1 H01 s' E) as [A B].
      rewrite <- app_assoc in A, B. destruct e; simpl in *; auto. }
  intros E. destruct (G tr TStart [] I I (fun _ => eq_refl) _ E) as [Hs Hf]. simpl in *.
  destruct Hs as (v & Hv & Hle). destruct Hf as (t0 & rest & Er & Eu).
  exists t0, rest, v. subst u. auto.
Qed.

(* the waiting loop is left only by a reading at or past the deadline, or because a peer finished *)
Theorem loop_exit u v dur re : tstep dur re (TWait u) (Now v) = Some (TExpired u) -> (u <= v)%N.
Proof. simpl. destruct (N.ltb_spec v u); intros E; [discriminate|lia]. Qed.

(* and a reading at or past the deadline always leaves it (the timeout is then reported unless a
   peer completes the operation first) *)
Theorem loop_exits_once_past u v dur re : (u <= v)%N -> tstep dur re (TWait u) (Now v) = Some (TExpired u).
Proof. intros H. simpl. destruct (N.ltb_spec v u); [lia|reflexivity]. Qed.
