(* Drain.v - C19: drain_into takes everything available, in order, and reports it exactly *)
From KV Require Import Base Chan Atomic.
From KV.proofs Require Import Assoc Inv Cases StepInv Ledger Fifo.
From Coq Require Import ZifyN ZifyBool ZifyNat.

Lemma listed_senders_len f wl os hs :
  InvO f wl os hs -> f = false -> length (listed_vals os wl) = length wl.
Proof.
  intros HO ->. unfold listed_vals.
  assert (H : forall k, In k wl -> length (kval os k) = 1).
  { intros k Hin. destruct (i_listed _ _ _ _ HO k Hin) as [o Ho].
    pose proof (i_obj _ _ _ _ HO k o Ho) as Hok. apply mem_in in Hin. rewrite Hin in Hok.
    apply okb_listed in Hok as (_ & _ & Hf & Hv).
    assert (Hs : is_send o = true) by (destruct (is_send o); simpl in Hf; congruence).
    rewrite Hs in Hv. apply has_val_true in Hv as [y Hy].
    unfold kval. rewrite Ho. unfold oval. rewrite Hy. reflexivity. }
  clear HO. induction wl as [|k r IH]; simpl; auto.
  rewrite app_length, H by (left; reflexivity). rewrite IH; auto. intros k' Hk. apply H. right. exact Hk.
Qed.

Local Arguments drain_senders : simpl never.

Theorem drain_spec a h :
  Inv a -> is_side a h SRecv = true -> recv_count (ch a) <> 0%N ->
  exists a' ws,
    step_drain a h = (a', mkOut (RDrain (len (pending a)) (pending a)) [] ws []) /\
    pending a' = [] /\ queue (ch a') = [].
Proof.
  intros HI Hs Hr. unfold step_drain. rewrite Hs. simpl.
  destruct (N.eqb_spec (recv_count (ch a)) 0) as [E0|_]; [congruence|].
  pose proof HI as (HO & HQ & HC).
  destruct (drain_senders_invO (S (length (wait_list (ch a)))) (set_queue (ch a) []) (objs a) (handles a) HO ltac:(simpl; lia))
    as (ys & c2 & os2 & ws & E & HO2 & F2 & Q2 & _).
  rewrite E.
  destruct (drain_senders_vals _ (set_queue (ch a) []) _ _ _ _ _ _ HO E) as [Hys Hrest]. simpl in Hys.
  exists (mkConf c2 os2 (handles a)), ws.
  assert (Hp : queue (ch a) ++ ys = pending a) by (unfold pending; rewrite Hys; reflexivity).
  split; [|split].
  - rewrite Hp. f_equal. f_equal. f_equal.
    unfold pending. rewrite len_app. f_equal.
    destruct (recv_blocking (ch a)) eqn:F; [reflexivity|].
    unfold len. rewrite (listed_senders_len _ _ _ _ HO eq_refl). reflexivity.
  - unfold pending. simpl. rewrite Q2, F2. reflexivity.
  - exact Q2.
Qed.

(* on a closed channel (or one without receivers) it fails and takes nothing *)
Theorem drain_closed a h :
  is_side a h SRecv = true -> recv_count (ch a) = 0%N -> step_drain a h = (a, out_of (RErr EClosed)).
Proof. intros Hs R. unfold step_drain. rewrite Hs, R. reflexivity. Qed.

(* every sender whose value was taken is released with success *)
Theorem drain_releases_senders a h k o :
  Inv a -> is_side a h SRecv = true -> recv_count (ch a) <> 0%N -> recv_blocking (ch a) = false ->
  In k (wait_list (ch a)) -> lookup k (objs a) = Some o ->
  exists o', lookup k (objs (fst (step_drain a h))) = Some o' /\ o_sig o' = SOk /\ o_val o' = None.
Proof.
  intros HI Hs Hr F Hin Ho. unfold step_drain. rewrite Hs. simpl.
  destruct (N.eqb_spec (recv_count (ch a)) 0) as [E0|_]; [congruence|].
  pose proof HI as (HO & _ & _).
  (* generalised over the remaining list *)
  assert (G : forall n c os ys c2 os2 ws,
             InvO (recv_blocking c) (wait_list c) os (handles a) -> recv_blocking c = false ->
             drain_senders n c os = Some (ys, c2, os2, ws) ->
             forall k, In k (wait_list c) -> exists o', lookup k os2 = Some o' /\ o_sig o' = SOk /\ o_val o' = None).
  { induction n as [|n IH]; intros c os ys c2 os2 ws HOc Fc E k0 Hk0; [discriminate|].
    unfold drain_senders in E; fold drain_senders in E.
    destruct (next_send_case c) as [(k1 & r & F1 & W & En)|(c1 & Hns & En)]; rewrite En in E.
    - rewrite W in HOc, Hk0.
      destruct (i_listed _ _ _ _ HOc k1 ltac:(left; reflexivity)) as [o1 Ho1].
      pose proof (i_obj _ _ _ _ HOc k1 o1 Ho1) as Hok. rewrite mem_cons_eq in Hok.
      apply okb_listed in Hok as (Hf & _ & Hfl & Hv). rewrite F1 in Hfl.
      assert (Hs1 : is_send o1 = true) by (destruct (is_send o1); simpl in Hfl; congruence).
      rewrite Hs1 in Hv. apply has_val_true in Hv as [y Hy].
      unfold sig_take in E. rewrite Ho1, Hy in E.
      destruct (drain_senders n (set_wait c r) (update k1 (set_sig (set_val o1 None) SOk) os))
        as [[[[ys1 c3] os3] ws3]|] eqn:E1; [|discriminate].
      injection E as <- <- <- <-.
      assert (H1 : InvO (recv_blocking (set_wait c r)) (wait_list (set_wait c r)) (update k1 (fin_take o1) os) (handles a)).
      { simpl. eapply invO_pop; eauto. apply okb_fin_take; auto. }
      destruct Hk0 as [<-|Hk0].
      + (* k1 itself: finished now and never touched again (it is not in r) *)
        assert (Hni : ~ In k1 r) by (pose proof (i_wl _ _ _ _ HOc) as Hd; inversion Hd; auto).
        assert (Stay : forall n c os ys c2 os2 ws, drain_senders n c os = Some (ys, c2, os2, ws) ->
                       ~ In k1 (wait_list c) -> lookup k1 os2 = lookup k1 os).
        { clear. induction n as [|n IH]; intros c os ys c2 os2 ws E Hn; [discriminate|].
          unfold drain_senders in E; fold drain_senders in E.
          destruct (next_send_case c) as [(k2 & r & F & W & En)|(c1 & Hns & En)]; rewrite En in E.
          - unfold sig_take in E. destruct (lookup k2 os) as [o2|] eqn:Ho2; [|discriminate].
            destruct (o_val o2); [|discriminate].
            destruct (drain_senders n (set_wait c r) (update k2 (set_sig (set_val o2 None) SOk) os))
              as [[[[ys1 c3] os3] ws3]|] eqn:E1; [|discriminate].
            injection E as <- <- <- <-. rewrite (IH _ _ _ _ _ _ E1).
            + apply lookup_update_neq. intros ->. apply Hn. rewrite W. left. reflexivity.
            + simpl. intros H. apply Hn. rewrite W. right. exact H.
          - injection E as <- <- <- <-. reflexivity. }
        rewrite (Stay _ _ _ _ _ _ _ E1) by (simpl; exact Hni).
        rewrite lookup_update_eq by (eapply lookup_in; eauto). eexists. split; [reflexivity|]. split; reflexivity.
      + eapply (IH _ _ _ _ _ _ H1 F1 E1). simpl. exact Hk0.
    - destruct Hns as [[Fx _]|(_ & W & _)]; [congruence|]. rewrite W in Hk0. destruct Hk0. }
  destruct (drain_senders_invO (S (length (wait_list (ch a)))) (set_queue (ch a) []) (objs a) (handles a) HO ltac:(simpl; lia))
    as (ys & c2 & os2 & ws & E & _).
  rewrite E. simpl.
  eapply (G _ (set_queue (ch a) []) _ _ _ _ _ HO F E). simpl. exact Hin.
Qed.
