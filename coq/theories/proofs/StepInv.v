(* StepInv.v - every step of the Atomic model preserves the invariant, and no
   reachable step reports RHang (the "cannot happen" outcome of the model). *)
From KV Require Import Base Chan Atomic.
From KV.proofs Require Import Assoc Inv Cases.
From Coq Require Import ZifyN ZifyBool ZifyNat.

Ltac inv_split := match goal with H : Inv _ |- _ => destruct H as (?HO & ?HQ & ?HC) end.

(* ---------- small facts ---------- *)
Lemma count_side_pos h s hs : lookup h hs = Some s -> (1 <= count_side s hs)%N.
Proof.
  induction hs as [|[h' s'] hs IH]; [discriminate|].
  rewrite lookup_cons. simpl. destruct (N.eqb h h').
  - intros E. injection E as ->. destruct s; simpl; lia.
  - intros E. specialize (IH E). destruct (side_eqb s s'); lia.
Qed.

Lemma is_side_lookup a h s : is_side a h s = true -> lookup h (handles a) = Some s.
Proof.
  unfold is_side, handle_side. destruct (lookup h (handles a)) as [s'|]; [|discriminate].
  intros E. apply side_eqb_eq in E. congruence.
Qed.

Lemma fresh_lookup a k : fresh a k = true -> lookup k (objs a) = None.
Proof. unfold fresh. destruct (lookup k (objs a)); congruence. Qed.

(* a live handle of side s and an open channel: that side's count is not 0 *)
Lemma live_count_send a h :
  Inv a -> lookup h (handles a) = Some SSend -> recv_count (ch a) <> 0%N -> send_count (ch a) <> 0%N.
Proof.
  intros (_ & _ & HC) Hh Hr. destruct HC as [_ _ [[E _]|[_ E]]]; [|congruence].
  apply count_side_pos in Hh. lia.
Qed.
Lemma live_count_recv a h :
  Inv a -> lookup h (handles a) = Some SRecv -> send_count (ch a) <> 0%N -> recv_count (ch a) <> 0%N.
Proof.
  intros (_ & _ & HC) Hh Hr. destruct HC as [_ _ [[_ E]|[E _]]]; [|congruence].
  apply count_side_pos in Hh. lia.
Qed.

(* ---------- flag flips on an empty list ---------- *)
Lemma inv_flag_empty c os hs b :
  Inv (mkConf c os hs) -> wait_list c = [] -> Inv (mkConf (set_flag c b) os hs).
Proof.
  intros (HO & HQ & HC) W. simpl in *. split; [|split]; simpl.
  - rewrite W in *. eapply invO_flag; eauto.
  - destruct HQ as [Cp _ _]. constructor; simpl; auto; rewrite W; intros _ Hx; exfalso; apply Hx; reflexivity.
  - destruct HC as [Cl Hk Ct]. constructor; simpl; auto.
Qed.

Lemma no_recv_inv a c1 :
  Inv a -> no_recv (ch a) c1 ->
  Inv (mkConf c1 (objs a) (handles a)) /\ recv_blocking c1 = false /\
  queue c1 = queue (ch a) /\ wait_list c1 = wait_list (ch a) /\ capacity c1 = capacity (ch a) /\
  recv_count c1 = recv_count (ch a) /\ send_count c1 = send_count (ch a).
Proof.
  intros HI [[F ->]|(F & W & ->)]; destruct a as [c os hs]; simpl in *.
  - split; [exact HI|repeat split; auto].
  - split; [apply inv_flag_empty; auto|repeat split; auto].
Qed.

Lemma no_send_inv a c1 :
  Inv a -> no_send (ch a) c1 ->
  Inv (mkConf c1 (objs a) (handles a)) /\ recv_blocking c1 = true /\
  queue c1 = queue (ch a) /\ wait_list c1 = wait_list (ch a) /\ capacity c1 = capacity (ch a) /\
  recv_count c1 = recv_count (ch a) /\ send_count c1 = send_count (ch a).
Proof.
  intros HI [[F ->]|(F & W & ->)]; destruct a as [c os hs]; simpl in *.
  - split; [exact HI|repeat split; auto].
  - split; [apply inv_flag_empty; auto|repeat split; auto].
Qed.

(* the queue changes while nobody is listed *)
Lemma inv_queue_nolist c os hs q :
  Inv (mkConf c os hs) -> wait_list c = [] -> (len q <= capacity c)%N ->
  Inv (mkConf (set_queue c q) os hs).
Proof.
  intros (HO & HQ & HC) W Hq. simpl in *. split; [|split]; simpl; auto.
  - constructor; simpl; auto; rewrite W; intros _ Hx; exfalso; apply Hx; reflexivity.
  - destruct HC as [Cl Hk Ct]. constructor; simpl; auto.
Qed.

(* ---------- cs_send ---------- *)
Lemma okb_fin_deliver f o x :
  o_fst o = FWaiting -> is_send o = false -> obj_okb false f (fin_deliver o x) = true.
Proof. intros E S. unfold obj_okb, fin_deliver, is_send, has_val in *. simpl. rewrite E. simpl. rewrite S. reflexivity. Qed.

Lemma okb_fin_take f o :
  o_fst o = FWaiting -> is_send o = true -> obj_okb false f (fin_take o) = true.
Proof. intros E S. unfold obj_okb, fin_take, is_send, has_val in *. simpl. rewrite E. simpl. rewrite S. reflexivity. Qed.

Lemma okb_fin_term f o :
  o_fst o = FWaiting -> has_val o = is_send o -> obj_okb false f (fin_term o) = true.
Proof. intros E S. unfold obj_okb, fin_term, is_send, has_val in *. simpl. rewrite E. simpl. rewrite S. apply eqb_reflx. Qed.

Lemma send_case_inv a x r :
  Inv a -> send_case a x r ->
  match r with
  | SCErr _ => True
  | SCSent a1 _ => Inv a1 /\ handles a1 = handles a /\ recv_count (ch a1) = recv_count (ch a) /\
                   send_count (ch a1) = send_count (ch a) /\ capacity (ch a1) = capacity (ch a)
  | SCFull a1 => Inv a1 /\ recv_blocking (ch a1) = false /\ objs a1 = objs a /\ handles a1 = handles a /\
                 (capacity (ch a1) <= len (queue (ch a1)))%N /\ recv_count (ch a1) <> 0%N /\
                 queue (ch a1) = queue (ch a) /\ wait_list (ch a1) = wait_list (ch a) /\
                 capacity (ch a1) = capacity (ch a) /\
                 recv_count (ch a1) = recv_count (ch a) /\ send_count (ch a1) = send_count (ch a)
  end.
Proof.
  intros HI Hc. destruct Hc as [E0|k r0 o N0 F W Ho Hs Hv|c1 N0 Hn Hl|c1 N0 Hn Hl]; auto.
  - (* deliver *)
    destruct (head_listed a k r0 HI W) as (o' & Ho' & Hf & Hsg & _ & _).
    rewrite Ho in Ho'. injection Ho' as <-.
    destruct HI as (HO & HQ & HC). split; [|simpl; auto].
    split; [|split]; simpl.
    + rewrite W in HO. eapply invO_pop; eauto. apply okb_fin_deliver; auto.
    + destruct HQ as [Cp Re Sf]. constructor; simpl; auto.
      * intros _ _. apply Re; auto. rewrite W. discriminate.
      * congruence.
    + destruct HC as [Cl Hk Ct]. constructor; simpl; auto.
      intros H. specialize (Cl H). congruence.
  - (* buffer *)
    destruct (no_recv_inv a c1 HI Hn) as (HI1 & F1 & Q1 & W1 & C1 & R1 & S1).
    assert (W0 : wait_list c1 = []).
    { destruct (wait_list c1) eqn:E; auto. exfalso.
      destruct HI1 as (_ & HQ1 & _). destruct HQ1 as [_ _ Sf]. simpl in Sf.
      specialize (Sf F1). rewrite E in Sf. specialize (Sf ltac:(discriminate)). lia. }
    split; [|simpl; auto].
    apply inv_queue_nolist; auto. rewrite len_app. unfold len at 2. simpl. lia.
  - (* full *)
    destruct (no_recv_inv a c1 HI Hn) as (HI1 & F1 & Q1 & W1 & C1 & R1 & S1).
    simpl. split; [exact HI1|repeat split; auto; congruence].
Qed.

(* ---------- cs_recv ---------- *)
Lemma recv_case_inv a r :
  Inv a -> recv_case a r ->
  match r with
  | RCClosed | RCCorrupt => r = RCClosed
  | RCGot _ a1 _ => Inv a1 /\ handles a1 = handles a /\ recv_count (ch a1) = recv_count (ch a) /\
                    send_count (ch a1) = send_count (ch a) /\ capacity (ch a1) = capacity (ch a)
  | RCNone a1 => Inv a1 /\ recv_blocking (ch a1) = true /\ objs a1 = objs a /\ handles a1 = handles a /\
                 queue (ch a1) = [] /\ wait_list (ch a1) = wait_list (ch a) /\
                 capacity (ch a1) = capacity (ch a) /\
                 recv_count (ch a1) = recv_count (ch a) /\ send_count (ch a1) = send_count (ch a)
  end.
Proof.
  intros HI Hc.
  destruct Hc as [E0|v q k r0 o y N0 Q F W Ho Hs Hv|v q c1 N0 Q Hn|k r0 o y N0 Q F W Ho Hs Hv|c1 N0 Q Hn]; auto.
  - (* refill *)
    destruct (head_listed a k r0 HI W) as (o' & Ho' & Hf & Hsg & _ & _).
    rewrite Ho in Ho'. injection Ho' as <-.
    destruct HI as (HO & HQ & HC). split; [|simpl; auto].
    split; [|split]; simpl.
    + rewrite W in HO. eapply invO_pop; eauto. apply okb_fin_take; auto.
    + destruct HQ as [Cp Re Sf]. rewrite Q in *.
      assert (Hfull : (capacity (ch a) <= len (v :: q))%N) by (apply Sf; auto; rewrite W; discriminate).
      rewrite len_cons in *.
      constructor; simpl; rewrite ?len_app, ?len_cons, ?len_nil; try lia; congruence.
    + destruct HC as [Cl Hk Ct]. constructor; simpl; auto.
      intros H. specialize (Cl H). congruence.
  - (* pop, nobody to refill from *)
    assert (HI0 : Inv (mkConf (set_queue (ch a) q) (objs a) (handles a))).
    { destruct a as [c os hs]. destruct HI as (HO & HQ & HC). simpl in *.
      split; [|split]; simpl; auto.
      - destruct HQ as [Cp Re Sf]. rewrite Q in *. rewrite len_cons in *.
        destruct Hn as [[F _]|(F & W & _)]; simpl in *.
        + constructor; simpl; try lia; try congruence.
          intros _ Hw. specialize (Re F Hw). discriminate.
        + constructor; simpl; try lia; rewrite W; congruence.
      - destruct HC as [Cl Hk Ct]. constructor; simpl; auto. }
    destruct (no_send_inv _ c1 HI0 Hn) as (HI1 & F1 & Q1 & W1 & C1 & R1 & S1).
    simpl in *. auto.
  - (* direct from a blocked sender *)
    destruct (head_listed a k r0 HI W) as (o' & Ho' & Hf & Hsg & _ & _).
    rewrite Ho in Ho'. injection Ho' as <-.
    destruct HI as (HO & HQ & HC). split; [|simpl; auto].
    split; [|split]; simpl.
    + rewrite W in HO. eapply invO_pop; eauto. apply okb_fin_take; auto.
    + destruct HQ as [Cp Re Sf]. constructor; simpl; auto; try congruence.
      intros _ _. apply Sf; auto. rewrite W. discriminate.
    + destruct HC as [Cl Hk Ct]. constructor; simpl; auto.
      intros H. specialize (Cl H). congruence.
  - (* none *)
    destruct (no_send_inv a c1 HI Hn) as (HI1 & F1 & Q1 & W1 & C1 & R1 & S1).
    simpl. split; [exact HI1|repeat split; auto; congruence].
Qed.

(* ---------- terminate_signals ---------- *)
Lemma term_all_invO f wl os hs :
  InvO f wl os hs -> InvO f [] (fst (term_all wl os)) hs.
Proof.
  revert os. induction wl as [|k r IH]; intros os HO; simpl; [exact HO|].
  unfold sig_term.
  destruct (i_listed _ _ _ _ HO k ltac:(left; reflexivity)) as [o Ho]. rewrite Ho.
  pose proof (i_obj _ _ _ _ HO k o Ho) as Hok. rewrite mem_cons_eq in Hok.
  apply okb_listed in Hok as (Hf & _ & _ & Hv).
  assert (H1 : InvO f r (update k (fin_term o) os) hs).
  { eapply invO_pop; eauto. apply okb_fin_term; auto. }
  specialize (IH _ H1).
  destruct (term_all r (update k (set_sig o STerm) os)) as [os2 w2] eqn:E.
  simpl. unfold fin_term in IH. rewrite E in IH. exact IH.
Qed.

Lemma terminate_inv c os hs :
  InvO (recv_blocking c) (wait_list c) os hs ->
  let '(a2, _) := terminate_signals (mkConf c os hs) in
  InvO (recv_blocking c) [] (objs a2) hs /\ ch a2 = set_wait c [] /\ handles a2 = hs.
Proof.
  intros HO. unfold terminate_signals. simpl.
  pose proof (term_all_invO _ _ _ _ HO) as H.
  destruct (term_all (wait_list c) os) as [os2 ws]. simpl in *. auto.
Qed.

(* ---------- handles ---------- *)
Lemma lookup_In {A} k (v : A) l : lookup k l = Some v -> In (k, v) l.
Proof.
  induction l as [|[k' v'] l IH]; [discriminate|]. rewrite lookup_cons.
  destruct (N.eqb_spec k k') as [->|Hn]; intros E.
  - injection E as ->. left. reflexivity.
  - right. auto.
Qed.

Lemma not_borrowed a h :
  borrowed a h = false -> forall k o, lookup k (objs a) = Some o -> o_h o <> h.
Proof.
  unfold borrowed. intros Hb k o Ho Eh.
  assert (existsb (fun p => N.eqb (o_h (snd p)) h) (objs a) = true).
  { apply existsb_exists. exists (k, o). split; [eapply lookup_In; eauto|]. simpl. apply N.eqb_eq. exact Eh. }
  congruence.
Qed.

Lemma count_remove s h s' hs :
  NoDup (keys hs) -> lookup h hs = Some s' ->
  count_side s hs = ((if side_eqb s s' then 1 else 0) + count_side s (remove_key h hs))%N.
Proof.
  induction hs as [|[h2 s2] hs IH]; [discriminate|].
  intros Hd. inversion Hd as [|? ? Hni Hd']; subst.
  rewrite lookup_cons. unfold remove_key; fold (@remove_key side).
  destruct (N.eqb_spec h h2) as [->|Hn].
  - intros E. injection E as ->. simpl. reflexivity.
  - intros E. simpl. rewrite (IH Hd' E). lia.
Qed.

Lemma unlisted_of_sig f wl os hs k o :
  InvO f wl os hs -> lookup k os = Some o -> (o_sig o <> SLocked \/ o_fst o <> FWaiting) -> ~ In k wl.
Proof.
  intros HO Ho Hs Hin. pose proof (i_obj _ _ _ _ HO k o Ho) as Hok.
  apply mem_in in Hin. rewrite Hin in Hok. apply okb_listed in Hok. tauto.
Qed.

Lemma inv_same_state a a' : Inv a -> a' = a -> Inv a'.
Proof. intros H ->. exact H. Qed.

Ltac dest_conf a := destruct a as [?c ?os ?hs]; simpl in *.

(* ---------- the steps ---------- *)
Lemma step_obs_inv a h o : Inv a -> Inv (fst (step_obs a h o)).
Proof. intros HI. unfold step_obs. destruct (handle_side a h); simpl; auto. Qed.

Lemma step_stream_term_inv a f : Inv a -> Inv (fst (step_stream_term a f)).
Proof.
  intros HI. unfold step_stream_term. destruct (lookup f (objs a)) as [o|]; simpl; auto.
  destruct (o_kind o); simpl; auto.
Qed.

Lemma step_clone_inv a h h' : Inv a -> Inv (fst (step_clone a h h')).
Proof.
  intros HI. unfold step_clone, handle_side.
  destruct (lookup h (handles a)) as [s|] eqn:Hh; simpl; auto.
  destruct (lookup h' (handles a)) as [s'|] eqn:Hh'; simpl; auto.
  destruct HI as (HO & HQ & HC). destruct HC as [Cl Hk Ct].
  assert (Hpos := count_side_pos _ _ _ Hh).
  assert (Hni : ~ In h' (keys (handles a))) by (apply lookup_none; exact Hh').
  destruct s; simpl.
  - destruct (N.ltb_spec 0 (send_count (ch a))) as [Hlt|Hge]; (split; [|split]); simpl; auto;
      try (apply invO_add_handle; auto).
    + destruct HQ as [Cp Re Sf]. constructor; simpl; auto.
    + constructor; simpl; auto.
      * intros [E|E]; [lia|auto].
      * constructor; auto.
      * destruct Ct as [[E1 E2]|[E1 E2]]; [left; split; lia|lia].
    + constructor; simpl; auto.
      * constructor; auto.
      * destruct Ct as [[E1 E2]|[E1 E2]]; [lia|right; auto].
  - destruct (N.ltb_spec 0 (recv_count (ch a))) as [Hlt|Hge]; (split; [|split]); simpl; auto;
      try (apply invO_add_handle; auto).
    + destruct HQ as [Cp Re Sf]. constructor; simpl; auto.
    + constructor; simpl; auto.
      * intros [E|E]; [auto|lia].
      * constructor; auto.
      * destruct Ct as [[E1 E2]|[E1 E2]]; [left; split; lia|lia].
    + constructor; simpl; auto.
      * constructor; auto.
      * destruct Ct as [[E1 E2]|[E1 E2]]; [lia|right; auto].
Qed.

Lemma step_close_inv a h : Inv a -> Inv (fst (step_close a h)).
Proof.
  intros HI. unfold step_close. destruct (handle_side a h); simpl; auto.
  destruct (N.eqb (recv_count (ch a)) 0 && N.eqb (send_count (ch a)) 0); simpl; auto.
  destruct a as [c os hs]. destruct HI as (HO & HQ & HC). simpl in *.
  pose proof (terminate_inv (set_counts c 0 0) os hs HO) as HT.
  unfold with_ch in *. simpl in *.
  destruct (terminate_signals {| ch := set_counts c 0 0; objs := os; handles := hs |}) as [a2 ws].
  destruct HT as (HO2 & Hc2 & Hh2). simpl.
  split; [|split]; simpl; rewrite Hc2, ?Hh2; simpl; auto.
  - constructor; simpl; [rewrite len_nil; lia| |]; intros _ Hx; exfalso; apply Hx; reflexivity.
  - destruct HC as [Cl Hk Ct]. constructor; simpl; auto.
Qed.

Lemma step_drop_handle_inv a h : Inv a -> Inv (fst (step_drop_handle a h)).
Proof.
  intros HI. unfold step_drop_handle, handle_side.
  destruct (lookup h (handles a)) as [s|] eqn:Hh; simpl; auto.
  destruct (borrowed a h) eqn:Hb; simpl; auto.
  pose proof (not_borrowed a h Hb) as Hnb.
  destruct a as [c os hs]. destruct HI as (HO & HQ & HC). simpl in *.
  destruct HC as [Cl Hk Ct].
  pose proof (count_remove SSend h s hs Hk Hh) as CS.
  pose proof (count_remove SRecv h s hs Hk Hh) as CR.
  assert (HOr : InvO (recv_blocking c) (wait_list c) os (remove_key h hs))
    by (apply invO_remove_handle; auto).
  assert (Hkr : NoDup (keys (remove_key h hs))) by (apply nodup_remove; auto).
  (* the state before the buffer is possibly cleared *)
  set (P := fun a1 : aconf =>
              InvO (recv_blocking (ch a1)) (wait_list (ch a1)) (objs a1) (handles a1) /\ InvQ (ch a1) /\
              InvC (ch a1) (handles a1) /\ handles a1 = remove_key h hs).
  assert (HP : forall a1 ws, P a1 ->
               Inv (fst (match remove_key h hs with
                         | [] => (with_ch a1 (set_queue (ch a1) []), mkOut RUnit (queue (ch a1)) ws [])
                         | _ => (a1, mkOut RUnit [] ws []) end))).
  { intros a1 ws (H1 & H2 & H3 & H4).
    destruct (remove_key h hs) eqn:E; simpl.
    - (* last handle of all: both counts are 0, nothing is listed, the buffer dies *)
      destruct H3 as [Cl3 Hk3 Ct3]. rewrite H4 in Ct3. simpl in Ct3.
      assert (W : wait_list (ch a1) = []) by (apply Cl3; destruct Ct3 as [[? ?]|[? ?]]; auto).
      split; [|split]; simpl; auto.
      + constructor; simpl; [rewrite len_nil; lia| |]; rewrite W; intros _ Hx; exfalso; apply Hx; reflexivity.
      + constructor; simpl; auto. destruct Ct3 as [[? ?]|[? ?]]; right; auto.
    - split; [|split]; auto. }
  destruct s; simpl in CS, CR; simpl;
    match goal with |- Inv (fst (let '(a1, ws) := ?X in _)) =>
      assert (HX : P (fst X)); [| destruct X as [a1 ws]; apply HP; exact HX] end.
  - destruct (N.ltb_spec 0 (send_count c)) as [Hlt|Hge].
    + destruct (N.eqb_spec (send_count c - 1) 0) as [E0|N0];
        [destruct (N.eqb_spec (recv_count c) 0) as [R0|RN]|]; simpl.
      * split; [|split; [|split]]; simpl; auto.
        -- destruct HQ; constructor; auto.
        -- constructor; simpl; auto. all: try (destruct Ct as [[E1 E2]|[E1 E2]]; [left; split; lia|right; split; lia]).
      * pose proof (terminate_inv (set_counts c (recv_count c) (send_count c - 1)) os (remove_key h hs) HOr) as HT.
        destruct (terminate_signals _) as [a2 ws]. destruct HT as (HO2 & Hc2 & Hh2). simpl.
        split; [|split; [|split]]; rewrite ?Hc2, ?Hh2; simpl; auto.
        -- destruct HQ as [Cp Re Sf]. constructor; simpl; auto; intros _ Hx; exfalso; apply Hx; reflexivity.
        -- constructor; simpl; auto. all: try (destruct Ct as [[E1 E2]|[E1 E2]]; [left; split; lia|lia]).
      * split; [|split; [|split]]; simpl; auto.
        -- destruct HQ; constructor; auto.
        -- constructor; simpl; auto.
           ++ intros [E|E]; [lia|auto].
           ++ destruct Ct as [[E1 E2]|[E1 E2]]; [left; split; lia|lia].
    + split; [|split; [|split]]; simpl; auto.
      constructor; simpl; auto. all: try (destruct Ct as [[E1 E2]|[E1 E2]]; [lia|right; auto]).
  - destruct (N.ltb_spec 0 (recv_count c)) as [Hlt|Hge].
    + destruct (N.eqb_spec (recv_count c - 1) 0) as [E0|N0];
        [destruct (N.eqb_spec (send_count c) 0) as [R0|RN]|]; simpl.
      * split; [|split; [|split]]; simpl; auto.
        -- destruct HQ; constructor; auto.
        -- constructor; simpl; auto. all: try (destruct Ct as [[E1 E2]|[E1 E2]]; [left; split; lia|right; split; lia]).
      * pose proof (terminate_inv (set_counts c (recv_count c - 1) (send_count c)) os (remove_key h hs) HOr) as HT.
        destruct (terminate_signals _) as [a2 ws]. destruct HT as (HO2 & Hc2 & Hh2). simpl.
        split; [|split; [|split]]; rewrite ?Hc2, ?Hh2; simpl; auto.
        -- destruct HQ as [Cp Re Sf]. constructor; simpl; auto; intros _ Hx; exfalso; apply Hx; reflexivity.
        -- constructor; simpl; auto. all: try (destruct Ct as [[E1 E2]|[E1 E2]]; [left; split; lia|lia]).
      * split; [|split; [|split]]; simpl; auto.
        -- destruct HQ; constructor; auto.
        -- constructor; simpl; auto.
           ++ intros [E|E]; [auto|lia].
           ++ destruct Ct as [[E1 E2]|[E1 E2]]; [left; split; lia|lia].
    + split; [|split; [|split]]; simpl; auto.
      constructor; simpl; auto. all: try (destruct Ct as [[E1 E2]|[E1 E2]]; [lia|right; auto]).
Qed.

(* registering a new blocked object at the tail of the list *)
Lemma inv_register_new a k o :
  Inv a -> lookup k (objs a) = None ->
  obj_okb true (recv_blocking (ch a)) o = true ->
  lookup (o_h o) (handles a) = Some (kind_side (o_kind o)) ->
  (recv_blocking (ch a) = true -> queue (ch a) = []) ->
  (recv_blocking (ch a) = false -> (capacity (ch a) <= len (queue (ch a)))%N) ->
  send_count (ch a) <> 0%N -> recv_count (ch a) <> 0%N ->
  Inv (add_obj a k o).
Proof.
  intros (HO & HQ & HC) Hk Hok Hb He Hf Hs Hr. unfold add_obj, push_wait.
  split; [|split]; simpl.
  - apply invO_register_new; auto.
  - destruct HQ as [Cp Re Sf]. constructor; simpl; auto.
  - destruct HC as [Cl Hkk Ct]. constructor; simpl; auto. intros [E|E]; congruence.
Qed.

Lemma step_send_like_inv a k h x kd :
  kind_side kd = SSend -> Inv a -> Inv (fst (step_send_like a k h x kd)).
Proof.
  intros Hkd HI. unfold step_send_like.
  destruct (is_side a h SSend) eqn:Hs; simpl; auto.
  destruct (fresh a k) eqn:Hf; simpl; auto.
  pose proof (send_case_inv a x _ HI (cs_send_case a x HI)) as H.
  destruct (cs_send a x) as [e|a1 ws|a1]; simpl; auto.
  - tauto.
  - destruct H as (HI1 & F1 & O1 & H1 & Hfull & Rn & Q1 & W1 & C1 & R1 & S1).
    apply inv_register_new; auto.
    + rewrite O1. apply fresh_lookup. exact Hf.
    + rewrite F1. unfold obj_okb, new_obj, is_send, has_val. simpl. rewrite Hkd. reflexivity.
    + simpl. rewrite Hkd, H1. apply is_side_lookup. exact Hs.
    + congruence.
    + eapply live_count_send; eauto. rewrite H1. apply is_side_lookup. exact Hs.
Qed.

Lemma step_try_send_inv a h x opt : Inv a -> Inv (fst (step_try_send a h x opt)).
Proof.
  intros HI. unfold step_try_send.
  destruct (is_side a h SSend) eqn:Hs; simpl; auto.
  pose proof (send_case_inv a x _ HI (cs_send_case a x HI)) as H.
  destruct (cs_send a x) as [e|a1 ws|a1]; simpl; auto; tauto.
Qed.

Lemma step_recv_like_inv a k h timed early : Inv a -> Inv (fst (step_recv_like a k h timed early)).
Proof.
  intros HI. unfold step_recv_like.
  destruct (is_side a h SRecv) eqn:Hs; simpl; auto.
  destruct (fresh a k) eqn:Hf; simpl; auto.
  pose proof (recv_case_inv a _ HI (cs_recv_case a HI)) as H.
  destruct (cs_recv a) as [|v a1 ws|a1|]; simpl; auto.
  - tauto.
  - destruct H as (HI1 & F1 & O1 & H1 & Q1 & W1 & C1 & R1 & S1).
    destruct (timed && early); simpl; auto.
    destruct (N.eqb_spec (send_count (ch a1)) 0) as [E0|N0]; simpl; auto.
    apply inv_register_new; auto.
    + rewrite O1. apply fresh_lookup. exact Hf.
    + rewrite F1. unfold obj_okb, new_obj, is_send, has_val. simpl. destruct timed; reflexivity.
    + simpl. rewrite H1. replace (kind_side (if timed then KRecvTimeout else KRecv)) with SRecv by (destruct timed; reflexivity).
      apply is_side_lookup. exact Hs.
    + congruence.
    + eapply live_count_recv; eauto. rewrite H1. apply is_side_lookup. exact Hs.
Qed.

Lemma step_try_recv_inv a h : Inv a -> Inv (fst (step_try_recv a h)).
Proof.
  intros HI. unfold step_try_recv.
  destruct (is_side a h SRecv) eqn:Hs; simpl; auto.
  pose proof (recv_case_inv a _ HI (cs_recv_case a HI)) as H.
  destruct (cs_recv a) as [|v a1 ws|a1|]; simpl; auto; try tauto.
  destruct H as (HI1 & _). destruct (N.eqb (send_count (ch a1)) 0); simpl; auto.
Qed.

(* ---------- drain ---------- *)
(* popping every listed sender keeps InvO; the queue part is re-established by the caller.
   The loop always ends with the flag saying "receivers". *)
Lemma drain_senders_invO n c os hs :
  InvO (recv_blocking c) (wait_list c) os hs ->
  (length (wait_list c) < n)%nat ->
  exists ys c2 os2 ws,
    drain_senders n c os = Some (ys, c2, os2, ws) /\
    InvO (recv_blocking c2) (wait_list c2) os2 hs /\ recv_blocking c2 = true /\
    queue c2 = queue c /\ capacity c2 = capacity c /\
    recv_count c2 = recv_count c /\ send_count c2 = send_count c /\
    (wait_list c2 = [] \/ (recv_blocking c = true /\ wait_list c2 = wait_list c)).
Proof.
  revert c os. induction n as [|n IH]; intros c os HO Hn; [lia|].
  simpl. destruct (next_send_case c) as [(k & r & F & W & ->)|(c1 & Hns & ->)].
  - rewrite W in HO.
    destruct (i_listed _ _ _ _ HO k ltac:(left; reflexivity)) as [o Ho].
    pose proof (i_obj _ _ _ _ HO k o Ho) as Hok. rewrite mem_cons_eq in Hok.
    apply okb_listed in Hok as (Hf & _ & Hfl & Hv). rewrite F in Hfl.
    assert (Hs : is_send o = true) by (destruct (is_send o); simpl in Hfl; congruence).
    rewrite Hs in Hv. apply has_val_true in Hv as [y Hy].
    unfold sig_take. rewrite Ho, Hy.
    assert (H1 : InvO (recv_blocking (set_wait c r)) (wait_list (set_wait c r)) (update k (fin_take o) os) hs).
    { simpl. eapply invO_pop; eauto. apply okb_fin_take; auto. }
    destruct (IH (set_wait c r) _ H1) as (ys & c2 & os2 & ws & E & HO2 & F2 & Q2 & C2 & R2 & S2 & Hw).
    { simpl. rewrite W in Hn. simpl in Hn. lia. }
    unfold fin_take in E. rewrite E.
    exists (y :: ys), c2, os2, (wake_of o ++ ws). simpl in *.
    split; [reflexivity|]. split; [exact HO2|]. repeat split; auto.
    destruct Hw as [Hw|[Hw _]]; [left; exact Hw|congruence].
  - exists [], c1, os, []. split; [reflexivity|].
    destruct Hns as [[F ->]|(F & W & ->)]; simpl.
    + split; [exact HO|]. repeat split; auto.
    + split; [rewrite W in *; eapply invO_flag; eauto|]. repeat split; auto.
Qed.

Local Arguments drain_senders : simpl never.

Lemma step_drain_inv a h : Inv a -> Inv (fst (step_drain a h)).
Proof.
  intros HI. unfold step_drain.
  destruct (is_side a h SRecv) eqn:Hs; simpl; auto.
  destruct (N.eqb_spec (recv_count (ch a)) 0) as [E0|N0]; simpl; auto.
  destruct a as [c os hs]. destruct HI as (HO & HQ & HC). cbn [ch objs handles] in *.
  destruct (drain_senders_invO (S (length (wait_list c))) (set_queue c []) os hs HO ltac:(simpl; lia))
    as (ys & c2 & os2 & ws & E & HO2 & F2 & Q2 & C2 & R2 & S2 & Hw).
  rewrite E. cbn [fst ch objs handles queue set_queue] in *.
  split; [|split]; cbn [ch objs handles]; auto.
  - constructor.
    + rewrite Q2, len_nil. lia.
    + intros _ _. exact Q2.
    + congruence.
  - destruct HC as [Cl Hk Ct]. constructor; auto.
    + rewrite R2, S2. intros H. specialize (Cl H).
      destruct Hw as [Hw|[_ Hw]]; [exact Hw|]. rewrite Hw. exact Cl.
    + rewrite R2, S2. exact Ct.
Qed.

(* ---------- completion, timeout, futures ---------- *)
Lemma step_complete_inv a k : Inv a -> Inv (fst (step_complete a k)).
Proof.
  intros HI. unfold step_complete.
  destruct (lookup k (objs a)) as [o|] eqn:Ho; simpl; auto.
  destruct (kind_async (o_kind o)); simpl; auto.
  assert (Hrm : o_sig o <> SLocked -> Inv (with_objs a (remove_key k (objs a)))).
  { intros Hs. destruct HI as (HO & HQ & HC). split; [|split]; simpl; auto.
    apply invO_remove_unlisted; auto. eapply unlisted_of_sig; eauto. }
  destruct (o_sig o) eqn:Hsig; simpl; auto;
    destruct (kind_side (o_kind o)); simpl; auto;
    try (apply Hrm; discriminate);
    destruct (o_val o); simpl; auto; try (apply Hrm; discriminate);
    destruct (o_kind o); simpl; auto; apply Hrm; discriminate.
Qed.

Lemma inv_cancel a k :
  Inv a -> Inv (mkConf (set_wait (ch a) (remove_first k (wait_list (ch a)))) (remove_key k (objs a)) (handles a)).
Proof.
  intros (HO & HQ & HC). split; [|split]; simpl.
  - apply invO_cancel. exact HO.
  - destruct HQ as [Cp Re Sf]. constructor; simpl; auto.
    + intros F Hw. apply Re; auto. intros E. rewrite E in Hw. apply Hw. reflexivity.
    + intros F Hw. apply Sf; auto. intros E. rewrite E in Hw. apply Hw. reflexivity.
  - destruct HC as [Cl Hk Ct]. constructor; simpl; auto.
    intros H. rewrite (Cl H). reflexivity.
Qed.

Lemma cancel_send_case c k :
  (exists r, cancel_send_signal c k = (true, set_wait c (remove_first k (wait_list c))) /\ In k (wait_list c) /\ r = tt) \/
  cancel_send_signal c k = (false, c).
Proof.
  unfold cancel_send_signal. destruct (recv_blocking c); auto.
  destruct (mem k (wait_list c)) eqn:E; auto. left. exists tt. apply mem_in in E. auto.
Qed.
Lemma cancel_recv_case c k :
  (exists r, cancel_recv_signal c k = (true, set_wait c (remove_first k (wait_list c))) /\ In k (wait_list c) /\ r = tt) \/
  cancel_recv_signal c k = (false, c).
Proof.
  unfold cancel_recv_signal. destruct (recv_blocking c); simpl; auto.
  destruct (mem k (wait_list c)) eqn:E; auto. left. exists tt. apply mem_in in E. auto.
Qed.

Lemma step_timeout_inv a k : Inv a -> Inv (fst (step_timeout a k)).
Proof.
  intros HI. unfold step_timeout.
  destruct (lookup k (objs a)) as [o|] eqn:Ho; simpl; auto.
  destruct (kind_timed (o_kind o)); simpl; auto.
  destruct (o_sig o); simpl; auto.
  pose proof (inv_cancel a k HI) as Hc.
  destruct (kind_side (o_kind o)).
  - destruct (cancel_send_case (ch a) k) as [(_ & -> & _)| ->]; simpl; auto.
    destruct (o_kind o); simpl; auto; destruct (o_val o); simpl; auto.
  - destruct (cancel_recv_case (ch a) k) as [(_ & -> & _)| ->]; simpl; auto.
    destruct (o_kind o); simpl; auto; destruct (o_val o); simpl; auto.
Qed.

Lemma step_mk_inv a f h kd v :
  kind_async kd = true ->
  (match v with Some _ => true | None => false end) = (match kind_side kd with SSend => true | SRecv => false end) ->
  Inv a -> Inv (fst (step_mk a f h kd v)).
Proof.
  intros Hka Hv HI. unfold step_mk.
  destruct (is_side a h (kind_side kd)) eqn:Hs; simpl; auto.
  destruct (fresh a f) eqn:Hf; simpl; auto.
  destruct HI as (HO & HQ & HC). split; [|split]; simpl; auto.
  apply invO_add_unlisted; auto.
  - apply fresh_lookup. exact Hf.
  - unfold obj_okb, new_obj, is_send, has_val. simpl. rewrite Hka, Hv. simpl. apply eqb_reflx.
  - simpl. apply is_side_lookup. exact Hs.
Qed.

(* ---------- frame facts of the critical sections ---------- *)
Lemma no_recv_wl c c1 : no_recv c c1 -> wait_list c1 = wait_list c.
Proof. intros [[_ ->]|(_ & _ & ->)]; reflexivity. Qed.
Lemma no_send_wl c c1 : no_send c c1 -> wait_list c1 = wait_list c.
Proof. intros [[_ ->]|(_ & _ & ->)]; reflexivity. Qed.

Definition frame (a a1 : aconf) : Prop :=
  (forall f, ~ In f (wait_list (ch a)) -> lookup f (objs a1) = lookup f (objs a)) /\
  (forall f, In f (wait_list (ch a1)) -> In f (wait_list (ch a))).

Lemma send_case_frame a x r :
  send_case a x r ->
  match r with SCSent a1 _ | SCFull a1 => frame a a1 | SCErr _ => True end.
Proof.
  intros [E0|k r0 o N0 F W Ho Hs Hv|c1 N0 Hn Hl|c1 N0 Hn Hl]; auto; unfold frame; simpl.
  - split.
    + intros f Hf. apply lookup_update_neq. intros ->. apply Hf. rewrite W. left. reflexivity.
    + intros f Hf. rewrite W. right. exact Hf.
  - rewrite (no_recv_wl _ _ Hn). auto.
  - rewrite (no_recv_wl _ _ Hn). auto.
Qed.

Lemma recv_case_frame a r :
  recv_case a r ->
  match r with RCGot _ a1 _ | RCNone a1 => frame a a1 | _ => True end.
Proof.
  intros [E0|v q k r0 o y N0 Q F W Ho Hs Hv|v q c1 N0 Q Hn|k r0 o y N0 Q F W Ho Hs Hv|c1 N0 Q Hn];
    auto; unfold frame; simpl.
  - split.
    + intros f Hf. apply lookup_update_neq. intros ->. apply Hf. rewrite W. left. reflexivity.
    + intros f Hf. rewrite W. right. exact Hf.
  - rewrite (no_send_wl _ _ Hn). auto.
  - split.
    + intros f Hf. apply lookup_update_neq. intros ->. apply Hf. rewrite W. left. reflexivity.
    + intros f Hf. rewrite W. right. exact Hf.
  - rewrite (no_send_wl _ _ Hn). auto.
Qed.

(* replacing an unlisted object inside a whole configuration *)
Lemma inv_put_unlisted a f o o' :
  Inv a -> lookup f (objs a) = Some o -> ~ In f (wait_list (ch a)) ->
  o_kind o' = o_kind o -> o_h o' = o_h o ->
  obj_okb false (recv_blocking (ch a)) o' = true ->
  Inv (put a f o').
Proof.
  intros (HO & HQ & HC) Ho Hni Hk Hh Hok. split; [|split]; simpl; auto.
  eapply invO_update_unlisted; eauto.
Qed.

Lemma inv_put_same a f o o' :
  Inv a -> lookup f (objs a) = Some o ->
  o_kind o' = o_kind o -> o_h o' = o_h o ->
  (forall l, obj_okb l (recv_blocking (ch a)) o' = obj_okb l (recv_blocking (ch a)) o) ->
  Inv (put a f o').
Proof.
  intros (HO & HQ & HC) Ho Hk Hh Hok. split; [|split]; simpl; auto.
  eapply invO_update_same; eauto.
Qed.

(* an existing unlisted object registers at the tail *)
Lemma inv_register_old a f o o' :
  Inv a -> lookup f (objs a) = Some o -> ~ In f (wait_list (ch a)) ->
  o_kind o' = o_kind o -> o_h o' = o_h o ->
  obj_okb true (recv_blocking (ch a)) o' = true ->
  (recv_blocking (ch a) = true -> queue (ch a) = []) ->
  (recv_blocking (ch a) = false -> (capacity (ch a) <= len (queue (ch a)))%N) ->
  send_count (ch a) <> 0%N -> recv_count (ch a) <> 0%N ->
  Inv (with_ch (put a f o') (push_wait (ch (put a f o')) f)).
Proof.
  intros (HO & HQ & HC) Ho Hni Hk Hh Hok He Hf Hs Hr. unfold put, with_ch, with_objs, push_wait.
  split; [|split]; simpl.
  - eapply invO_register_old; eauto.
  - destruct HQ as [Cp Re Sf]. constructor; simpl; auto.
  - destruct HC as [Cl Hkk Ct]. constructor; simpl; auto. intros [E|E]; congruence.
Qed.

Definition st4 {A B C D} (x : A * B * C * D) : A := fst (fst (fst x)).

Lemma okb_zero_facts l f o :
  obj_okb l f o = true -> o_fst o = FZero ->
  l = false /\ o_sig o = SLocked /\ kind_async (o_kind o) = true /\ has_val o = is_send o.
Proof.
  unfold obj_okb. intros H E. rewrite E in H. destruct (o_sig o); try discriminate.
  destruct l; simpl in H; [discriminate|].
  apply andb_prop in H as [H1 H2]. apply eqb_prop in H2. auto.
Qed.

Lemma poll_send_inv a f o w :
  Inv a -> lookup f (objs a) = Some o -> o_kind o = KSendFut ->
  Inv (st4 (poll_send a f o w)).
Proof.
  intros HI Ho Hkd. unfold poll_send, st4.
  pose proof HI as (HO & HQ & HC).
  pose proof (i_obj _ _ _ _ HO f o Ho) as Hok.
  assert (Hsend : is_send o = true) by (unfold is_send; rewrite Hkd; reflexivity).
  assert (Hasync : kind_async (o_kind o) = true) by (rewrite Hkd; reflexivity).
  destruct (o_fst o) eqn:Hfst.
  - (* Zero *)
    destruct (okb_zero_facts _ _ _ Hok Hfst) as (Hl & Hsig & _ & Hv).
    apply mem_false in Hl.
    destruct (o_val o) as [x|] eqn:Hval; simpl; auto.
    pose proof (send_case_inv a x _ HI (cs_send_case a x HI)) as H.
    pose proof (send_case_frame a x _ (cs_send_case a x HI)) as Hfr.
    destruct (cs_send a x) as [e|a1 ws|a1]; simpl.
    + eapply inv_put_unlisted with (o := o); eauto.
      unfold obj_okb, has_val. simpl. rewrite Hasync. reflexivity.
    + destruct H as (HI1 & _). destruct Hfr as [Fr1 Fr2].
      eapply inv_put_unlisted with (o := o); eauto.
      * rewrite Fr1; eauto.
      * unfold obj_okb, has_val. simpl. rewrite Hasync. reflexivity.
    + destruct H as (HI1 & F1 & O1 & H1 & Hfull & Rn & Q1 & W1 & C1 & R1 & S1).
      eapply inv_register_old with (o := o); eauto.
      * rewrite O1. exact Ho.
      * rewrite W1. exact Hl.
      * rewrite F1. unfold obj_okb, has_val, is_send. simpl. rewrite Hsig, Hval, Hkd. reflexivity.
      * congruence.
      * eapply live_count_send; eauto. rewrite H1.
        pose proof (i_borrow _ _ _ _ HO f o Ho) as Hb. rewrite Hkd in Hb. exact Hb.
  - (* Waiting *)
    destruct (o_sig o) eqn:Hsig; simpl.
    + (* still locked *)
      destruct (match o_waker o with Some w' => N.eqb w' w | None => false end); simpl; auto.
      destruct (send_signal_exists (ch a) f); simpl; auto.
      eapply inv_put_same with (o := o); eauto.
    + (* finished with success *)
      assert (Hni : ~ In f (wait_list (ch a))).
      { eapply unlisted_of_sig; eauto. left. congruence. }
      eapply inv_put_unlisted with (o := o); eauto.
      unfold obj_okb in *. rewrite Hfst, Hsig in Hok. simpl.
      apply mem_false in Hni. rewrite Hni in Hok. simpl in Hok. rewrite Hsend in Hok.
      apply eqb_prop in Hok. unfold has_val in *. simpl. rewrite Hasync.
      destruct (o_val o); simpl in *; congruence.
    + (* terminated *)
      assert (Hni : ~ In f (wait_list (ch a))).
      { eapply unlisted_of_sig; eauto. left. congruence. }
      destruct (o_val o) as [x|] eqn:Hval; simpl; auto.
      eapply inv_put_unlisted with (o := o); eauto.
      unfold obj_okb, has_val. simpl. rewrite Hasync. reflexivity.
  - simpl. auto.
Qed.

(* ReceiveFuture::poll in state Zero; `o` is the content the future has at that
   point (for a re-armed stream it differs from the stored, Done, object o0) *)
Lemma poll_recv_zero_inv a f o0 o w :
  Inv a -> lookup f (objs a) = Some o0 -> ~ In f (wait_list (ch a)) ->
  o_kind o = o_kind o0 -> o_h o = o_h o0 ->
  o_sig o = SLocked -> o_val o = None -> is_send o = false -> kind_async (o_kind o) = true ->
  Inv (st4 (poll_recv_zero a f o w)).
Proof.
  intros HI Ho Hni Hk Hh Hsig Hval Hsend Hasync. unfold poll_recv_zero, st4.
  pose proof HI as (HO & HQ & HC).
  pose proof (recv_case_inv a _ HI (cs_recv_case a HI)) as H.
  pose proof (recv_case_frame a _ (cs_recv_case a HI)) as Hfr.
  destruct (cs_recv a) as [|v a1 ws|a1|]; simpl.
  - eapply inv_put_unlisted with (o := o0); eauto.
    unfold obj_okb, has_val. simpl. rewrite Hasync, Hval. reflexivity.
  - destruct H as (HI1 & _). destruct Hfr as [Fr1 Fr2].
    eapply inv_put_unlisted with (o := o0); eauto.
    + rewrite Fr1; eauto.
    + unfold obj_okb, has_val. simpl. rewrite Hasync, Hval. reflexivity.
  - destruct H as (HI1 & F1 & O1 & H1 & Q1 & W1 & C1 & R1 & S1).
    destruct (N.eqb_spec (send_count (ch a1)) 0) as [E0|N0]; simpl.
    + eapply inv_put_unlisted with (o := o0); eauto.
      * rewrite O1. exact Ho.
      * rewrite W1. exact Hni.
      * unfold obj_okb, has_val. simpl. rewrite Hasync, Hval. reflexivity.
    + eapply inv_register_old with (o := o0); eauto.
      * rewrite O1. exact Ho.
      * rewrite W1. exact Hni.
      * rewrite F1. unfold obj_okb, has_val, is_send in *. simpl. rewrite Hsig, Hval.
        destruct (kind_side (o_kind o)); [discriminate|reflexivity].
      * congruence.
      * eapply live_count_recv; eauto. rewrite H1.
        pose proof (i_borrow _ _ _ _ HO f o0 Ho) as Hb. rewrite <- Hk in Hb.
        unfold is_send in Hsend. destruct (kind_side (o_kind o)); [discriminate|exact Hb].
  - discriminate H.
Qed.

Lemma poll_recv_inv a f o w :
  Inv a -> lookup f (objs a) = Some o -> (o_kind o = KRecvFut \/ o_kind o = KStream) ->
  Inv (st4 (poll_recv a f o w)).
Proof.
  intros HI Ho Hkd. unfold poll_recv.
  pose proof HI as (HO & HQ & HC).
  pose proof (i_obj _ _ _ _ HO f o Ho) as Hok.
  assert (Hsend : is_send o = false) by (unfold is_send; destruct Hkd as [-> | ->]; reflexivity).
  assert (Hasync : kind_async (o_kind o) = true) by (destruct Hkd as [-> | ->]; reflexivity).
  destruct (o_fst o) eqn:Hfst.
  - (* Zero *)
    destruct (okb_zero_facts _ _ _ Hok Hfst) as (Hl & Hsig & _ & Hv).
    apply mem_false in Hl. rewrite Hsend in Hv. apply has_val_false in Hv.
    eapply poll_recv_zero_inv; eauto.
  - (* Waiting *)
    unfold st4. destruct (o_sig o) eqn:Hsig; simpl.
    + destruct (match o_waker o with Some w' => N.eqb w' w | None => false end); simpl; auto.
      destruct (recv_signal_exists (ch a) f); simpl; auto.
      eapply inv_put_same with (o := o); eauto.
    + assert (Hni : ~ In f (wait_list (ch a))).
      { eapply unlisted_of_sig; eauto. left. congruence. }
      destruct (o_val o) as [v|] eqn:Hval; simpl; auto.
      eapply inv_put_unlisted with (o := o); eauto.
      unfold obj_okb, has_val. simpl. rewrite Hasync. reflexivity.
    + assert (Hni : ~ In f (wait_list (ch a))).
      { eapply unlisted_of_sig; eauto. left. congruence. }
      eapply inv_put_unlisted with (o := o); eauto.
      unfold obj_okb in *. rewrite Hfst, Hsig in Hok. simpl.
      apply mem_false in Hni. rewrite Hni in Hok. simpl in Hok. rewrite Hsend in Hok.
      apply eqb_prop in Hok. unfold has_val in *. simpl. rewrite Hasync.
      destruct (o_val o); simpl in *; congruence.
  - (* Done *)
    assert (Hni : ~ In f (wait_list (ch a))).
    { eapply unlisted_of_sig; eauto. right. congruence. }
    destruct (o_kind o) eqn:Hk; try (unfold st4; simpl; exact HI).
    eapply poll_recv_zero_inv with (o0 := o); eauto; simpl; try rewrite Hk; auto.
    unfold obj_okb in Hok. rewrite Hfst in Hok. apply mem_false in Hni. rewrite Hni in Hok.
    simpl in Hok. apply andb_prop in Hok as [_ Hv]. apply has_val_false.
    destruct (has_val o); simpl in Hv; congruence.
Qed.

Lemma step_poll_inv a f w : Inv a -> Inv (fst (step_poll a f w)).
Proof.
  intros HI. unfold step_poll.
  destruct (lookup f (objs a)) as [o|] eqn:Ho; simpl; auto.
  destruct (o_kind o) eqn:Hk; simpl; auto.
  - pose proof (poll_send_inv a f o w HI Ho Hk) as H. unfold st4 in H.
    destruct (poll_send a f o w) as [[[a1 p] ds] ws]. simpl in *. exact H.
  - pose proof (poll_recv_inv a f o w HI Ho (or_introl Hk)) as H. unfold st4 in H.
    destruct (poll_recv a f o w) as [[[a1 p] ds] ws]. simpl in *. exact H.
  - destruct (o_term o); simpl; auto.
    pose proof (poll_recv_inv a f o w HI Ho (or_intror Hk)) as H. unfold st4 in H.
    destruct (poll_recv a f o w) as [[[a1 p] ds] ws]. simpl in *.
    destruct p; simpl; auto.
    destruct (lookup f (objs a1)) as [o1|] eqn:Ho1; simpl; auto.
    eapply inv_put_same with (o := o1); eauto.
Qed.

Lemma step_drop_fut_inv a f : Inv a -> Inv (fst (step_drop_fut a f)).
Proof.
  intros HI. unfold step_drop_fut.
  destruct (lookup f (objs a)) as [o|] eqn:Ho; simpl; auto.
  destruct (kind_async (o_kind o)); simpl; auto.
  pose proof HI as (HO & HQ & HC).
  assert (Hrm : ~ In f (wait_list (ch a)) -> Inv (with_objs a (remove_key f (objs a)))).
  { intros Hs. split; [|split]; simpl; auto. apply invO_remove_unlisted; auto. }
  pose proof (inv_cancel a f HI) as Hc.
  destruct (kind_side (o_kind o)); destruct (o_fst o) eqn:Hfst; simpl;
    try (apply Hrm; eapply unlisted_of_sig; eauto; right; congruence).
  - destruct (cancel_send_case (ch a) f) as [(_ & -> & _)| ->]; simpl; auto.
    destruct (o_sig o) eqn:Hsig; simpl; auto;
      apply Hrm; eapply unlisted_of_sig; eauto; left; congruence.
  - destruct (cancel_recv_case (ch a) f) as [(_ & -> & _)| ->]; simpl; auto.
    destruct (o_sig o) eqn:Hsig; simpl; auto;
      apply Hrm; eapply unlisted_of_sig; eauto; left; congruence.
Qed.

(* ---------- every label ---------- *)
Theorem astep_inv a l : Inv a -> Inv (fst (astep a l)).
Proof.
  intros HI. destruct l; simpl.
  - apply step_clone_inv; auto.
  - apply step_drop_handle_inv; auto.
  - apply step_close_inv; auto.
  - apply step_obs_inv; auto.
  - apply step_send_like_inv; auto.
  - apply step_send_like_inv; auto.
  - destruct x; [apply step_send_like_inv; auto|]. destruct (is_side a h SSend); auto.
  - apply step_try_send_inv; auto.
  - destruct x; [apply step_try_send_inv; auto|]. destruct (is_side a h SSend); auto.
  - destruct busy; [destruct (is_side a h SSend); auto|apply step_try_send_inv; auto].
  - destruct x; [|destruct (is_side a h SSend); auto].
    destruct busy; [destruct (is_side a h SSend); auto|apply step_try_send_inv; auto].
  - apply step_recv_like_inv; auto.
  - apply step_recv_like_inv; auto.
  - apply step_try_recv_inv; auto.
  - destruct busy; [destruct (is_side a h SRecv); auto|apply step_try_recv_inv; auto].
  - apply step_drain_inv; auto.
  - apply step_complete_inv; auto.
  - apply step_timeout_inv; auto.
  - apply step_mk_inv; auto.
  - apply step_mk_inv; auto.
  - apply step_mk_inv; auto.
  - apply step_poll_inv; auto.
  - apply step_drop_fut_inv; auto.
  - apply step_stream_term_inv; auto.
Qed.

Lemma init_inv b cap : Inv (init b cap).
Proof.
  unfold init, chan_new. split; [|split]; simpl.
  - constructor; simpl.
    + apply NoDup_nil.
    + apply NoDup_nil.
    + intros k [].
    + intros k o E. discriminate E.
    + intros k o E. discriminate E.
  - constructor; simpl.
    + rewrite len_nil. lia.
    + intros _ Hx. exfalso. apply Hx. reflexivity.
    + intros _ Hx. exfalso. apply Hx. reflexivity.
  - constructor; simpl; auto.
    apply NoDup_cons; [simpl; intros [E|[]]; discriminate|].
    apply NoDup_cons; [intros []|apply NoDup_nil].
Qed.

Theorem arun_inv ls : forall a, Inv a -> Inv (fst (arun a ls)).
Proof.
  induction ls as [|l ls IH]; intros a HI; simpl; auto.
  pose proof (astep_inv a l HI) as H1.
  destruct (astep a l) as [a1 o]. specialize (IH a1 H1).
  destruct (arun a1 ls) as [a2 os]. simpl in *. exact IH.
Qed.

Corollary reachable_inv b cap ls : Inv (fst (arun (init b cap) ls)).
Proof. apply arun_inv. apply init_inv. Qed.
