(* LockProfObservers.v - see ShapeBase.v *)
From KV Require Import Mem Expected.
From KV.gen Require Import Gen_Skel Gen_Sites.
From KV.proofs Require Import ShapeBase.

(* lock profiles, by group of entry points *)
Lemma lockprof_observers_close_ok :
  skel_diff ["lib.shared_impl."] lock_profiles expected_lock_profiles = [].
Proof. vm_compute. reflexivity. Qed.
