(* Sig.v - the signal hand-off protocol of signal.rs for ONE signal, event by event:
   its owner (the blocked / pending operation whose frame or future contains the
   signal) against the one peer that claimed it (popped it from the wait list
   under the channel lock) - plus the environment (park tokens, spurious wake-ups,
   the deadline passing at any moment).

   Every shared access of `wait`, `wait_timeout`, `async_blocking_wait`, `poll`,
   `is_terminated`, `wake`, `send`, `recv`, `terminate` is one event; the events
   carry the memory orderings, which come from the generated site table
   (gen/Gen_Sites.v).  Non-atomic locations (the slot, the waker cell) and the
   signal's lifetime carry ownership tokens (DESIGN.md 3.8): a releasing store /
   successful CAS deposits the tokens of its thread into `state`, an acquiring
   read of that value withdraws them; an access without the token sets `viol`.

   Loop counts are not modelled: a spin / park / sleep loop may iterate any number
   of times.  The state space of one signal is finite, so "every reachable state
   is safe" is proved in SigProof.v by computing the reachable set inside Coq and
   checking that it is closed under `snext` (no bound on the length of executions). *)
From KV Require Export Mem.

Inductive stv := V0 | V1 | V2 | V3.          (* UNLOCKED, TERMINATED, LOCKED, LOCKED_STARVATION *)
Definition low (v : stv) : bool := match v with V0 | V1 => true | _ => false end.

Inductive holder := HOwner | HPool | HClaimer | HState | HLost.
Inductive flav := FlSync | FlAsync.
Inductive ckind := CSend | CRecv | CTerm.    (* peer writes the slot / reads the slot / terminates *)
Inductive phase := PPrivate | PListed | PClaimed | PCancelled.

Inductive opc :=
| OPriv                   (* constructed, not yet published *)
| OWait                   (* Signal::wait: first load / spin phase *)
| OLow (v : stv)          (* a relaxed load saw v < LOCKED: the acquire fence is next *)
| OCasReady               (* thread handle stored: about to CAS LOCKED -> LOCKED_STARVATION *)
| OParkLoop | OParked
| OTimed                  (* Signal::wait_timeout: spin until the deadline *)
| OTimedFinal             (* deadline passed: the final load *)
| OTimedFalse             (* wait_timeout returned false: is_terminated is next *)
| OCancelling             (* about to cancel under the lock *)
| APending                (* async: registered, between polls *)
| ABlocking               (* async: async_blocking_wait *)
| ORet (ok : bool)        (* the wait is over; the owner may read its slot, then its frame ends *)
| OEnded.

Inductive cpc := CNone | CClaimed | CSlotDone | CKindRead | CCasFailed | CWakerRead | CStored | CDone.

Record sigst := mkS {
  s_fl : flav; s_timed : bool;
  s_st : stv; s_phase : phase;
  s_slot : holder; s_waker : holder; s_life : holder;
  s_o : opc; s_c : cpc; s_ck : ckind;
  s_ptoken : bool;          (* park token of the owner's thread *)
  s_viol : bool             (* an access without its token happened *)
}.

Inductive sev :=
| EPublish
| EWakerWrite                         (* owner: store thread handle / register_waker *)
| EWakerReadOwner                     (* owner: will_wake *)
| EReRegister                         (* owner, under the lock and still listed: register_waker again *)
| EStartBlocking                      (* owner, under the lock: no longer listed -> async_blocking_wait *)
| ELoad (o : ordering) (v : stv)      (* owner *)
| EFence (o : ordering)
| ECasO (os of : ordering) (ok : bool) (v : stv)
| EPause                              (* yield / sleep / clock reading *)
| EDeadline                           (* the clock passed the deadline *)
| EPark (consumed : bool)
| ECancel (ok : bool)
| ESlotOwner
| EEnd
| EClaim (k : ckind)
| ESlotC
| EKind
| ECasC (os of : ordering) (ok : bool)
| EWakerReadC
| EStoreC (o : ordering)
| EUnpark
| EWakeCall.

Definition final_of (k : ckind) : stv := match k with CTerm => V1 | _ => V0 end.

Definition set_o (s : sigst) (o : opc) : sigst :=
  mkS (s_fl s) (s_timed s) (s_st s) (s_phase s) (s_slot s) (s_waker s) (s_life s) o (s_c s) (s_ck s) (s_ptoken s) (s_viol s).
Definition set_c (s : sigst) (c : cpc) : sigst :=
  mkS (s_fl s) (s_timed s) (s_st s) (s_phase s) (s_slot s) (s_waker s) (s_life s) (s_o s) c (s_ck s) (s_ptoken s) (s_viol s).
Definition set_viol (s : sigst) : sigst :=
  mkS (s_fl s) (s_timed s) (s_st s) (s_phase s) (s_slot s) (s_waker s) (s_life s) (s_o s) (s_c s) (s_ck s) (s_ptoken s) true.
Definition set_timed (s : sigst) (b : bool) : sigst :=
  mkS (s_fl s) b (s_st s) (s_phase s) (s_slot s) (s_waker s) (s_life s) (s_o s) (s_c s) (s_ck s) (s_ptoken s) (s_viol s).
Definition set_ptoken (s : sigst) (b : bool) : sigst :=
  mkS (s_fl s) (s_timed s) (s_st s) (s_phase s) (s_slot s) (s_waker s) (s_life s) (s_o s) (s_c s) (s_ck s) b (s_viol s).

Definition holder_eqb (a b : holder) : bool :=
  match a, b with
  | HOwner, HOwner | HPool, HPool | HClaimer, HClaimer | HState, HState | HLost, HLost => true
  | _, _ => false
  end.

(* move every token held by `from` to `to` *)
Definition mv (from to : holder) (h : holder) : holder := if holder_eqb h from then to else h.
Definition move_all (s : sigst) (from to : holder) : sigst :=
  mkS (s_fl s) (s_timed s) (s_st s) (s_phase s) (mv from to (s_slot s)) (mv from to (s_waker s)) (mv from to (s_life s))
      (s_o s) (s_c s) (s_ck s) (s_ptoken s) (s_viol s).
Definition withdraw (s : sigst) : sigst := move_all s HState HOwner.
Definition need (s : sigst) (h who : holder) : sigst := if holder_eqb h who then s else set_viol s.

Definition set_st (s : sigst) (v : stv) : sigst :=
  mkS (s_fl s) (s_timed s) v (s_phase s) (s_slot s) (s_waker s) (s_life s) (s_o s) (s_c s) (s_ck s) (s_ptoken s) (s_viol s).
Definition set_phase (s : sigst) (p : phase) : sigst :=
  mkS (s_fl s) (s_timed s) (s_st s) p (s_slot s) (s_waker s) (s_life s) (s_o s) (s_c s) (s_ck s) (s_ptoken s) (s_viol s).
Definition set_waker_h (s : sigst) (h : holder) : sigst :=
  mkS (s_fl s) (s_timed s) (s_st s) (s_phase s) (s_slot s) h (s_life s) (s_o s) (s_c s) (s_ck s) (s_ptoken s) (s_viol s).
Definition set_ck (s : sigst) (k : ckind) : sigst :=
  mkS (s_fl s) (s_timed s) (s_st s) (s_phase s) (s_slot s) (s_waker s) (s_life s) (s_o s) (s_c s) k (s_ptoken s) (s_viol s).

Definition stv_eqb (a b : stv) : bool :=
  match a, b with V0, V0 | V1, V1 | V2, V2 | V3, V3 => true | _, _ => false end.

(* owner observes value v with an acquiring access *)
Definition observe (s : sigst) (acq : bool) (v : stv) : sigst :=
  if acq && low v then withdraw s else s.

(* the acceptor: what one event does; None = the protocol does not produce this event here *)
Definition sstep (s : sigst) (e : sev) : option sigst :=
  match e, s_o s, s_c s with
  (* ---------------- owner ---------------- *)
  | EWakerWrite, OPriv, _ =>
      match s_fl s with FlAsync => Some s | FlSync => None end
  | EPublish, OPriv, _ =>
      let s1 := set_phase (move_all s HOwner HPool) PListed in
      (* a sync owner keeps its waker cell (it writes it later, before its CAS) *)
      let s2 := match s_fl s with FlSync => set_waker_h s1 HOwner | FlAsync => s1 end in
      Some (set_o s2 (match s_fl s with FlAsync => APending | FlSync => if s_timed s then OTimed else OWait end))
  | ELoad o v, OWait, _ | ELoad o v, OTimed, _ | ELoad o v, ABlocking, _ | ELoad o v, APending, _ =>
      if stv_eqb v (s_st s) then
        if low v then Some (set_o (observe s (is_acq o) v) (OLow v)) else Some s
      else None
  | EFence o, OLow v, _ =>
      (* inside wait_timeout a terminated signal makes it return false: is_terminated is next *)
      Some (set_o (observe s (is_acq o) v)
                  (if s_timed s && stv_eqb v V1 then OTimedFalse else ORet (stv_eqb v V0)))
  | EPause, OWait, _ | EPause, OTimed, _ | EPause, ABlocking, _ => Some s
  | EWakerWrite, OWait, _ =>
      match s_fl s with FlSync => Some (set_o (need s (s_waker s) HOwner) OCasReady) | FlAsync => None end
  | ECasO os of ok v, OCasReady, _ =>
      if stv_eqb v (s_st s) then
        match v, ok with
        | V2, true =>
            let s1 := set_st s V3 in
            let s2 := set_waker_h s1 (if holder_eqb (s_waker s1) HOwner then (if is_rel os then HState else HLost) else s_waker s1) in
            Some (set_o s2 OParkLoop)
        | V0, false | V1, false => Some (set_o (observe s (is_acq of) v) (ORet (stv_eqb v V0)))
        | _, _ => None
        end
      else None
  | EPark consumed, OParkLoop, _ =>
      if consumed then (if s_ptoken s then Some (set_o (set_ptoken s false) OParked) else None)
      else Some (set_o s OParked)
  | ELoad o v, OParked, _ =>
      if stv_eqb v (s_st s) then
        if low v then Some (set_o (observe s (is_acq o) v) (ORet (stv_eqb v V0))) else Some (set_o s OParkLoop)
      else None
  | EDeadline, OTimed, _ => Some (set_o s OTimedFinal)
  | ELoad o v, OTimedFinal, _ =>
      if stv_eqb v (s_st s) then
        let s1 := observe s (is_acq o) v in
        Some (set_o s1 (if stv_eqb v V0 then ORet true else OTimedFalse))
      else None
  | ELoad o v, OTimedFalse, _ =>        (* Signal::is_terminated *)
      if stv_eqb v (s_st s) then
        let s1 := observe s (is_acq o) v in
        Some (set_o s1 (if stv_eqb v V1 then ORet false else OCancelling))
      else None
  | ECancel ok, OCancelling, _ | ECancel ok, APending, _ =>
      match s_phase s, ok with
      | PListed, true => Some (set_o (set_phase (move_all s HPool HOwner) PCancelled) (ORet false))
      | PClaimed, false =>
          (* the timed phase is over: the owner now waits without a deadline (Signal::wait) *)
          Some (set_o (set_timed s false) (match s_o s with APending => ABlocking | _ => OWait end))
      | _, _ => None
      end
  | EWakerReadOwner, APending, _ => Some s
  | EReRegister, APending, _ =>
      match s_phase s with PListed => Some s | _ => None end
  | EStartBlocking, APending, _ =>
      match s_phase s with PClaimed => Some (set_o s ABlocking) | _ => None end
  | ESlotOwner, ORet b, _ => Some (need s (s_slot s) HOwner)
  | EEnd, ORet b, _ =>
      Some (set_o (need (need (need s (s_slot s) HOwner) (s_waker s) HOwner) (s_life s) HOwner) OEnded)
  (* ---------------- the claiming peer ---------------- *)
  | EClaim k, _, CNone =>
      match s_phase s with
      | PListed => Some (set_c (set_ck (set_phase (move_all s HPool HClaimer) PClaimed) k)
                               (match k with CTerm => CSlotDone | _ => CClaimed end))
      | _ => None
      end
  | ESlotC, _, CClaimed => Some (set_c (need s (s_slot s) HClaimer) CSlotDone)
  | EKind, _, CSlotDone => Some (set_c (need s (s_life s) HClaimer) CKindRead)
  | ECasC os of ok, _, CKindRead =>
      match s_fl s with
      | FlAsync => None
      | FlSync =>
          match s_st s, ok with
          | V2, true =>
              Some (set_c (set_st (move_all s HClaimer (if is_rel os then HState else HLost)) (final_of (s_ck s))) CDone)
          | V3, false =>
              Some (set_c (if is_acq of then set_waker_h s (if holder_eqb (s_waker s) HState then HClaimer else s_waker s) else s)
                          CCasFailed)
          | _, _ => None
          end
      end
  | EWakerReadC, _, CKindRead =>
      match s_fl s with FlAsync => Some (set_c (need s (s_waker s) HClaimer) CWakerRead) | FlSync => None end
  | EWakerReadC, _, CCasFailed => Some (set_c (need s (s_waker s) HClaimer) CWakerRead)
  | EStoreC o, _, CWakerRead =>
      Some (set_c (set_st (move_all s HClaimer (if is_rel o then HState else HLost)) (final_of (s_ck s))) CStored)
  | EUnpark, _, CStored =>
      match s_fl s with FlSync => Some (set_c (set_ptoken s true) CDone) | FlAsync => None end
  | EWakeCall, _, CStored =>
      match s_fl s with FlAsync => Some (set_c s CDone) | FlSync => None end
  | _, _, _ => None
  end.

(* ---------- the orderings, by role, read from the generated site table ---------- *)
Record sig_ords := mkOrds {
  r_poll_load : ordering; r_poll_fence : ordering;
  r_abw_load0 : ordering; r_abw_fence0 : ordering; r_abw_load1 : ordering; r_abw_fence1 : ordering;
  r_abw_load2 : ordering; r_abw_fence2 : ordering;
  r_wait_load0 : ordering; r_wait_fence0 : ordering; r_wait_load1 : ordering; r_wait_fence1 : ordering;
  r_wait_cas_s : ordering; r_wait_cas_f : ordering; r_wait_park_load : ordering;
  r_wt_load0 : ordering; r_wt_fence0 : ordering; r_wt_load1 : ordering; r_wt_fence1 : ordering; r_wt_final : ordering;
  r_isterm : ordering;
  r_wake_cas_s : ordering; r_wake_cas_f : ordering; r_wake_store_sync : ordering; r_wake_store_async : ordering
}.

Definition site_ord (l : list asite) (fn : string) (i : nat) : ordering :=
  match find_site fn i l with Some s => s_ord s | None => Relaxed end.
Definition site_ord2 (l : list asite) (fn : string) (i : nat) : ordering :=
  match find_site fn i l with Some s => match s_ord2 s with Some o => o | None => Relaxed end | None => Relaxed end.

Open Scope string_scope.
(* roles = atomic transitions of the canonical automata of gen/Gen_Skel.v (pinned by proofs/ShapeSignal.v):
     poll                 0 the load, 1 the fence
     async_blocking_wait  0 the load of each of the three phases (one transition), 1 the fence
     wait                 0 the spin loads (before and inside the loop), 1 the fence, 2 the CAS, 3 the load after park
     wait_timeout         0 the load of the first spin phase, 1 the final load, 2 the load of the timed loop, 3 the fence
     send / send_copy / recv / terminate (Signal::wake inlined)   0 the CAS, 1 the async store, 2 the sync store
   an ordering is the weakest among the source sites that play the role, and among the four wake paths *)
Definition ords_of (l : list asite) : sig_ords :=
  let p := "signal.Signal.poll" in let a := "signal.Signal.async_blocking_wait" in
  let w := "signal.Signal.wait" in let t := "signal.Signal.wait_timeout" in
  let ks := ["signal.Signal.send"; "signal.Signal.send_copy"; "signal.Signal.recv"; "signal.Signal.terminate"] in
  mkOrds (site_ord l p 0) (site_ord l p 1)
         (site_ord l a 0) (site_ord l a 1) (site_ord l a 0) (site_ord l a 1) (site_ord l a 0) (site_ord l a 1)
         (site_ord l w 0) (site_ord l w 1) (site_ord l w 0) (site_ord l w 1)
         (site_ord l w 2) (site_ord2 l w 2) (site_ord l w 3)
         (site_ord l t 0) (site_ord l t 3) (site_ord l t 2) (site_ord l t 3) (site_ord l t 1)
         (site_ord l "signal.Signal.is_terminated" 0)
         (ord_meet_all (map (fun k => site_ord l k 0) ks)) (ord_meet_all (map (fun k => site_ord2 l k 0) ks))
         (ord_meet_all (map (fun k => site_ord l k 2) ks)) (ord_meet_all (map (fun k => site_ord l k 1) ks)).
Close Scope string_scope.

(* ---------- the generator: the events the code can produce in a state ---------- *)
Definition all_v : list stv := [V0; V1; V2; V3].

Definition loads (os : list ordering) : list sev := flat_map (fun o => map (ELoad o) all_v) os.

Definition owner_events (r : sig_ords) (s : sigst) : list sev :=
  match s_o s with
  | OPriv => [EWakerWrite; EPublish]
  | OWait => loads [r_wait_load0 r; r_wait_load1 r] ++ [EPause; EWakerWrite]
  | OLow _ =>
      (* the fence that follows the relaxed load: any of the fence sites of the current wait function *)
      map EFence [r_poll_fence r; r_abw_fence0 r; r_abw_fence1 r; r_abw_fence2 r;
                  r_wait_fence0 r; r_wait_fence1 r; r_wt_fence0 r; r_wt_fence1 r]
  | OCasReady => flat_map (fun v => [ECasO (r_wait_cas_s r) (r_wait_cas_f r) true v; ECasO (r_wait_cas_s r) (r_wait_cas_f r) false v]) all_v
  | OParkLoop => [EPark true; EPark false]
  | OParked => loads [r_wait_park_load r]
  | OTimed => loads [r_wt_load0 r; r_wt_load1 r] ++ [EPause; EDeadline]
  | OTimedFinal => loads [r_wt_final r]
  | OTimedFalse => loads [r_isterm r]
  | OCancelling => [ECancel true; ECancel false]
  | APending => loads [r_poll_load r] ++ [EWakerReadOwner; EReRegister; EStartBlocking; ECancel true; ECancel false]
  | ABlocking => loads [r_abw_load0 r; r_abw_load1 r; r_abw_load2 r] ++ [EPause]
  | ORet _ => [ESlotOwner; EEnd]
  | OEnded => []
  end.

Definition claimer_events (r : sig_ords) (s : sigst) : list sev :=
  match s_c s with
  | CNone => [EClaim CSend; EClaim CRecv; EClaim CTerm]
  | CClaimed => [ESlotC]
  | CSlotDone => [EKind]
  | CKindRead => [ECasC (r_wake_cas_s r) (r_wake_cas_f r) true; ECasC (r_wake_cas_s r) (r_wake_cas_f r) false; EWakerReadC]
  | CCasFailed => [EWakerReadC]
  | CWakerRead => [EStoreC (match s_fl s with FlSync => r_wake_store_sync r | FlAsync => r_wake_store_async r end)]
  | CStored => [EUnpark; EWakeCall]
  | CDone => []
  end.

(* the fence after a low relaxed load belongs to the function the owner is in: keep the model
   simple and sound by requiring EVERY fence site to acquire when ANY is used (see fences_uniform) *)
Definition snext (r : sig_ords) (s : sigst) : list sigst :=
  if s_viol s then [] else
  flat_map (fun e => match sstep s e with Some s' => [s'] | None => [] end) (owner_events r s ++ claimer_events r s).

Definition sinit (f : flav) (timed : bool) : sigst :=
  mkS f timed V2 PPrivate HOwner HOwner HOwner OPriv CNone CSend false false.

Definition sinits : list sigst := [sinit FlSync false; sinit FlSync true; sinit FlAsync false].

(* ---------- what must hold in every reachable state ---------- *)
(* no access without its token; no owner parked for ever after its peer is completely done;
   a finished wait reports success exactly when the peer finished it with UNLOCKED *)
Definition opc_is_ret (o : opc) : option bool := match o with ORet b => Some b | _ => None end.

Definition safe (s : sigst) : bool :=
  negb (s_viol s) &&
  negb (match s_o s, s_c s with OParkLoop, CDone => negb (s_ptoken s) | _, _ => false end) &&
  match opc_is_ret (s_o s), s_phase s with
  | Some b, PClaimed => Bool.eqb b (stv_eqb (final_of (s_ck s)) V0) && low (s_st s)
  | Some b, PCancelled => negb b
  | Some _, _ => false
  | None, _ => true
  end.
