(* Chan.v - the lock-protected channel state of internal.rs, function by function.
   Signals in the wait list are represented by the id of the waiting object. *)
From KV Require Export Base.

Record chan := mkChan {
  queue : list tag;          (* VecDeque<T>, oldest first *)
  recv_blocking : bool;      (* true: the wait list holds receivers *)
  wait_list : list id;       (* VecDeque<SignalTerminator<T>>, oldest first *)
  capacity : N;              (* usize::MAX when unbounded *)
  recv_count : N;
  send_count : N
}.

Definition set_queue (c : chan) q := mkChan q (recv_blocking c) (wait_list c) (capacity c) (recv_count c) (send_count c).
Definition set_flag (c : chan) b := mkChan (queue c) b (wait_list c) (capacity c) (recv_count c) (send_count c).
Definition set_wait (c : chan) w := mkChan (queue c) (recv_blocking c) w (capacity c) (recv_count c) (send_count c).
Definition set_counts (c : chan) r s := mkChan (queue c) (recv_blocking c) (wait_list c) (capacity c) r s.

(* ChannelInternal::new *)
Definition chan_new (bounded : bool) (cap : N) : chan :=
  mkChan [] false [] (if bounded then cap else usize_max) 1 1.

(* next_send: pops the oldest blocked sender; flips the flag lazily when the list is empty *)
Definition next_send (c : chan) : option id * chan :=
  if recv_blocking c then (None, c)
  else match wait_list c with
       | k :: r => (Some k, set_wait c r)
       | [] => (None, set_flag c true)
       end.

Definition next_recv (c : chan) : option id * chan :=
  if negb (recv_blocking c) then (None, c)
  else match wait_list c with
       | k :: r => (Some k, set_wait c r)
       | [] => (None, set_flag c false)
       end.

(* push_send / push_recv *)
Definition push_wait (c : chan) (k : id) : chan := set_wait c (wait_list c ++ [k]).

Definition cancel_send_signal (c : chan) (k : id) : bool * chan :=
  if recv_blocking c then (false, c)
  else if mem k (wait_list c) then (true, set_wait c (remove_first k (wait_list c)))
  else (false, c).

Definition cancel_recv_signal (c : chan) (k : id) : bool * chan :=
  if negb (recv_blocking c) then (false, c)
  else if mem k (wait_list c) then (true, set_wait c (remove_first k (wait_list c)))
  else (false, c).

Definition send_signal_exists (c : chan) (k : id) : bool :=
  if recv_blocking c then false else mem k (wait_list c).

Definition recv_signal_exists (c : chan) (k : id) : bool :=
  if negb (recv_blocking c) then false else mem k (wait_list c).

Definition is_closed (c : chan) : bool := N.eqb (send_count c) 0 && N.eqb (recv_count c) 0.
