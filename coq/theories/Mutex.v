(* Mutex.v - the channel's internal lock (mutex.rs + backoff.rs::spin_cond), event by event.
     try_lock  = one compare_exchange(false, true, o_s, o_f)
     unlock    = store(false, o_u)
     lock      = try_lock; on failure spin_cond(try_lock): retry, with pauses (spin hints,
                 yields, sleeps) between attempts, returning only after a successful attempt
   (shapes pinned by proofs/ShapeOk.v: mutex_shape_ok, atomic_sites_shape_ok).
   Any number of threads; loop counts and back-off phases are not part of the model
   (a retry loop may run any number of iterations). *)
From KV Require Export Mem.

Inductive mpc := MIdle | MSpin | MHold.

Record mstate := mkM {
  m_flag : bool;                 (* RawMutexLock.locked *)
  m_pc : N -> mpc;
  m_owner : option N;            (* who holds the ownership token of the protected data *)
  m_deposited : bool             (* the token sits in the flag, put there by a releasing unlock *)
}.

Inductive mevent :=
| MTryLock (ok : bool)           (* try_lock() from try_acquire_internal: one CAS, no retry *)
| MLockCas (ok : bool)           (* a CAS inside lock(): the first attempt or a retry *)
| MPause                         (* spin hint / yield / sleep between retries *)
| MUnlock
| MAccess.                       (* non-atomic access to the protected ChannelInternal *)

Definition upd (pc : N -> mpc) (t : N) (v : mpc) : N -> mpc :=
  fun x => if N.eqb x t then v else pc x.

Definition minit : mstate := mkM false (fun _ => MIdle) None true.

(* the CAS: strong, so it succeeds exactly when the flag is clear *)
Definition cas (o_s : ordering) (s : mstate) (t : N) (ok : bool) (fail_pc : mpc) : option mstate :=
  if m_flag s then
    (if ok then None else Some (mkM true (upd (m_pc s) t fail_pc) (m_owner s) (m_deposited s)))
  else
    (if ok then
       Some (if is_acq o_s && m_deposited s
             then mkM true (upd (m_pc s) t MHold) (Some t) false
             else mkM true (upd (m_pc s) t MHold) (m_owner s) (m_deposited s))
     else None).

Definition mstep (o_s o_u : ordering) (s : mstate) (t : N) (e : mevent) : option mstate :=
  match e, m_pc s t with
  | MTryLock ok, MIdle => cas o_s s t ok MIdle
  | MLockCas ok, MIdle | MLockCas ok, MSpin => cas o_s s t ok MSpin
  | MPause, MSpin => Some s
  | MUnlock, MHold =>
      Some (match m_owner s with
            | Some t' => if N.eqb t' t then mkM false (upd (m_pc s) t MIdle) None (is_rel o_u)
                         else mkM false (upd (m_pc s) t MIdle) (m_owner s) (m_deposited s)
            | None => mkM false (upd (m_pc s) t MIdle) None (m_deposited s)
            end)
  | MAccess, MHold => Some s
  | _, _ => None
  end.

(* an access is race free when performed by the token holder *)
Definition access_safe (s : mstate) (t : N) : bool :=
  match m_owner s with Some t' => N.eqb t' t | None => false end.

Fixpoint mrun (o_s o_u : ordering) (s : mstate) (tr : list (N * mevent)) : option mstate :=
  match tr with
  | [] => Some s
  | (t, e) :: r => match mstep o_s o_u s t e with Some s1 => mrun o_s o_u s1 r | None => None end
  end.

(* what the proof needs from the orderings written in mutex.rs *)
Definition mutex_ords_ok (o_s o_u : ordering) : bool := is_acq o_s && is_rel o_u.
