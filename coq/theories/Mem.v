(* Mem.v - vocabulary shared by the generated site tables and the protocol models:
   memory orderings and what they transfer in the ownership-token discipline
   (DESIGN.md 3.8): a releasing store / successful CAS deposits the tokens its
   thread holds for the protocol into the atomic; an acquiring load / CAS (or a
   relaxed load followed by an acquire fence) that reads it withdraws them. *)
From Coq Require Export String List NArith Bool.
Export ListNotations.

Inductive ordering := Relaxed | Release | Acquire | AcqRel | SeqCst.

Definition is_acq (o : ordering) : bool :=
  match o with Acquire | AcqRel | SeqCst => true | _ => false end.
Definition is_rel (o : ordering) : bool :=
  match o with Release | AcqRel | SeqCst => true | _ => false end.

Definition ordering_eqb (a b : ordering) : bool :=
  match a, b with
  | Relaxed, Relaxed | Release, Release | Acquire, Acquire | AcqRel, AcqRel | SeqCst, SeqCst => true
  | _, _ => false
  end.

(* the weakest of two orderings (what holds whichever of two source sites plays a role) *)
Definition ord_meet (a b : ordering) : ordering :=
  match is_acq a && is_acq b, is_rel a && is_rel b with
  | true, true => match a, b with SeqCst, SeqCst => SeqCst | _, _ => AcqRel end
  | true, false => Acquire
  | false, true => Release
  | false, false => Relaxed
  end.
Definition ord_meet_all (l : list ordering) : ordering :=
  match l with [] => Relaxed | x :: r => fold_left ord_meet r x end.

(* one atomic role of a protocol function, found in the source by the translator *)
Record asite := mkSite {
  s_fn : string;            (* entry function, qualified *)
  s_idx : nat;              (* ordinal of the role among the atomic transitions of that function's canonical automaton *)
  s_field : string;         (* receiver field: "state" / "locked" *)
  s_op : string;            (* load / store / compare_exchange / ... *)
  s_args : list string;     (* non-ordering operands, in canonical form *)
  s_ord : ordering;         (* ordering (success ordering of a CAS): the weakest among the source sites that play the role *)
  s_ord2 : option ordering  (* failure ordering of a CAS *)
}.

Definition find_site (fn : string) (idx : nat) (l : list asite) : option asite :=
  find (fun s => String.eqb (s_fn s) fn && Nat.eqb (s_idx s) idx) l.

(* shape of a site: everything but the orderings *)
Definition site_shape (s : asite) : string * nat * string * string * list string :=
  (s_fn s, s_idx s, s_field s, s_op s, s_args s).

Fixpoint list_eqb {A} (eqb : A -> A -> bool) (l1 l2 : list A) : bool :=
  match l1, l2 with
  | [], [] => true
  | x :: r1, y :: r2 => eqb x y && list_eqb eqb r1 r2
  | _, _ => false
  end.

Definition shape_eqb (a b : string * nat * string * string * list string) : bool :=
  let '(f1, i1, fd1, o1, a1) := a in
  let '(f2, i2, fd2, o2, a2) := b in
  String.eqb f1 f2 && Nat.eqb i1 i2 && String.eqb fd1 fd2 && String.eqb o1 o2 && list_eqb String.eqb a1 a2.

(* ---- named skeleton tables (Gen_Skel.v) and their comparison with the pinned ones ---- *)
Definition skel_table := list (string * list string).

Fixpoint skel_lookup (n : string) (t : skel_table) : option (list string) :=
  match t with
  | [] => None
  | (m, ls) :: r => if String.eqb n m then Some ls else skel_lookup n r
  end.

Definition opt_lines_eqb (a b : option (list string)) : bool :=
  match a, b with
  | Some x, Some y => list_eqb String.eqb x y
  | None, None => true
  | _, _ => false
  end.

(* names (restricted to those with one of the given prefixes) whose entries differ,
   are missing, or are new *)
Definition has_prefix (ps : list string) (n : string) : bool :=
  existsb (fun p => String.prefix p n) ps.

Definition skel_diff (ps : list string) (gen expected : skel_table) : list string :=
  let names := map fst gen ++ map fst expected in
  let bad := filter (fun n => has_prefix ps n && negb (opt_lines_eqb (skel_lookup n gen) (skel_lookup n expected))) names in
  nodup string_dec bad.
