(* Atomic.v - "Level A": one API operation = one atomic step.
   A blocking operation is an atomic register step (LSend .. -> RBlocked) plus
   an atomic completion step (LComplete / LTimeoutFire).  Futures are explicit
   objects polled and dropped by labels.  This is the object the sequential
   differential harness (H1) runs against the real crate, and the "ideal
   channel executing each operation atomically" of property C03.

   The model describes the code AFTER the repairs D1-D5 (see KNOWN_FINDINGS). *)
From KV Require Export Chan.

(* ---------- waiting objects (the owners of signals) ---------- *)

Inductive okind :=
| KSend | KSendTimeout | KSendOptTimeout      (* blocked sync senders   *)
| KRecv | KRecvTimeout                        (* blocked sync receivers *)
| KSendFut | KRecvFut | KStream.              (* futures / stream       *)

Definition kind_side (k : okind) : side :=
  match k with
  | KSend | KSendTimeout | KSendOptTimeout | KSendFut => SSend
  | KRecv | KRecvTimeout | KRecvFut | KStream => SRecv
  end.

Definition kind_async (k : okind) : bool :=
  match k with KSendFut | KRecvFut | KStream => true | _ => false end.

Definition kind_timed (k : okind) : bool :=
  match k with KSendTimeout | KSendOptTimeout | KRecvTimeout => true | _ => false end.

Inductive fstate := FZero | FWaiting | FDone.
Inductive sstate := SLocked | SOk | STerm.      (* LOCKED(2|3) / UNLOCKED / TERMINATED *)

Record obj := mkObj {
  o_kind : okind;
  o_fst : fstate;
  o_sig : sstate;
  o_val : option tag;      (* sender: value it still owns; receiver: value delivered, not yet read *)
  o_waker : option N;      (* registered async waker *)
  o_term : bool;           (* ReceiveStream::terminated *)
  o_h : id                 (* the handle it borrows *)
}.

Definition set_fst o f := mkObj (o_kind o) f (o_sig o) (o_val o) (o_waker o) (o_term o) (o_h o).
Definition set_sig o s := mkObj (o_kind o) (o_fst o) s (o_val o) (o_waker o) (o_term o) (o_h o).
Definition set_val o v := mkObj (o_kind o) (o_fst o) (o_sig o) v (o_waker o) (o_term o) (o_h o).
Definition set_waker o w := mkObj (o_kind o) (o_fst o) (o_sig o) (o_val o) w (o_term o) (o_h o).
Definition set_term o t := mkObj (o_kind o) (o_fst o) (o_sig o) (o_val o) (o_waker o) t (o_h o).

Record aconf := mkConf {
  ch : chan;
  objs : list (id * obj);
  handles : list (id * side)      (* live handles (ghost: the code only has the two counts) *)
}.

Definition with_ch (a : aconf) c := mkConf c (objs a) (handles a).
Definition with_objs (a : aconf) o := mkConf (ch a) o (handles a).
Definition with_handles (a : aconf) h := mkConf (ch a) (objs a) h.

(* ---------- results ---------- *)

Inductive err := EClosed | ESendClosed | ERecvClosed | ETimeout.

Inductive res :=
| ROk                              (* Ok(()) *)
| ROkB (b : bool)                  (* Ok(true/false) of try_send* *)
| ROkV (x : tag)                   (* Ok(v) of recv / recv_timeout *)
| ROkSome (x : tag) | ROkNone      (* Ok(Some v) / Ok(None) of try_recv* *)
| RErr (e : err)
| RPending
| RReadyOk | RReadyOkV (x : tag) | RReadyErr (e : err)
| RSome (x : tag) | RNone          (* stream items *)
| RPanic
| RNum (n : N) | RBool (b : bool)
| RDrain (n : N) (l : list tag)
| RBlocked                         (* the sync caller is now parked / spinning *)
| RUnit                            (* clone, drop, constructors *)
| RInvalid                         (* label not enabled here: no state change *)
| RHang.                           (* would wait for ever (unreachable, see invariants) *)

Record out := mkOut {
  r_res : res;
  r_drops : list tag;      (* values destroyed during the step, in order *)
  r_wakes : list N;        (* async wakers invoked during the step, in order *)
  r_back : list tag        (* values handed back to the caller (Option stays Some) *)
}.

Definition out_of (r : res) := mkOut r [] [] [].
Definition invalid (a : aconf) : aconf * out := (a, out_of RInvalid).

Definition res_received (r : res) : list tag :=
  match r with
  | ROkV x | ROkSome x | RReadyOkV x | RSome x => [x]
  | RDrain _ l => l
  | _ => []
  end.

(* ---------- signal-level helpers on the object table ---------- *)

Definition wake_of (o : obj) : list N :=
  if kind_async (o_kind o) then match o_waker o with Some w => [w] | None => [] end else [].

(* Signal::send: write the value into the receiver's slot, finish with success *)
Definition sig_deliver (k : id) (x : tag) (os : list (id * obj)) : list (id * obj) * list N :=
  match lookup k os with
  | Some o => (update k (set_sig (set_val o (Some x)) SOk) os, wake_of o)
  | None => (os, [])
  end.

(* Signal::recv: read the value out of the sender's slot, finish with success *)
Definition sig_take (k : id) (os : list (id * obj)) : option tag * list (id * obj) * list N :=
  match lookup k os with
  | Some o => (o_val o, update k (set_sig (set_val o None) SOk) os, wake_of o)
  | None => (None, os, [])
  end.

(* Signal::terminate *)
Definition sig_term (k : id) (os : list (id * obj)) : list (id * obj) * list N :=
  match lookup k os with
  | Some o => (update k (set_sig o STerm) os, wake_of o)
  | None => (os, [])
  end.

(* terminate_signals: every listed waiter, oldest first; then clear the list *)
Fixpoint term_all (ks : list id) (os : list (id * obj)) : list (id * obj) * list N :=
  match ks with
  | [] => (os, [])
  | k :: r => let '(os1, w1) := sig_term k os in
              let '(os2, w2) := term_all r os1 in (os2, w1 ++ w2)
  end.

Definition terminate_signals (a : aconf) : aconf * list N :=
  let '(os, ws) := term_all (wait_list (ch a)) (objs a) in
  (mkConf (set_wait (ch a) []) os (handles a), ws).

(* ---------- the two critical-section prologues ---------- *)

Inductive send_cs :=
| SCErr (e : err)                   (* receivers gone / closed *)
| SCSent (a : aconf) (ws : list N)  (* handed to a receiver or buffered *)
| SCFull (a : aconf).               (* queue full and no receiver: caller decides *)

Definition cs_send (a : aconf) (x : tag) : send_cs :=
  let c := ch a in
  if N.eqb (recv_count c) 0 then
    SCErr (if N.eqb (send_count c) 0 then EClosed else ERecvClosed)
  else
    match next_recv c with
    | (Some k, c1) =>
        let '(os, ws) := sig_deliver k x (objs a) in
        SCSent (mkConf c1 os (handles a)) ws
    | (None, c1) =>
        if N.ltb (len (queue c1)) (capacity c1)
        then SCSent (mkConf (set_queue c1 (queue c1 ++ [x])) (objs a) (handles a)) []
        else SCFull (mkConf c1 (objs a) (handles a))
    end.

Inductive recv_cs :=
| RCClosed                                      (* recv_count = 0 *)
| RCGot (v : tag) (a : aconf) (ws : list N)     (* from the buffer (with refill) or from a sender *)
| RCNone (a : aconf)                            (* nothing available (flag now says receivers) *)
| RCCorrupt.                                    (* a listed sender without a value: unreachable *)

Definition cs_recv (a : aconf) : recv_cs :=
  let c := ch a in
  if N.eqb (recv_count c) 0 then RCClosed
  else
    match queue c with
    | v :: q =>
        let c0 := set_queue c q in
        match next_send c0 with
        | (Some k, c1) =>
            match sig_take k (objs a) with
            | (Some y, os, ws) => RCGot v (mkConf (set_queue c1 (queue c1 ++ [y])) os (handles a)) ws
            | (None, _, _) => RCCorrupt
            end
        | (None, c1) => RCGot v (mkConf c1 (objs a) (handles a)) []
        end
    | [] =>
        match next_send c with
        | (Some k, c1) =>
            match sig_take k (objs a) with
            | (Some y, os, ws) => RCGot y (mkConf c1 os (handles a)) ws
            | (None, _, _) => RCCorrupt
            end
        | (None, c1) => RCNone (mkConf c1 (objs a) (handles a))
        end
    end.

(* drain_into: buffer first, then every blocked sender, oldest first *)
Fixpoint drain_senders (fuel : nat) (c : chan) (os : list (id * obj))
  : option (list tag * chan * list (id * obj) * list N) :=
  match fuel with
  | O => None
  | S n =>
      match next_send c with
      | (Some k, c1) =>
          match sig_take k os with
          | (Some y, os1, ws) =>
              match drain_senders n c1 os1 with
              | Some (ys, c2, os2, ws2) => Some (y :: ys, c2, os2, ws ++ ws2)
              | None => None
              end
          | (None, _, _) => None
          end
      | (None, c1) => Some ([], c1, os, [])
      end
  end.

(* ---------- labels ---------- *)

Inductive obsk := OLen | OIsEmpty | OIsFull | OCapacity | OIsBounded | OSenderCount
               | OReceiverCount | OIsClosed | OIsDisconnected | OIsTerminated.

Inductive label :=
| LClone (h h' : id)
| LDropH (h : id)
| LClose (h : id)
| LObs (h : id) (o : obsk)
| LSend (k h : id) (x : tag)
| LSendTimeout (k h : id) (x : tag)
| LSendOptTimeout (k h : id) (x : option tag)
| LTrySend (h : id) (x : tag)
| LTrySendOpt (h : id) (x : option tag)
| LTrySendRT (h : id) (x : tag) (busy : bool)
| LTrySendOptRT (h : id) (x : option tag) (busy : bool)
| LRecv (k h : id)
| LRecvTimeout (k h : id) (early : bool)
| LTryRecv (h : id)
| LTryRecvRT (h : id) (busy : bool)
| LDrain (h : id)
| LComplete (k : id)
| LTimeoutFire (k : id)
| LMkSend (f h : id) (x : tag)
| LMkRecv (f h : id)
| LMkStream (f h : id)
| LPoll (f : id) (w : N)
| LDropF (f : id)
| LStreamTerm (f : id).

(* ---------- handles ---------- *)

Definition handle_side (a : aconf) (h : id) : option side := lookup h (handles a).

Definition is_side (a : aconf) (h : id) (s : side) : bool :=
  match handle_side a h with Some s' => side_eqb s s' | None => false end.

(* a handle borrowed by a future, a stream or a blocked call cannot be dropped *)
Definition borrowed (a : aconf) (h : id) : bool :=
  existsb (fun p => N.eqb (o_h (snd p)) h) (objs a).

Definition fresh (a : aconf) (k : id) : bool :=
  match lookup k (objs a) with None => true | Some _ => false end.

(* ---------- steps ---------- *)

Definition new_obj (k : okind) (f : fstate) (v : option tag) (w : option N) (h : id) : obj :=
  mkObj k f SLocked v w false h.

(* register a blocked sync sender / a pending send future that is already in the table *)
Definition add_obj (a : aconf) (k : id) (o : obj) : aconf :=
  mkConf (push_wait (ch a) k) ((k, o) :: objs a) (handles a).

Definition step_send_like (a : aconf) (k h : id) (x : tag) (kd : okind) : aconf * out :=
  if negb (is_side a h SSend) || negb (fresh a k) then invalid a else
  match cs_send a x with
  | SCErr e =>
      (* send/send_timeout take the value by value: it is dropped with the call;
         send_option_timeout leaves it in the caller's Option *)
      (a, match kd with
          | KSendOptTimeout => mkOut (RErr e) [] [] [x]
          | _ => mkOut (RErr e) [x] [] []
          end)
  | SCSent a1 ws => (a1, mkOut ROk [] ws [])
  | SCFull a1 => (add_obj a1 k (new_obj kd FWaiting (Some x) None h), out_of RBlocked)
  end.

Definition step_try_send (a : aconf) (h : id) (x : tag) (opt : bool) : aconf * out :=
  if negb (is_side a h SSend) then invalid a else
  match cs_send a x with
  | SCErr e => (a, if opt then mkOut (RErr e) [] [] [x] else mkOut (RErr e) [x] [] [])
  | SCSent a1 ws => (a1, mkOut (ROkB true) [] ws [])
  | SCFull a1 => (a1, if opt then mkOut (ROkB false) [] [] [x] else mkOut (ROkB false) [x] [] [])
  end.

Definition step_recv_like (a : aconf) (k h : id) (timed early : bool) : aconf * out :=
  if negb (is_side a h SRecv) || negb (fresh a k) then invalid a else
  match cs_recv a with
  | RCClosed => (a, out_of (RErr EClosed))
  | RCGot v a1 ws => (a1, mkOut (ROkV v) [] ws [])
  | RCCorrupt => (a, out_of RHang)
  | RCNone a1 =>
      if timed && early then (a1, out_of (RErr ETimeout))
      else if N.eqb (send_count (ch a1)) 0 then (a1, out_of (RErr ESendClosed))
      else (add_obj a1 k (new_obj (if timed then KRecvTimeout else KRecv) FWaiting None None h),
            out_of RBlocked)
  end.

Definition step_try_recv (a : aconf) (h : id) : aconf * out :=
  if negb (is_side a h SRecv) then invalid a else
  match cs_recv a with
  | RCClosed => (a, out_of (RErr EClosed))
  | RCGot v a1 ws => (a1, mkOut (ROkSome v) [] ws [])
  | RCCorrupt => (a, out_of RHang)
  | RCNone a1 =>
      if N.eqb (send_count (ch a1)) 0 then (a1, out_of (RErr ESendClosed))
      else (a1, out_of ROkNone)
  end.

Definition step_drain (a : aconf) (h : id) : aconf * out :=
  if negb (is_side a h SRecv) then invalid a else
  let c := ch a in
  if N.eqb (recv_count c) 0 then (a, out_of (RErr EClosed)) else
  let required := (len (queue c) + (if recv_blocking c then 0 else len (wait_list c)))%N in
  match drain_senders (S (length (wait_list c))) (set_queue c []) (objs a) with
  | Some (ys, c1, os, ws) =>
      (mkConf c1 os (handles a), mkOut (RDrain required (queue c ++ ys)) [] ws [])
  | None => (a, out_of RHang)
  end.

Definition step_close (a : aconf) (h : id) : aconf * out :=
  match handle_side a h with
  | None => invalid a
  | Some _ =>
      let c := ch a in
      if N.eqb (recv_count c) 0 && N.eqb (send_count c) 0 then (a, out_of (RErr EClosed)) else
      let a1 := with_ch a (set_counts c 0 0) in
      let '(a2, ws) := terminate_signals a1 in
      (with_ch a2 (set_queue (ch a2) []), mkOut ROk (queue c) ws [])
  end.

Definition step_clone (a : aconf) (h h' : id) : aconf * out :=
  match handle_side a h with
  | None => invalid a
  | Some s =>
      match handle_side a h' with
      | Some _ => invalid a
      | None =>
          let c := ch a in
          let c1 := match s with
                    | SSend => if N.ltb 0 (send_count c) then set_counts c (recv_count c) (send_count c + 1) else c
                    | SRecv => if N.ltb 0 (recv_count c) then set_counts c (recv_count c + 1) (send_count c) else c
                    end in
          (mkConf c1 (objs a) ((h', s) :: handles a), out_of RUnit)
      end
  end.

(* Drop for Sender / Receiver (+ Arc: the buffer dies with the last handle) *)
Definition step_drop_handle (a : aconf) (h : id) : aconf * out :=
  match handle_side a h with
  | None => invalid a
  | Some s =>
      if borrowed a h then invalid a else
      let c := ch a in
      let hs := remove_key h (handles a) in
      let '(a1, ws) :=
        match s with
        | SSend =>
            if N.ltb 0 (send_count c) then
              let c1 := set_counts c (recv_count c) (send_count c - 1) in
              if N.eqb (send_count c1) 0 && negb (N.eqb (recv_count c1) 0)
              then terminate_signals (mkConf c1 (objs a) hs)
              else (mkConf c1 (objs a) hs, [])
            else (mkConf c (objs a) hs, [])
        | SRecv =>
            if N.ltb 0 (recv_count c) then
              let c1 := set_counts c (recv_count c - 1) (send_count c) in
              if N.eqb (recv_count c1) 0 && negb (N.eqb (send_count c1) 0)
              then terminate_signals (mkConf c1 (objs a) hs)
              else (mkConf c1 (objs a) hs, [])
            else (mkConf c (objs a) hs, [])
        end in
      match hs with
      | [] => (with_ch a1 (set_queue (ch a1) []), mkOut RUnit (queue (ch a1)) ws [])
      | _ => (a1, mkOut RUnit [] ws [])
      end
  end.

Definition step_obs (a : aconf) (h : id) (o : obsk) : aconf * out :=
  match handle_side a h with
  | None => invalid a
  | Some s =>
      let c := ch a in
      let r :=
        match o with
        | OLen => RNum (len (queue c))
        | OIsEmpty => RBool (match queue c with [] => true | _ => false end)
        | OIsFull => RBool (N.eqb (capacity c) (len (queue c)))
        | OCapacity => RNum (capacity c)
        | OIsBounded => RBool (negb (N.eqb (capacity c) usize_max))
        | OSenderCount => RNum (send_count c)
        | OReceiverCount => RNum (recv_count c)
        | OIsClosed => RBool (N.eqb (send_count c) 0 && N.eqb (recv_count c) 0)
        | OIsDisconnected =>
            RBool (match s with SSend => N.eqb (recv_count c) 0 | SRecv => N.eqb (send_count c) 0 end)
        | OIsTerminated =>
            match s with
            | SRecv => RBool (N.eqb (send_count c) 0 && N.eqb (len (queue c)) 0)
            | SSend => RInvalid
            end
        end in
      (a, out_of r)
  end.

(* completion of a blocked sync call whose signal a peer has finished *)
Definition step_complete (a : aconf) (k : id) : aconf * out :=
  match lookup k (objs a) with
  | None => invalid a
  | Some o =>
      if kind_async (o_kind o) then invalid a else
      let a1 := with_objs a (remove_key k (objs a)) in
      match o_sig o, kind_side (o_kind o) with
      | SLocked, _ => invalid a
      | SOk, SSend => (a1, out_of ROk)
      | STerm, SSend =>
          match o_val o with
          | Some x => (a1, match o_kind o with
                           | KSendOptTimeout => mkOut (RErr EClosed) [] [] [x]
                           | _ => mkOut (RErr EClosed) [x] [] []
                           end)
          | None => (a, out_of RHang)
          end
      | SOk, SRecv =>
          match o_val o with
          | Some v => (a1, out_of (ROkV v))
          | None => (a, out_of RHang)
          end
      | STerm, SRecv => (a1, out_of (RErr EClosed))
      end
  end.

(* the deadline of a timed call passes while its signal is still unfinished *)
Definition step_timeout (a : aconf) (k : id) : aconf * out :=
  match lookup k (objs a) with
  | None => invalid a
  | Some o =>
      if negb (kind_timed (o_kind o)) then invalid a else
      match o_sig o with
      | SLocked =>
          let '(b, c1) := match kind_side (o_kind o) with
                          | SSend => cancel_send_signal (ch a) k
                          | SRecv => cancel_recv_signal (ch a) k
                          end in
          if b then
            let a1 := mkConf c1 (remove_key k (objs a)) (handles a) in
            match o_kind o, o_val o with
            | KSendTimeout, Some x => (a1, mkOut (RErr ETimeout) [x] [] [])
            | KSendOptTimeout, Some x => (a1, mkOut (RErr ETimeout) [] [] [x])
            | KRecvTimeout, _ => (a1, out_of (RErr ETimeout))
            | _, _ => (a, out_of RHang)
            end
          else (a, out_of RHang)      (* claimed but unfinished: cannot occur atomically *)
      | _ => invalid a                (* finished: LComplete reports the peer's verdict *)
      end
  end.

Definition step_mk (a : aconf) (f h : id) (kd : okind) (v : option tag) : aconf * out :=
  if negb (is_side a h (kind_side kd)) || negb (fresh a f) then invalid a else
  (with_objs a ((f, new_obj kd FZero v None h) :: objs a), out_of RUnit).

Inductive pollres := PPending | PReadyOk | PReadyOkV (x : tag) | PReadyErr (e : err) | PPanic | PHang.

Definition put (a : aconf) (f : id) (o : obj) : aconf := with_objs a (update f o (objs a)).

(* SendFuture::poll *)
Definition poll_send (a : aconf) (f : id) (o : obj) (w : N) : aconf * pollres * list tag * list N :=
  match o_fst o with
  | FZero =>
      match o_val o with
      | None => (a, PHang, [], [])
      | Some x =>
          match cs_send a x with
          | SCErr e => (put a f (set_fst (set_val o None) FDone), PReadyErr e, [x], [])
          | SCSent a1 ws => (put a1 f (set_fst (set_val o None) FDone), PReadyOk, [], ws)
          | SCFull a1 =>
              let a2 := put a1 f (set_waker (set_fst o FWaiting) (Some w)) in
              (with_ch a2 (push_wait (ch a2) f), PPending, [], [])
          end
      end
  | FWaiting =>
      match o_sig o with
      | SOk => (put a f (set_fst o FDone), PReadyOk, [], [])
      | STerm =>
          match o_val o with
          | Some x => (put a f (set_fst (set_val o None) FDone), PReadyErr EClosed, [x], [])
          | None => (a, PHang, [], [])
          end
      | SLocked =>
          if match o_waker o with Some w' => N.eqb w' w | None => false end then (a, PPending, [], [])
          else if send_signal_exists (ch a) f then (put a f (set_waker o (Some w)), PPending, [], [])
          else (a, PHang, [], [])
      end
  | FDone => (a, PPanic, [], [])
  end.

(* ReceiveFuture::poll in state Zero *)
Definition poll_recv_zero (a : aconf) (f : id) (o : obj) (w : N) : aconf * pollres * list tag * list N :=
  match cs_recv a with
  | RCClosed => (put a f (set_fst o FDone), PReadyErr EClosed, [], [])
  | RCGot v a1 ws => (put a1 f (set_fst o FDone), PReadyOkV v, [], ws)
  | RCCorrupt => (a, PHang, [], [])
  | RCNone a1 =>
      if N.eqb (send_count (ch a1)) 0 then (put a1 f (set_fst o FDone), PReadyErr ESendClosed, [], [])
      else
        let a2 := put a1 f (set_waker (set_fst o FWaiting) (Some w)) in
        (with_ch a2 (push_wait (ch a2) f), PPending, [], [])
  end.

Definition poll_recv (a : aconf) (f : id) (o : obj) (w : N) : aconf * pollres * list tag * list N :=
  match o_fst o with
  | FZero => poll_recv_zero a f o w
  | FWaiting =>
      match o_sig o with
      | SOk =>
          match o_val o with
          | Some v => (put a f (set_fst (set_val o None) FDone), PReadyOkV v, [], [])
          | None => (a, PHang, [], [])
          end
      | STerm => (put a f (set_fst o FDone), PReadyErr EClosed, [], [])
      | SLocked =>
          if match o_waker o with Some w' => N.eqb w' w | None => false end then (a, PPending, [], [])
          else if recv_signal_exists (ch a) f then (put a f (set_waker o (Some w)), PPending, [], [])
          else (a, PHang, [], [])
      end
  | FDone =>
      match o_kind o with
      | KStream =>
          (* re-arm: fresh signal (repair D3), state Zero, poll again *)
          poll_recv_zero a f (set_sig (set_fst o FZero) SLocked) w
      | _ => (a, PPanic, [], [])
      end
  end.

Definition step_poll (a : aconf) (f : id) (w : N) : aconf * out :=
  match lookup f (objs a) with
  | None => invalid a
  | Some o =>
      match o_kind o with
      | KSendFut =>
          let '(a1, p, ds, ws) := poll_send a f o w in
          (a1, mkOut (match p with
                      | PPending => RPending | PReadyOk => RReadyOk | PReadyOkV x => RReadyOkV x
                      | PReadyErr e => RReadyErr e | PPanic => RPanic | PHang => RHang end) ds ws [])
      | KRecvFut =>
          let '(a1, p, ds, ws) := poll_recv a f o w in
          (a1, mkOut (match p with
                      | PPending => RPending | PReadyOk => RReadyOk | PReadyOkV x => RReadyOkV x
                      | PReadyErr e => RReadyErr e | PPanic => RPanic | PHang => RHang end) ds ws [])
      | KStream =>
          if o_term o then (a, out_of RNone) else
          let '(a1, p, ds, ws) := poll_recv a f o w in
          match p with
          | PPending => (a1, mkOut RPending ds ws [])
          | PReadyOkV x => (a1, mkOut (RSome x) ds ws [])
          | PReadyErr _ =>
              (match lookup f (objs a1) with
               | Some o1 => put a1 f (set_term o1 true)
               | None => a1 end, mkOut RNone ds ws [])
          | PReadyOk | PPanic | PHang => (a1, mkOut RHang ds ws [])
          end
      | _ => invalid a
      end
  end.

(* Drop for SendFuture / ReceiveFuture / ReceiveStream *)
Definition step_drop_fut (a : aconf) (f : id) : aconf * out :=
  match lookup f (objs a) with
  | None => invalid a
  | Some o =>
      if negb (kind_async (o_kind o)) then invalid a else
      let gone := remove_key f (objs a) in
      match kind_side (o_kind o), o_fst o with
      | SSend, FDone => (with_objs a gone, out_of RUnit)
      | SSend, FZero =>
          (with_objs a gone, mkOut RUnit (match o_val o with Some x => [x] | None => [] end) [] [])
      | SSend, FWaiting =>
          let '(b, c1) := cancel_send_signal (ch a) f in
          if b then (mkConf c1 gone (handles a),
                     mkOut RUnit (match o_val o with Some x => [x] | None => [] end) [] [])
          else match o_sig o with
               | SOk => (with_objs a gone, out_of RUnit)
               | STerm => (with_objs a gone,
                           mkOut RUnit (match o_val o with Some x => [x] | None => [] end) [] [])
               | SLocked => (a, out_of RHang)
               end
      | SRecv, FWaiting =>
          let '(b, c1) := cancel_recv_signal (ch a) f in
          if b then (mkConf c1 gone (handles a), out_of RUnit)
          else match o_sig o with
               | SOk => (with_objs a gone,
                         mkOut RUnit (match o_val o with Some v => [v] | None => [] end) [] [])
               | STerm => (with_objs a gone, out_of RUnit)
               | SLocked => (a, out_of RHang)
               end
      | SRecv, _ => (with_objs a gone, out_of RUnit)
      end
  end.

Definition step_stream_term (a : aconf) (f : id) : aconf * out :=
  match lookup f (objs a) with
  | Some o =>
      match o_kind o with
      | KStream => (a, out_of (RBool (N.eqb (send_count (ch a)) 0 && N.eqb (len (queue (ch a))) 0)))
      | _ => invalid a
      end
  | None => invalid a
  end.

Definition astep (a : aconf) (l : label) : aconf * out :=
  match l with
  | LClone h h' => step_clone a h h'
  | LDropH h => step_drop_handle a h
  | LClose h => step_close a h
  | LObs h o => step_obs a h o
  | LSend k h x => step_send_like a k h x KSend
  | LSendTimeout k h x => step_send_like a k h x KSendTimeout
  | LSendOptTimeout k h (Some x) => step_send_like a k h x KSendOptTimeout
  | LSendOptTimeout k h None => if is_side a h SSend then (a, out_of RPanic) else invalid a
  | LTrySend h x => step_try_send a h x false
  | LTrySendOpt h (Some x) => step_try_send a h x true
  | LTrySendOpt h None => if is_side a h SSend then (a, out_of RPanic) else invalid a
  | LTrySendRT h x busy =>
      if busy then (if is_side a h SSend then (a, mkOut (ROkB false) [x] [] []) else invalid a)
      else step_try_send a h x false
  | LTrySendOptRT h (Some x) busy =>
      if busy then (if is_side a h SSend then (a, mkOut (ROkB false) [] [] [x]) else invalid a)
      else step_try_send a h x true
  | LTrySendOptRT h None _ => if is_side a h SSend then (a, out_of RPanic) else invalid a
  | LRecv k h => step_recv_like a k h false false
  | LRecvTimeout k h early => step_recv_like a k h true early
  | LTryRecv h => step_try_recv a h
  | LTryRecvRT h busy =>
      if busy then (if is_side a h SRecv then (a, out_of ROkNone) else invalid a)
      else step_try_recv a h
  | LDrain h => step_drain a h
  | LComplete k => step_complete a k
  | LTimeoutFire k => step_timeout a k
  | LMkSend f h x => step_mk a f h KSendFut (Some x)
  | LMkRecv f h => step_mk a f h KRecvFut None
  | LMkStream f h => step_mk a f h KStream None
  | LPoll f w => step_poll a f w
  | LDropF f => step_drop_fut a f
  | LStreamTerm f => step_stream_term a f
  end.

(* bounded(cap) / unbounded(): sender handle 0, receiver handle 1 *)
Definition init (bounded : bool) (cap : N) : aconf :=
  mkConf (chan_new bounded cap) [] [(0%N, SSend); (1%N, SRecv)].

Fixpoint arun (a : aconf) (ls : list label) : aconf * list out :=
  match ls with
  | [] => (a, [])
  | l :: r => let '(a1, o) := astep a l in
              let '(a2, os) := arun a1 r in (a2, o :: os)
  end.
