(* Traits.v - a first-order model of how rustc decides `Send` / `Sync` for the crate's public
   types: explicit (unsafe) impls with their bounds, structural derivation through fields, the
   rules of the std / lock_api types involved, negative for raw pointers.  The struct
   definitions, aliases and explicit impls are regenerated from the source (gen/Gen_Traits.v).
   The message type enters only through two booleans (T: Send? T: Sync?).
   Validated exhaustively against rustc's own verdicts on every run (56 verdicts). *)
From KV Require Export TraitsBase.

Inductive trait := Send | Sync.
Definition trait_name (t : trait) : string := match t with Send => "Send"%string | Sync => "Sync"%string end.

Fixpoint subst (arg : ty) (t : ty) : ty :=
  match t with
  | TParam => arg
  | TApp n args => TApp n (map (subst arg) args)
  | TRawPtr x => TRawPtr (subst arg x)
  | TRef x => TRef (subst arg x)
  end.

Fixpoint assoc {A} (n : string) (l : list (string * A)) : option A :=
  match l with [] => None | (m, v) :: r => if String.eqb n m then Some v else assoc n r end.

Definition find_impl (impls : list timpl) (n : string) (t : trait) : option timpl :=
  find (fun i => String.eqb (i_type i) n && String.eqb (i_trait i) (trait_name t)) impls.

Open Scope string_scope.
(* types that are Send and Sync whatever happens *)
Definition leaf_ok (n : string) : bool :=
  existsb (String.eqb n) ["AtomicU8"; "AtomicBool"; "bool"; "u8"; "u32"; "usize"; "Thread"; "Waker"; "PhantomPinned";
                          "GuardSend"; "()"; "SendError"; "ReceiveError"; "Duration"].
(* wrappers that are Send / Sync exactly when their argument is *)
Definition structural_std (n : string) : bool :=
  existsb (String.eqb n) ["MaybeUninit"; "Option"; "Box"; "Pin"; "VecDeque"; "Result"; "Vec"].

Section Derive.
  Variable structs : list (string * list ty).
  Variable aliases : list (string * ty).
  Variable impls : list timpl.
  Variable tsend tsync : bool.

  Fixpoint derives (fuel : nat) (tr : trait) (t : ty) : bool :=
    match fuel with
    | O => false
    | S n =>
        match t with
        | TParam => match tr with Send => tsend | Sync => tsync end
        | TRawPtr _ => false
        | TRef x => derives n Sync x                       (* &X: Send iff X: Sync; &X: Sync iff X: Sync *)
        | TApp name args =>
            match find_impl impls name tr with
            | Some i =>
                (* an explicit impl decides (rustc does not fall back to the structural rule) *)
                negb (i_negative i) &&
                forallb (fun b => if String.eqb b "Send" then match args with [a] => derives n Send a | _ => false end
                                  else if String.eqb b "Sync" then match args with [a] => derives n Sync a | _ => false end
                                  else true) (i_bounds i) &&
                forallb (fun p => forallb (fun b => if String.eqb b "Send" then derives n Send (subst (hd TParam args) (fst p))
                                                    else if String.eqb b "Sync" then derives n Sync (subst (hd TParam args) (fst p))
                                                    else true) (snd p)) (i_where i)
            | None =>
                if leaf_ok name then true
                else if String.eqb name "Arc" then forallb (fun a => derives n Send a && derives n Sync a) args
                else if String.eqb name "UnsafeCell" then
                  match tr with Send => forallb (derives n Send) args | Sync => false end
                else if String.eqb name "Mutex" then
                  match args with
                  | [r; x] => (* lock_api::Mutex<R, X> *)
                      match tr with Send => derives n Send r && derives n Send x | Sync => derives n Sync r && derives n Send x end
                  | [x] => (* the crate's alias Mutex<X> *)
                      match assoc "Mutex" aliases with Some body => derives n tr (subst x body) | None => false end
                  | _ => false
                  end
                else if structural_std name then forallb (derives n tr) args
                else
                  match assoc name structs with
                  | Some fields => forallb (fun f => derives n tr (subst (hd TParam args) f)) fields
                  | None =>
                      match assoc name aliases with
                      | Some body => derives n tr (subst (hd TParam args) body)
                      | None => false          (* unknown type: refuse, so that the theorem cannot hold by accident *)
                      end
                  end
            end
        end
    end.
End Derive.

Definition public_handles : list string := ["Sender"; "AsyncSender"; "Receiver"; "AsyncReceiver"].
Definition public_futures : list string := ["SendFuture"; "ReceiveFuture"; "ReceiveStream"].
Close Scope string_scope.
