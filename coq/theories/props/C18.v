(* C18 - single-threaded behaviour equals a simple reference channel.
   The reference against which every call of random and corpus single-threaded histories is
   compared (H1, the deciding correspondence for this property) is `Atomic.astep`.  Proved here:
   the reference is total on reachable states (its "cannot happen" outcome is never produced),
   it panics only where the documentation says so, and every one of its steps keeps the
   invariant, conserves the messages and keeps their order - i.e. it *is* a well-behaved
   queue-plus-waiting-list channel.  A second, shorter reference model with a simulation proof is
   not written (DESIGN.md section 11). *)
From KV Require Import Base Chan Atomic.
From KV.proofs Require Import Inv StepInv Ledger Fifo NoHang.

Theorem c18_reference_is_total : forall b cap ls l,
  bad (r_res (snd (astep (fst (arun (init b cap) ls)) l))) = false.
Proof. exact no_hang_reachable. Qed.

(* no call panics except the documented ones: a None option, polling a finished future *)
Theorem c18_only_documented_panics : forall a l,
  Inv a -> r_res (snd (astep a l)) = RPanic -> documented_panic a l.
Proof. exact panic_only_documented. Qed.

Theorem c18_reference_is_a_channel : forall a l,
  Inv a -> Inv (fst (astep a l)) /\ conserves a l /\ fifo_ok a l.
Proof. intros a l HI. split; [apply astep_inv|split; [apply astep_conserves|apply astep_fifo]]; exact HI. Qed.

Print Assumptions c18_reference_is_total.
Print Assumptions c18_only_documented_panics.
Print Assumptions c18_reference_is_a_channel.

Example c18_witness :
  let ls := [LTrySendOpt 0 None; LObs 1 OIsFull; LTrySend 0 3; LObs 1 OIsFull; LObs 0 OIsTerminated;
             LDropH 0; LObs 1 OIsTerminated; LTryRecv 1; LObs 1 OIsTerminated; LTryRecv 1]%N in
  map r_res (snd (arun (init true 1) ls)) =
  [RPanic; RBool false; ROkB true; RBool true; RInvalid; RUnit; RBool false; ROkSome 3; RBool true; RErr ESendClosed]%N.
Proof. vm_compute. reflexivity. Qed.
