(* C02 - FIFO: messages are delivered in the order the channel accepted them.
   `entered_run`: the values in the order their sends entered the channel (buffered, handed to
   a waiting receiver, or registered as a blocked / pending sender); `taken_run`: the values in
   the order they left it toward a receiver (returned by a receive / try / poll / drain step, or
   written into a waiting receiver's slot by the sending step); `pending`: buffer, then blocked
   senders in wait-list order.  A value handed to a waiting receiver is taken in the step of its
   send, i.e. inside that receive's call interval, so order of taking is the order the property
   speaks of (no receive that obtains the later value completes before one that obtains the
   earlier value begins). *)
From KV Require Import Base Chan Atomic.
From KV.proofs Require Import Inv StepInv Fifo.

(* any execution (any number of senders, receivers, futures, streams, timeouts and cancellations
   from the middle of the wait list, drains, closes): taken ++ still-pending is an
   order-preserving subsequence of entered *)
Theorem c02_taken_then_pending_is_a_subsequence_of_entered : forall b cap ls,
  Subseq (taken_run (init b cap) ls ++ pending (fst (arun (init b cap) ls))) (entered_run (init b cap) ls).
Proof. exact fifo. Qed.

(* in the property's words: with distinct values, if x was taken before y then x entered before y *)
Theorem c02_no_overtaking : forall b cap ls x y i j,
  NoDup (entered_run (init b cap) ls) ->
  index_of x (taken_run (init b cap) ls ++ pending (fst (arun (init b cap) ls))) = Some i ->
  index_of y (taken_run (init b cap) ls ++ pending (fst (arun (init b cap) ls))) = Some j ->
  i < j ->
  exists i' j', index_of x (entered_run (init b cap) ls) = Some i' /\
                index_of y (entered_run (init b cap) ls) = Some j' /\ i' < j'.
Proof. intros b cap ls x y i j Hd. apply subseq_order; [exact Hd|apply fifo]. Qed.

(* one step: the sequence only loses elements, grows at its end, or is consumed from its front *)
Theorem c02_step : forall a l, Inv a -> fifo_ok a l.
Proof. exact astep_fifo. Qed.

Print Assumptions c02_taken_then_pending_is_a_subsequence_of_entered.
Print Assumptions c02_no_overtaking.
Print Assumptions c02_step.

(* non-vacuity: buffer + three pending senders, the middle one cancelled, refill, drain *)
Example c02_witness :
  let ls := [LTrySend 0 1; LMkSend 5 0 2; LPoll 5 0; LMkSend 6 0 3; LPoll 6 0; LMkSend 7 0 4; LPoll 7 0;
             LDropF 6; LTryRecv 1; LDrain 1]%N in
  entered_run (init true 1) ls = [1; 2; 3; 4]%N /\ taken_run (init true 1) ls = [1; 2; 4]%N.
Proof. vm_compute. auto. Qed.
