(* C01 - exactly-once delivery: no message lost, duplicated or invented.
   Statements over ALL executions (any label sequence: any number of handles,
   blocked callers, futures, streams; any capacity; bounded or not) of the
   Atomic model, which is tied to /repo by the H1 differential. *)
From KV Require Import Base Chan Atomic.
From KV.proofs Require Import Inv StepInv Ledger LedgerCor.
From Coq Require Import Permutation.

(* conservation: values offered = received + destroyed + handed back + still inside, as multisets *)
Theorem c01_conservation : forall b cap ls,
  let '(a, os) := arun (init b cap) ls in
  Permutation (offered_run (init b cap) ls)
              (outs_received os ++ outs_dropped os ++ outs_back os ++ held a).
Proof. exact ledger_conservation. Qed.

(* exactly once: with distinct offered values no value is received twice, received and
   destroyed, received and handed back, or received and still held; every received value
   was offered; every offered value is accounted for *)
Theorem c01_exactly_once : forall b cap ls,
  NoDup (offered_run (init b cap) ls) ->
  let '(a, os) := arun (init b cap) ls in
  NoDup (outs_received os ++ outs_dropped os ++ outs_back os ++ held a) /\
  (forall x, In x (outs_received os) -> In x (offered_run (init b cap) ls)) /\
  (forall x, In x (offered_run (init b cap) ls) ->
             In x (outs_received os) \/ In x (outs_dropped os) \/ In x (outs_back os) \/ In x (held a)).
Proof. exact exactly_once. Qed.

(* a send that reports failure has handed its value to nobody: it comes back / is destroyed in that step *)
Theorem c01_failed_send_keeps_value : forall a k h x kd e,
  r_res (snd (step_send_like a k h x kd)) = RErr e ->
  out_tags (snd (step_send_like a k h x kd)) = [x] /\ fst (step_send_like a k h x kd) = a.
Proof. exact send_like_failure. Qed.

Print Assumptions c01_conservation.
Print Assumptions c01_exactly_once.
Print Assumptions c01_failed_send_keeps_value.

(* non-vacuity: a concrete execution with distinct tags, a hand-off, a buffered value and a drop *)
Example c01_witness :
  let ls := [LMkRecv 5 1; LPoll 5 0; LSend 6 0 11; LTrySend 0 12; LTrySend 0 13; LPoll 5 0; LClose 0]%N in
  NoDup (offered_run (init true 1) ls) /\
  outs_received (snd (arun (init true 1) ls)) = [11]%N /\
  outs_dropped (snd (arun (init true 1) ls)) = [13; 12]%N.
Proof. vm_compute. repeat split; repeat constructor; simpl; intuition discriminate. Qed.
