(* C20 - handles and futures cross threads only when the message type may.
   Model of rustc's auto-trait derivation (Traits.v) over the struct definitions, aliases and
   unsafe impls regenerated from the source (gen/Gen_Traits.v).  "For all T" is a quantification
   over the two booleans through which T enters the derivation; that parametricity, and the
   rules for std / lock_api types, are validated against rustc's own 56 verdicts on every run. *)
From KV Require Import TraitsBase Traits.
From KV.gen Require Import Gen_Traits.
From KV.proofs Require Import TraitsProof.

Theorem c20_send_message_types_cross_threads : forall tsync,
  forallb (fun n => dv true tsync Send n && dv true tsync Sync n) public_handles = true /\
  forallb (fun n => dv true tsync Send n) public_futures = true.
Proof. exact send_message_types_cross_threads. Qed.

Theorem c20_non_send_message_types_stay_on_their_thread : forall tsync,
  forallb (fun n => negb (dv false tsync Send n) && negb (dv false tsync Sync n)) (public_handles ++ public_futures) = true.
Proof. exact non_send_message_types_stay_put. Qed.

Print Assumptions c20_send_message_types_cross_threads.
Print Assumptions c20_non_send_message_types_stay_on_their_thread.

(* non-vacuity: the derivation really goes through the generated definitions *)
Example c20_witness :
  dv true false Send "SendFuture" = true /\ dv true true Sync "SendFuture" = false /\ dv false true Send "Sender" = false.
Proof. vm_compute. auto. Qed.
