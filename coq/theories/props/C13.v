(* C13 - timed operations are all-or-nothing and respect their deadline.
   Atomic half: a timed call that has to wait registers like a blocking one; then exactly one of
   LComplete (the peer finished it: success, or the closed error) and LTimeoutFire happens.
   Deadline half: Sig.v - the owner of a timed wait reaches the cancel only through the final load
   that follows the deadline (`EDeadline`), and when the cancel finds the entry gone it waits for
   the peer and reports the peer's verdict; H2 runs the timed calls under a virtual clock advanced
   at every point and checks that Timeout is returned only after a clock reading >= deadline. *)
From KV Require Import Base Chan Atomic Mem Sig.
From KV Require Import Deadline.
From KV.proofs Require Import Inv StepInv Ledger Fifo Ops SigProof DeadlineProof.

(* timeout: nothing moved - the value is destroyed or handed back in that step, the entry is gone *)
Theorem c13_timeout_leaves_nothing_behind : forall a k o,
  Inv a -> lookup k (objs a) = Some o -> kind_timed (o_kind o) = true -> o_sig o = SLocked ->
  let '(a', out) := step_timeout a k in
  r_res out = RErr ETimeout /\ lookup k (objs a') = None /\ ~ In k (wait_list (ch a')) /\
  wait_list (ch a') = remove_first k (wait_list (ch a)) /\
  r_drops out ++ r_back out = oval o /\ res_received (r_res out) = [].
Proof. exact timeout_fires. Qed.

(* if a peer got there first the timeout does not fire: the caller reports the peer's verdict *)
Theorem c13_peer_wins_the_race : forall a k o,
  lookup k (objs a) = Some o -> o_sig o <> SLocked -> step_timeout a k = invalid a.
Proof. exact timeout_defers_to_the_peer. Qed.

(* whatever happens the value is accounted for exactly once (conservation holds for every label) *)
Theorem c13_all_or_nothing : forall a l, Inv a -> conserves a l.
Proof. exact astep_conserves. Qed.

(* protocol: a timed owner's outcome agrees with the peer's (success iff the peer delivered) *)
Theorem c13_both_sides_agree : forall i s, In i sinits -> reach (snext actual_ords) i s -> safe s = true.
Proof. exact signal_protocol_safe. Qed.

(* the deadline is the first clock reading plus the duration, and Timeout is returned only after
   a reading at or past it; the waiting loop is left exactly by such a reading (or by a peer) *)
Theorem c13_timeout_never_before_the_deadline : forall dur re tr u,
  trun dur re TStart tr = Some (TTimeout u) ->
  exists t0 rest v, readings tr = t0 :: rest /\ u = (t0 + dur)%N /\ In v (readings tr) /\ (t0 + dur <= v)%N.
Proof. exact timeout_only_after_the_deadline. Qed.

Theorem c13_waiting_ends_once_the_deadline_passed : forall u v dur re,
  (u <= v)%N -> tstep dur re (TWait u) (Now v) = Some (TExpired u).
Proof. exact loop_exits_once_past. Qed.

Print Assumptions c13_timeout_never_before_the_deadline.
Print Assumptions c13_waiting_ends_once_the_deadline_passed.
Print Assumptions c13_timeout_leaves_nothing_behind.
Print Assumptions c13_peer_wins_the_race.
Print Assumptions c13_all_or_nothing.
Print Assumptions c13_both_sides_agree.

Example c13_witness :
  let ls := [LSendTimeout 5 0 7; LRecvTimeout 6 1 false; LComplete 5; LRecvTimeout 8 1 false; LTimeoutFire 8;
             LSendOptTimeout 9 0 (Some 10); LTimeoutFire 9]%N in
  map (fun o => (r_res o, r_drops o, r_back o)) (snd (arun (init true 0) ls)) =
  [(RBlocked, [], []); (ROkV 7, [], []); (ROk, [], []); (RBlocked, [], []); (RErr ETimeout, [], []);
   (RBlocked, [], []); (RErr ETimeout, [], [10])]%N.
Proof. vm_compute. reflexivity. Qed.
