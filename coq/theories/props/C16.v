(* C16 - futures and the stream obey the polling contract *)
From KV Require Import Base Chan Atomic.
From KV.proofs Require Import Inv StepInv Ledger Fifo Ops.

(* a spurious poll of a pending future (same or different waker): Pending, no value moves, the
   state is unchanged except that the registered waker becomes the one just supplied *)
Theorem c16_spurious_poll_of_a_send_future : forall a f o w,
  Inv a -> lookup f (objs a) = Some o -> o_kind o = KSendFut -> o_fst o = FWaiting -> o_sig o = SLocked ->
  poll_send a f o w = (put a f (set_waker o (Some w)), PPending, [], []) \/
  (o_waker o = Some w /\ poll_send a f o w = (a, PPending, [], [])).
Proof. exact spurious_poll_send. Qed.

Theorem c16_spurious_poll_of_a_receive_future_or_stream : forall a f o w,
  Inv a -> lookup f (objs a) = Some o -> (o_kind o = KRecvFut \/ o_kind o = KStream) ->
  o_fst o = FWaiting -> o_sig o = SLocked ->
  poll_recv a f o w = (put a f (set_waker o (Some w)), PPending, [], []) \/
  (o_waker o = Some w /\ poll_recv a f o w = (a, PPending, [], [])).
Proof. exact spurious_poll_recv. Qed.

(* the most recently supplied waker is the one that gets woken *)
Theorem c16_latest_waker_is_woken : forall o w,
  kind_async (o_kind o) = true -> o_waker o = Some w -> wake_of o = [w].
Proof. exact wake_uses_registered_waker. Qed.

(* a completed future panics if polled again, and nothing else happens *)
Theorem c16_completed_future_panics : forall a f o w,
  lookup f (objs a) = Some o -> o_fst o = FDone -> (o_kind o = KSendFut \/ o_kind o = KRecvFut) ->
  step_poll a f w = (a, out_of RPanic).
Proof. exact poll_after_completion. Qed.

(* the stream: each value once and in order (C01 / C02 hold for every label, polls included),
   and once it has ended it keeps reporting the end *)
Theorem c16_stream_end_is_final : forall a f o w,
  lookup f (objs a) = Some o -> o_kind o = KStream -> o_term o = true -> step_poll a f w = (a, out_of RNone).
Proof. exact stream_end_is_final. Qed.

Theorem c16_polls_neither_invent_nor_lose_values : forall a f w, Inv a -> conserves a (LPoll f w).
Proof. intros a f w HI. apply astep_conserves. exact HI. Qed.

Theorem c16_polls_keep_the_order : forall a f w, Inv a -> fifo_ok a (LPoll f w).
Proof. intros a f w HI. apply astep_fifo. exact HI. Qed.

Print Assumptions c16_spurious_poll_of_a_send_future.
Print Assumptions c16_spurious_poll_of_a_receive_future_or_stream.
Print Assumptions c16_latest_waker_is_woken.
Print Assumptions c16_completed_future_panics.
Print Assumptions c16_stream_end_is_final.
Print Assumptions c16_polls_neither_invent_nor_lose_values.
Print Assumptions c16_polls_keep_the_order.

Example c16_witness :
  let ls := [LMkStream 5 1; LPoll 5 1; LPoll 5 2; LTrySend 0 7; LPoll 5 2; LPoll 5 3; LPoll 5 3; LTrySend 0 8; LPoll 5 3;
             LDropH 0; LPoll 5 3; LPoll 5 3; LMkRecv 6 1; LPoll 6 0; LPoll 6 0]%N in
  map (fun o => (r_res o, r_wakes o)) (snd (arun (init true 0) ls)) =
  [(RUnit, []); (RPending, []); (RPending, []); (ROkB true, [2]); (RSome 7, []); (RPending, []); (RPending, []);
   (ROkB true, [3]); (RSome 8, []); (RUnit, []); (RNone, []); (RNone, []); (RUnit, []); (RReadyErr ESendClosed, []); (RPanic, [])]%N.
Proof. vm_compute. reflexivity. Qed.
