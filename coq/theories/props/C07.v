(* C07 - hand-off is memory-safe: no data race, no access after the waiter is gone.
   Model: Sig.v - one signal, its owner against its claiming peer, every shared access an
   event, ownership tokens for the slot, the waker cell and the signal's lifetime, moved
   only by release/acquire pairs with the orderings of the current source.
   Memory model: DESIGN.md 3.8 (atomics sequentially consistent for values; no load
   buffering, no aliasing model) - the claim is partial in exactly that sense.
   Tie to /repo: orderings and operands regenerated (gen/Gen_Sites.v), shape of signal.rs
   pinned (ShapeOk.signal_shape_ok), every event of scheduled runs of the real crate fed to
   the extracted Sig.sstep with its source site (H2), plus an independent vector-clock
   happens-before detector on the same traces. *)
From KV Require Import Mem Sig.
From KV.gen Require Import Gen_Sites.
From KV.proofs Require Import SigProof ShapeBase ShapeSignal ShapeSites.

(* every reachable state of the protocol - any interleaving, any number of spin / park / sleep
   iterations, spurious wake-ups, the deadline at any moment, sync / timed / async owner,
   peer delivering, taking or terminating - is safe: no access without its token (`s_viol`),
   no owner parked for ever after its peer is done, success reported iff the peer delivered *)
Theorem c07_every_reachable_state_is_safe :
  forall i s, In i sinits -> reach (snext actual_ords) i s -> safe s = true.
Proof. exact signal_protocol_safe. Qed.

Corollary c07_no_access_without_its_token :
  forall i s, In i sinits -> reach (snext actual_ords) i s -> s_viol s = false.
Proof.
  intros i s Hi Hr. pose proof (signal_protocol_safe i s Hi Hr) as H. unfold safe in H.
  destruct (s_viol s); [discriminate|reflexivity].
Qed.

Theorem c07_source_shape_is_the_modelled_one :
  skel_diff ["signal."] (strip_table Gen_Skel.protocol_skeletons) (strip_table Expected.expected_protocol_skeletons) = [] /\
  list_eqb shape_eqb (map site_shape atomic_sites) (map site_shape Expected.expected_atomic_sites) = true.
Proof. split; [exact signal_shape_ok|exact atomic_sites_shape_ok]. Qed.

Print Assumptions c07_every_reachable_state_is_safe.
Print Assumptions c07_no_access_without_its_token.
Print Assumptions c07_source_shape_is_the_modelled_one.

(* non-vacuity: the reachable set is not trivial, and it contains the park / unpark hand-off *)
Example c07_reachable_states : 100 < reachable_count.
Proof. vm_compute. repeat constructor. Qed.

Example c07_park_path_is_reachable :
  exists s, In s reachable_set /\ s_o s = OParked /\ s_c s = CDone /\ s_st s = V0.
Proof.
  assert (H : existsb (fun s => match s_o s, s_c s, s_st s with OParked, CDone, V0 => true | _, _, _ => false end)
                      reachable_set = true) by (vm_compute; reflexivity).
  apply existsb_exists in H. destruct H as (s & Hs & Hm). exists s. split; [exact Hs|]. clear Hs.
  destruct (s_o s), (s_c s), (s_st s); try discriminate Hm; auto.
Qed.

(* the finding D6 (repaired by commit a66420b): with a relaxed is_terminated the set is not safe *)
Example c07_relaxed_is_terminated_refuted :
  let weak := mkOrds (r_poll_load actual_ords) (r_poll_fence actual_ords)
                     (r_abw_load0 actual_ords) (r_abw_fence0 actual_ords) (r_abw_load1 actual_ords) (r_abw_fence1 actual_ords)
                     (r_abw_load2 actual_ords) (r_abw_fence2 actual_ords)
                     (r_wait_load0 actual_ords) (r_wait_fence0 actual_ords) (r_wait_load1 actual_ords) (r_wait_fence1 actual_ords)
                     (r_wait_cas_s actual_ords) (r_wait_cas_f actual_ords) (r_wait_park_load actual_ords)
                     (r_wt_load0 actual_ords) (r_wt_fence0 actual_ords) (r_wt_load1 actual_ords) (r_wt_fence1 actual_ords)
                     (r_wt_final actual_ords) Relaxed
                     (r_wake_cas_s actual_ords) (r_wake_cas_f actual_ords) (r_wake_store_sync actual_ords)
                     (r_wake_store_async actual_ords) in
  exists l, explore (snext weak) 200000 sinits [] = Some l /\ forallb safe l = false.
Proof. eexists. split; [vm_compute; reflexivity|vm_compute; reflexivity]. Qed.
