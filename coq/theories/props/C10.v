(* C10 - close is total, immediate and happens once *)
From KV Require Import Base Chan Atomic.
From KV.proofs Require Import Inv StepInv Frames Closed Ledger.

(* the first close succeeds; when it returns both counts are 0, the buffer is empty and its
   values were destroyed in that step, the wait list is empty and every waiter that was listed
   is released with the terminated state *)
Theorem c10_first_close : forall a h,
  Inv a -> handle_side a h <> None -> ~ closed a ->
  let '(a', o) := astep a (LClose h) in
  r_res o = ROk /\ r_drops o = queue (ch a) /\ closed a' /\ queue (ch a') = [] /\ wait_list (ch a') = [] /\
  (forall k ob, In k (wait_list (ch a)) -> lookup k (objs a) = Some ob ->
                exists ob', lookup k (objs a') = Some ob' /\ o_sig ob' = STerm).
Proof. exact close_first. Qed.

Theorem c10_later_close_fails : forall a h,
  closed a -> handle_side a h <> None -> astep a (LClose h) = (a, out_of (RErr EClosed)).
Proof. exact close_again. Qed.

Theorem c10_closed_for_ever : forall ls a, Inv a -> closed a -> closed (fst (arun a ls)).
Proof. exact closed_forever_run. Qed.

(* operations begun after close fail with the closed error, change nothing, deliver nothing,
   and hand back or destroy their value *)
Theorem c10_send_after_close : forall a k h x kd,
  closed a -> is_side a h SSend = true -> fresh a k = true ->
  fst (step_send_like a k h x kd) = a /\ r_res (snd (step_send_like a k h x kd)) = RErr EClosed /\
  r_drops (snd (step_send_like a k h x kd)) ++ r_back (snd (step_send_like a k h x kd)) = [x].
Proof. exact closed_send_fails. Qed.

Theorem c10_try_send_after_close : forall a h x opt,
  closed a -> is_side a h SSend = true ->
  fst (step_try_send a h x opt) = a /\ r_res (snd (step_try_send a h x opt)) = RErr EClosed /\
  r_drops (snd (step_try_send a h x opt)) ++ r_back (snd (step_try_send a h x opt)) = [x].
Proof. exact closed_try_send_fails. Qed.

Theorem c10_recv_after_close : forall a k h timed early,
  closed a -> is_side a h SRecv = true -> fresh a k = true ->
  step_recv_like a k h timed early = (a, out_of (RErr EClosed)).
Proof. exact closed_recv_fails. Qed.

Theorem c10_try_recv_after_close : forall a h,
  closed a -> is_side a h SRecv = true -> step_try_recv a h = (a, out_of (RErr EClosed)).
Proof. exact closed_try_recv_fails. Qed.

Theorem c10_drain_after_close : forall a h,
  closed a -> is_side a h SRecv = true -> step_drain a h = (a, out_of (RErr EClosed)).
Proof. exact closed_drain_fails. Qed.

Theorem c10_async_send_after_close : forall a f o w x,
  closed a -> o_fst o = FZero -> o_val o = Some x ->
  poll_send a f o w = (put a f (set_fst (set_val o None) FDone), PReadyErr EClosed, [x], []).
Proof. exact closed_poll_send_fails. Qed.

Theorem c10_async_recv_after_close : forall a f o w,
  closed a -> o_fst o = FZero ->
  poll_recv a f o w = (put a f (set_fst o FDone), PReadyErr EClosed, [], []).
Proof. exact closed_poll_recv_fails. Qed.

Print Assumptions c10_first_close.
Print Assumptions c10_later_close_fails.
Print Assumptions c10_closed_for_ever.
Print Assumptions c10_send_after_close.
Print Assumptions c10_recv_after_close.
Print Assumptions c10_async_send_after_close.

Example c10_witness :
  let ls := [LTrySend 0 7; LMkSend 5 0 8; LPoll 5 2; LClose 1; LClose 0; LPoll 5 2; LTrySend 0 9; LTryRecv 1]%N in
  map (fun o => (r_res o, r_drops o, r_wakes o)) (snd (arun (init true 1) ls)) =
  [(ROkB true, [], []); (RUnit, [], []); (RPending, [], []); (ROk, [7], [2]); (RErr EClosed, [], []);
   (RReadyErr EClosed, [8], []); (RErr EClosed, [9], []); (RErr EClosed, [], [])]%N.
Proof. vm_compute. reflexivity. Qed.
