(* C04 - payload integrity for every message type and transfer path (data half), over the
   size_of::<T>() dispatch regenerated from pointer.rs, lib.rs and future.rs.  The ordering half
   ("never stale or torn": the slot is written before the releasing store and read after the
   acquiring observation, by the token holder only) is C07's theorem over Sig.v.
   The buffer path moves the value through VecDeque<T> (modelled as the identity). *)
From KV Require Import PtrBase Ptr.
From KV.gen Require Import Gen_Ptr.
From KV.proofs Require Import PtrProof.

(* written directly into a blocked receiver's slot (recv / recv_timeout / async receive), read
   directly out of a blocked sender's slot (sync / async), read back by an async sender that
   completes at once: for EVERY size of T and every value, the bytes obtained are the bytes sent;
   no uninitialised word or cell is read; no `unreachable!` leaf is reached *)
Theorem c04_into_blocked_receiver : forall sz d,
  N.of_nat (length d) = sz -> path_sync_receiver ptr_sites sz "lib.Receiver.recv#0" d = Some d.
Proof. exact sync_receiver_recv_integrity. Qed.

Theorem c04_into_blocked_timed_receiver : forall sz d,
  N.of_nat (length d) = sz -> path_sync_receiver ptr_sites sz "lib.Receiver.recv_timeout#0" d = Some d.
Proof. exact sync_receiver_recv_timeout_integrity. Qed.

Theorem c04_into_pending_async_receiver : forall sz d,
  N.of_nat (length d) = sz -> path_async_receiver ptr_sites sz d = Some d.
Proof. exact async_receiver_integrity. Qed.

Theorem c04_out_of_blocked_sender : forall sz d,
  N.of_nat (length d) = sz -> path_sync_sender ptr_sites sz d = Some d.
Proof. exact sync_sender_integrity. Qed.

Theorem c04_out_of_pending_async_sender : forall sz d,
  N.of_nat (length d) = sz -> path_async_sender ptr_sites sz d = Some d.
Proof. exact async_sender_integrity. Qed.

Theorem c04_async_sender_reads_its_own_value_back : forall sz d,
  N.of_nat (length d) = sz -> path_async_sender_local ptr_sites sz d = Some d.
Proof. exact async_sender_local_integrity. Qed.

Theorem c04_drop_paths_read_where_read_paths_do : forall sz, drop_agrees ptr_sites sz = Some true.
Proof. exact drop_paths_agree. Qed.

(* zero-sized (possibly over-aligned) values are never read or written through a pointer *)
Theorem c04_zero_sized_never_dereferenced :
  reading ptr_sites 0 = Some RZeroed /\ writing ptr_sites 0 = Some WNothing.
Proof. exact zst_never_dereferenced. Qed.

Print Assumptions c04_into_blocked_receiver.
Print Assumptions c04_into_blocked_timed_receiver.
Print Assumptions c04_into_pending_async_receiver.
Print Assumptions c04_out_of_blocked_sender.
Print Assumptions c04_out_of_pending_async_sender.
Print Assumptions c04_async_sender_reads_its_own_value_back.
Print Assumptions c04_drop_paths_read_where_read_paths_do.
Print Assumptions c04_zero_sized_never_dereferenced.

Example c04_witness :
  path_sync_receiver ptr_sites 8 "lib.Receiver.recv_timeout#0" [1;2;3;4;5;6;7;8]%N = Some [1;2;3;4;5;6;7;8]%N /\
  path_async_sender ptr_sites 12 [1;2;3;4;5;6;7;8;9;10;11;12]%N = Some [1;2;3;4;5;6;7;8;9;10;11;12]%N /\
  path_sync_sender ptr_sites 0 [] = Some [].
Proof. vm_compute. auto. Qed.
