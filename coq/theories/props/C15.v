(* C15 - dropping a future at any point is safe and leaves the channel consistent.
   Atomic half below.  The drop that races with a peer which has already claimed the future's
   signal is the protocol's APending -ECancel false-> ABlocking path: C07's theorem covers it
   (the owner ends the signal only after acquiring the peer's final store). *)
From KV Require Import Base Chan Atomic Mem Sig.
From KV.proofs Require Import Assoc Inv StepInv Ledger Fifo Ops SigProof.

(* at every stage (never polled, listed, finished by a peer, done): the drop returns, the future is
   gone from the object table and from the wait list, the other waiters keep their order, exactly
   the value the future still owned (at most one) is destroyed, nothing is delivered *)
Theorem c15_drop_at_any_stage : forall a f o,
  Inv a -> lookup f (objs a) = Some o -> kind_async (o_kind o) = true ->
  let '(a', out) := step_drop_fut a f in
  r_res out = RUnit /\ lookup f (objs a') = None /\ ~ In f (wait_list (ch a')) /\
  wait_list (ch a') = remove_first f (wait_list (ch a)) /\
  r_drops out = oval o /\ r_back out = [] /\ res_received (r_res out) = [].
Proof. exact drop_future_spec. Qed.

Theorem c15_at_most_one_value : forall o, length (oval o) <= 1.
Proof. exact oval_at_most_one. Qed.

(* a send future's value is either with a receiver already (claimed: the future owns nothing) or
   destroyed by the drop - never both: conservation holds for the drop step like for every step *)
Theorem c15_delivered_or_dropped_never_both : forall a f, Inv a -> conserves a (LDropF f).
Proof. intros a f HI. apply astep_conserves. exact HI. Qed.

Theorem c15_consistent_afterwards : forall a f, Inv a -> Inv (fst (astep a (LDropF f))).
Proof. intros a f HI. apply astep_inv. exact HI. Qed.

Theorem c15_claimed_future_waits_for_its_peer :
  forall i s, In i sinits -> reach (snext actual_ords) i s -> safe s = true.
Proof. exact signal_protocol_safe. Qed.

Print Assumptions c15_drop_at_any_stage.
Print Assumptions c15_delivered_or_dropped_never_both.
Print Assumptions c15_consistent_afterwards.
Print Assumptions c15_claimed_future_waits_for_its_peer.

Example c15_witness :
  let ls := [LMkSend 5 0 1; LDropF 5; LMkSend 6 0 2; LPoll 6 0; LMkSend 7 0 3; LPoll 7 0; LDropF 6; LTryRecv 1;
             LDropF 7; LMkRecv 8 1; LPoll 8 0; LTrySend 0 4; LDropF 8]%N in
  map (fun o => (r_res o, r_drops o)) (snd (arun (init true 0) ls)) =
  [(RUnit, []); (RUnit, [1]); (RUnit, []); (RPending, []); (RUnit, []); (RPending, []); (RUnit, [2]); (ROkSome 3, []);
   (RUnit, []); (RUnit, []); (RPending, []); (ROkB true, []); (RUnit, [4])]%N.
Proof. vm_compute. reflexivity. Qed.
