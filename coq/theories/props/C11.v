(* C11 - disconnect happens exactly when the last handle of a side goes *)
From KV Require Import Base Chan Atomic.
From KV.proofs Require Import Inv StepInv Frames Closed.

(* on an open channel each count is 0 exactly when that side has no live handle *)
Theorem c11_count_zero_iff_no_handle : forall a,
  Inv a -> ~ closed a ->
  (send_count (ch a) = 0%N <-> count_side SSend (handles a) = 0%N) /\
  (recv_count (ch a) = 0%N <-> count_side SRecv (handles a) = 0%N).
Proof. exact sendclosed_only_without_senders. Qed.

(* a receive reports the send-side disconnect only when no sender handle is live AND the buffer is drained *)
Theorem c11_send_closed_only_after_last_sender_and_drained : forall a k h timed early,
  Inv a -> ~ closed a -> is_side a h SRecv = true -> fresh a k = true ->
  r_res (snd (step_recv_like a k h timed early)) = RErr ESendClosed ->
  count_side SSend (handles a) = 0%N /\ queue (ch a) = [].
Proof. exact recv_disconnect_iff. Qed.

(* a send reports the receive-side disconnect exactly when no receiver handle is live *)
Theorem c11_receive_closed_iff_no_receiver : forall a k h x kd,
  Inv a -> ~ closed a -> is_side a h SSend = true -> fresh a k = true ->
  (r_res (snd (step_send_like a k h x kd)) = RErr ERecvClosed <-> count_side SRecv (handles a) = 0%N).
Proof. exact send_disconnect_iff. Qed.

(* blocked peers are released: whenever a side's count is 0 nobody is left in the wait list *)
Theorem c11_no_waiter_survives_disconnect : forall b cap ls,
  let a := fst (arun (init b cap) ls) in
  send_count (ch a) = 0%N \/ recv_count (ch a) = 0%N -> wait_list (ch a) = [].
Proof. intros b cap ls. simpl. pose proof (reachable_inv b cap ls) as (_ & _ & HC). apply (i_closed _ _ HC). Qed.

Print Assumptions c11_count_zero_iff_no_handle.
Print Assumptions c11_send_closed_only_after_last_sender_and_drained.
Print Assumptions c11_receive_closed_iff_no_receiver.
Print Assumptions c11_no_waiter_survives_disconnect.

Example c11_witness :
  let ls := [LTrySend 0 7; LClone 0 2; LDropH 0; LTryRecv 1; LMkRecv 5 1; LPoll 5 1; LDropH 2; LPoll 5 1; LTryRecv 1]%N in
  map (fun o => (r_res o, r_wakes o)) (snd (arun (init true 1) ls)) =
  [(ROkB true, []); (RUnit, []); (RUnit, []); (ROkSome 7, []); (RUnit, []); (RPending, []);
   (RUnit, [1]); (RReadyErr EClosed, []); (RErr ESendClosed, [])]%N.
Proof. vm_compute. reflexivity. Qed.
