(* C12 - handle counts equal the number of live handles.
   Model note: counts are unbounded N; the code uses u32, so the statements are about
   executions with fewer than 2^32 live handles per side (mem::forget in a loop can exceed it).
   Conversions (to_sync/to_async/as_sync/as_async) are the identity on the model's handle
   table: the model has one handle object per Rust handle whatever its flavour. *)
From KV Require Import Base Chan Atomic.
From KV.proofs Require Import Inv StepInv Frames Closed.

(* on every reachable configuration: counts = live handles per side, or the channel is closed (both 0) *)
Theorem c12_counts_equal_live_handles : forall b cap ls,
  let a := fst (arun (init b cap) ls) in
  (send_count (ch a) = count_side SSend (handles a) /\ recv_count (ch a) = count_side SRecv (handles a)) \/
  closed a.
Proof. exact reachable_counts. Qed.

(* once closed, no clone, drop or any other operation revives the channel *)
Theorem c12_closed_never_revives : forall ls a, Inv a -> closed a -> closed (fst (arun a ls)).
Proof. exact closed_forever_run. Qed.

(* counts, capacity and the handle table change only through clone / drop / close *)
Theorem c12_only_handle_operations_change_counts : forall a l,
  Inv a -> handle_label l = false ->
  meta (fst (astep a l)) = meta a /\ handles (fst (astep a l)) = handles a.
Proof. exact astep_meta. Qed.

Print Assumptions c12_counts_equal_live_handles.
Print Assumptions c12_closed_never_revives.
Print Assumptions c12_only_handle_operations_change_counts.

Example c12_witness :
  let ls := [LClone 0 2; LClone 1 3; LClone 2 4; LDropH 0; LObs 1 OSenderCount; LClose 3; LClone 2 5; LObs 5 OSenderCount]%N in
  map r_res (snd (arun (init true 2) ls)) =
  [RUnit; RUnit; RUnit; RUnit; RNum 2; ROk; RUnit; RNum 0]%N.
Proof. vm_compute. reflexivity. Qed.
