(* C17 - the internal lock gives mutual exclusion, ordering and progress.
   Model: Mutex.v (any number of threads, every interleaving, any number of retries);
   tie to /repo: proofs/ShapeOk.v (mutex_shape_ok, atomic_sites_shape_ok: the shapes of
   mutex.rs and backoff.rs::spin_cond are the pinned ones), the orderings below are read
   from the regenerated gen/Gen_Sites.v, and H2 feeds every lock event of scheduled runs
   of the real crate to the extracted Mutex.mstep. *)
From KV Require Import Mem Mutex Sig.
From KV.gen Require Import Gen_Sites.
From KV.proofs Require Import MutexProof ShapeBase ShapeMutex ShapeSites.

Open Scope string_scope.
(* the CAS of try_lock and the four CAS transitions of lock (first attempt, and the retries of the three phases of
   spin_cond, inlined): the weakest of them *)
Definition lock_cas_success : ordering :=
  ord_meet_all (site_ord atomic_sites "mutex.RawMutexLock.RawMutex.try_lock" 0 ::
                map (site_ord atomic_sites "mutex.RawMutexLock.RawMutex.lock") [0; 1; 2; 3]).
Definition unlock_store : ordering := site_ord atomic_sites "mutex.RawMutexLock.RawMutex.unlock" 0.

(* the orderings written in the current source are strong enough for the hand-over *)
Theorem c17_orderings_in_source_suffice : mutex_ords_ok lock_cas_success unlock_store = true.
Proof. vm_compute. reflexivity. Qed.

Theorem c17_source_shape_is_the_modelled_one :
  skel_diff ["mutex."; "backoff."] (strip_table Gen_Skel.protocol_skeletons) (strip_table Expected.expected_protocol_skeletons) = [] /\
  list_eqb shape_eqb (map site_shape atomic_sites) (map site_shape Expected.expected_atomic_sites) = true.
Proof. split; [exact mutex_shape_ok|exact atomic_sites_shape_ok]. Qed.

Theorem c17_mutual_exclusion : forall tr s t1 t2,
  mrun lock_cas_success unlock_store minit tr = Some s -> m_pc s t1 = MHold -> m_pc s t2 = MHold -> t1 = t2.
Proof. exact (mutual_exclusion lock_cas_success unlock_store). Qed.

(* release on unlock, acquire on lock: whoever is inside owns the protected data *)
Theorem c17_critical_sections_are_ordered : forall tr s t,
  mrun lock_cas_success unlock_store minit tr = Some s -> m_pc s t = MHold -> access_safe s t = true.
Proof. intros tr s t. exact (handover lock_cas_success unlock_store tr s t c17_orderings_in_source_suffice). Qed.

Theorem c17_try_lock_never_waits : forall s t ok s',
  mstep lock_cas_success unlock_store s t (MTryLock ok) = Some s' ->
  (ok = true /\ m_pc s' t = MHold) \/ (ok = false /\ m_pc s' t = MIdle /\ m_flag s = true).
Proof. exact (try_lock_never_waits lock_cas_success unlock_store). Qed.

Theorem c17_lock_returns_only_with_the_lock : forall s t e s',
  m_pc s t = MSpin -> mstep lock_cas_success unlock_store s t e = Some s' ->
  m_pc s' t = MSpin \/ (e = MLockCas true /\ m_pc s' t = MHold).
Proof. exact (lock_returns_only_with_the_lock lock_cas_success unlock_store). Qed.

Theorem c17_lock_succeeds_once_the_holder_left : forall tr s t,
  mrun lock_cas_success unlock_store minit tr = Some s -> (forall x, m_pc s x <> MHold) -> m_pc s t <> MHold ->
  (exists s', mstep lock_cas_success unlock_store s t (MLockCas true) = Some s' /\ m_pc s' t = MHold) /\
  mstep lock_cas_success unlock_store s t (MLockCas false) = None.
Proof. exact (lock_succeeds_once_free lock_cas_success unlock_store). Qed.

Print Assumptions c17_orderings_in_source_suffice.
Print Assumptions c17_source_shape_is_the_modelled_one.
Print Assumptions c17_mutual_exclusion.
Print Assumptions c17_critical_sections_are_ordered.
Print Assumptions c17_try_lock_never_waits.
Print Assumptions c17_lock_returns_only_with_the_lock.
Print Assumptions c17_lock_succeeds_once_the_holder_left.

(* non-vacuity: three threads contend; the orderings matter (a relaxed unlock loses the data) *)
Example c17_witness :
  exists s, mrun lock_cas_success unlock_store minit
              [(1, MLockCas true); (2, MLockCas false); (3, MTryLock false); (2, MPause); (1, MAccess); (1, MUnlock);
               (2, MLockCas true); (2, MAccess)]%N = Some s /\ m_pc s 2%N = MHold /\ access_safe s 2%N = true.
Proof. eexists. split; [vm_compute; reflexivity|]. split; reflexivity. Qed.
Example c17_relaxed_unlock_is_not_enough :
  exists tr s, mrun Acquire Relaxed minit tr = Some s /\ m_pc s 2%N = MHold /\ access_safe s 2%N = false.
Proof. exact relaxed_unlock_loses_the_data. Qed.
