(* C19 - drain_into takes everything available, in order, and reports it exactly.
   The channel side is `Atomic.step_drain`; the caller's vector (previous contents, spare capacity,
   the `reserve` arithmetic in checked usize, pushes that may reallocate under any growth policy) is
   `Vec.drain_into_vec`.  H1 runs the crate with vectors of 0-2 previous elements and 0-3 spare
   places and compares (count, values appended, previous contents intact) with the model. *)
From Coq Require Import String.
From KV Require Import Base Chan Atomic Vec.
From KV.proofs Require Import Inv StepInv Fifo Drain VecDrain LockDiscipline.

(* on an open channel: appends exactly the pending sequence (buffer, then every blocked or pending
   sender, oldest first), returns its length, leaves nothing behind, destroys / hands back nothing *)
Theorem c19_takes_everything_in_order_and_counts_it : forall a h,
  Inv a -> is_side a h SRecv = true -> recv_count (ch a) <> 0%N ->
  exists a' ws,
    step_drain a h = (a', mkOut (RDrain (len (pending a)) (pending a)) [] ws []) /\
    pending a' = [] /\ queue (ch a') = [].
Proof. exact drain_spec. Qed.

(* channel and vector together, for every vector, every allocator growth policy and every reachable
   configuration: no usize underflow, the previous contents stay where they were, exactly the pending
   sequence is appended in order, and the count returned is the growth of the vector *)
Theorem c19_vector_keeps_previous_contents_and_count_is_number_appended : forall grow a h v,
  grows_enough grow -> vec_ok v ->
  Inv a -> is_side a h SRecv = true -> recv_count (ch a) <> 0%N ->
  exists a' ws n ys v',
    step_drain a h = (a', mkOut (RDrain n ys) [] ws []) /\
    drain_into_vec grow v n ys = Some (v', n) /\
    ys = pending a /\
    v_items v' = (v_items v ++ pending a)%list /\
    (len (v_items v') = len (v_items v) + n)%N /\
    firstn (length (v_items v)) (v_items v') = v_items v /\
    pending a' = [] /\ vec_ok v'.
Proof. exact drain_into_whole. Qed.

Theorem c19_releases_each_sender_with_success : forall a h k o,
  Inv a -> is_side a h SRecv = true -> recv_count (ch a) <> 0%N -> recv_blocking (ch a) = false ->
  In k (wait_list (ch a)) -> lookup k (objs a) = Some o ->
  exists o', lookup k (objs (fst (step_drain a h))) = Some o' /\ o_sig o' = SOk /\ o_val o' = None.
Proof. exact drain_releases_senders. Qed.

Theorem c19_closed_channel_takes_nothing : forall a h,
  is_side a h SRecv = true -> recv_count (ch a) = 0%N -> step_drain a h = (a, out_of (RErr EClosed)).
Proof. exact drain_closed. Qed.

(* it never blocks: one critical section, no wait on any signal (computed on the current source) *)
Theorem c19_never_blocks :
  forallb (fun fn => match has_event "wait"%string fn with Some false => true | _ => false end) nonblocking_fns = true /\
  undisciplined = [].
Proof. split; [exact nonblocking_never_wait|exact lock_discipline_holds]. Qed.

Print Assumptions c19_takes_everything_in_order_and_counts_it.
Print Assumptions c19_vector_keeps_previous_contents_and_count_is_number_appended.
Print Assumptions c19_releases_each_sender_with_success.
Print Assumptions c19_closed_channel_takes_nothing.
Print Assumptions c19_never_blocks.

Example c19_witness :
  let ls := [LTrySend 0 1; LMkSend 5 0 2; LPoll 5 0; LMkSend 6 0 3; LPoll 6 1; LDrain 1; LPoll 5 0; LObs 1 OLen]%N in
  map (fun o => (r_res o, r_wakes o)) (snd (arun (init true 1) ls)) =
  [(ROkB true, []); (RUnit, []); (RPending, []); (RUnit, []); (RPending, []); (RDrain 3 [1; 2; 3], [0; 1]);
   (RReadyOk, []); (RNum 0, [])]%N.
Proof. vm_compute. reflexivity. Qed.
