(* C05 - every message is destroyed exactly once, whatever path it takes. *)
From KV Require Import Base Chan Atomic.
From KV.proofs Require Import Inv StepInv Ledger LedgerCor.
From Coq Require Import Permutation.

(* per step, for every reachable configuration and every label: nothing appears or vanishes *)
Theorem c05_step_conservation : forall a l, Inv a -> conserves a l.
Proof. exact astep_conserves. Qed.

(* over whole executions: each offered value is received, destroyed, handed back or still held, exactly once *)
Theorem c05_destroyed_once : forall b cap ls,
  NoDup (offered_run (init b cap) ls) ->
  let '(a, os) := arun (init b cap) ls in
  NoDup (outs_received os ++ outs_dropped os ++ outs_back os ++ held a) /\
  (forall x, In x (outs_received os) -> In x (offered_run (init b cap) ls)) /\
  (forall x, In x (offered_run (init b cap) ls) ->
             In x (outs_received os) \/ In x (outs_dropped os) \/ In x (outs_back os) \/ In x (held a)).
Proof. exact exactly_once. Qed.

(* Option variants: the value is handed back exactly when the call reports failure *)
Theorem c05_option_back_on_failure : forall a h x opt,
  (exists e, r_res (snd (step_try_send a h x opt)) = RErr e) \/ r_res (snd (step_try_send a h x opt)) = ROkB false ->
  out_tags (snd (step_try_send a h x opt)) = [x] /\
  r_back (snd (step_try_send a h x opt)) = (if opt then [x] else []).
Proof. exact try_send_refused. Qed.

Theorem c05_option_taken_on_success : forall a h x opt,
  r_res (snd (step_try_send a h x opt)) = ROkB true -> out_tags (snd (step_try_send a h x opt)) = [].
Proof. exact try_send_accepted. Qed.

Print Assumptions c05_step_conservation.
Print Assumptions c05_destroyed_once.
Print Assumptions c05_option_back_on_failure.
Print Assumptions c05_option_taken_on_success.

(* non-vacuity: timed send that times out (destroyed once), option send refused (handed back) *)
Example c05_witness :
  let ls := [LSendTimeout 5 0 21; LTimeoutFire 5; LTrySendOpt 0 (Some 22); LMkSend 7 0 23; LPoll 7 1; LDropF 7]%N in
  outs_dropped (snd (arun (init true 0) ls)) = [21; 23]%N /\
  outs_back (snd (arun (init true 0) ls)) = [22]%N /\
  held (fst (arun (init true 0) ls)) = [].
Proof. vm_compute. auto. Qed.
