(* C03 - atomicity: concurrent results are explainable by an atomic channel.  PARTIAL.
   The full statement is a refinement "every fine-grained execution of the code has the results
   of some operation-level interleaving of Atomic.astep".  It is not mechanised as one theorem
   (it needs a whole-system fine-grained model and a commutation argument for polls that observe
   a claimed, not yet finished signal).  Mechanised are its three ingredients:
     (1) every entry point performs its state change in ONE critical section of the channel lock per
         phase (registration; cancellation after a timeout), never waits under the lock and never
         touches the protected data outside it: checked, with a proved checker, on the lock-discipline
         automata regenerated from the current source (LockDiscipline.v);
     (2) critical sections exclude each other and are ordered (C17, Mutex.v);
     (3) work done outside the lock touches only the private slot of a waiter that was taken
         off the list under the lock, by exactly one peer, race-free (C07, Sig.v);
     (4) composition of (2): any fine-grained interleaving of lock events, micro-operations on the
         protected data inside critical sections and private steps has exactly the final data and
         results of the execution in which every critical section runs atomically, in program order
         (Reduce.v, for any number of threads, any data and any micro-operations);
     (5) (4) instantiated with the atomic channel (AtomicReduce.v): threads that each run
         lock ; one Atomic.astep label ; unlock, interleaved lock event by lock event, end in the
         configuration and with the per-thread outputs of Atomic.arun on the labels in unlock order;
   and what a critical section does to the logical state is Atomic.astep (H1 correspondence).
   The composition is validated on every run by H2: the results of every scheduled execution of
   the real crate are searched for in the set of operation-level interleavings of Atomic.astep. *)
From KV Require Import Mem Mutex Sig.
From KV.gen Require Import Gen_Sites Gen_Skel.
From KV Require Import Reduce.
From KV Require Import Base Chan Atomic.
From KV.proofs Require Import LockDiscipline MutexProof SigProof ReduceProof AtomicReduce.
From Coq Require Import List NArith.
Import ListNotations.

(* on the lock-discipline automata of the current source: in no execution of any entry point is the lock taken
   while held, the protected data used without it, a signal waited for under it, a return made with it - and
   between two waits a call has at most one critical section *)
Theorem c03_partial_one_critical_section_per_entry_point : undisciplined = [].
Proof. exact lock_discipline_holds. Qed.

Theorem c03_partial_no_execution_violates_the_lock_discipline : forall f a l b c,
  In f Gen_Lock.lock_automata -> ld_run (snd f) a c -> (In (a, l, b) (snd f) -> violates l c = false) /\ snd c <= 1.
Proof. exact no_execution_violates_the_discipline. Qed.

Theorem c03_partial_critical_sections_exclude_each_other : forall o_s o_u tr s t1 t2,
  mrun o_s o_u minit tr = Some s -> m_pc s t1 = MHold -> m_pc s t2 = MHold -> t1 = t2.
Proof. exact mutual_exclusion. Qed.

Theorem c03_partial_outside_the_lock_only_the_claimed_signal :
  forall i s, In i sinits -> reach (snext actual_ords) i s -> safe s = true.
Proof. exact signal_protocol_safe. Qed.


Theorem c03_partial_critical_sections_are_atomic :
  forall (S L O : Type) (exec : O -> S -> L -> S * L) (o_s o_u : ordering) sh loc tr s',
  frun S L O exec o_s o_u (finit S L sh loc) tr = Some s' -> lock_free (f_m _ _ s') ->
  let c' := crun S L O exec (cinit S L sh loc) (ser L O o_s o_u minit [] tr) in
  c_sh _ _ c' = f_sh _ _ s' /\ forall u, c_loc _ _ c' u = f_loc _ _ s' u.
Proof. exact critical_sections_are_atomic. Qed.

Theorem c03_partial_serialisation_keeps_program_order :
  forall (S L O : Type) (exec : O -> S -> L -> S * L) (o_s o_u : ordering) sh loc tr s',
  frun S L O exec o_s o_u (finit S L sh loc) tr = Some s' -> lock_free (f_m _ _ s') ->
  forall t, cproj L O t (ser L O o_s o_u minit [] tr) = proj L O t tr.
Proof. exact serialisation_keeps_program_order. Qed.


(* the statement of C03 at the granularity of critical sections, for the atomic channel itself *)
Theorem c03_partial_lock_level_executions_are_atomic_runs : forall o_s o_u a0 tr s',
  (forall t e, In (t, e) tr -> forall g, e <> FLocal _ _ g) ->
  frun aconf (list out) label aexec o_s o_u (finit _ _ a0 (fun _ => [])) tr = Some s' ->
  lock_free (f_m _ _ s') ->
  let order := tagged (ser (list out) label o_s o_u minit [] tr) in
  f_sh _ _ s' = fst (arun a0 (map snd order)) /\
  forall t, f_loc _ _ s' t = outs_of t a0 order.
Proof. exact lock_level_executions_are_atomic_runs. Qed.
Print Assumptions c03_partial_one_critical_section_per_entry_point.
Print Assumptions c03_partial_no_execution_violates_the_lock_discipline.
Print Assumptions c03_partial_critical_sections_exclude_each_other.
Print Assumptions c03_partial_outside_the_lock_only_the_claimed_signal.

Example c03_witness :
  fn_ok ("two critical sections in one phase", [(0, "acquire", 1); (1, "release", 2); (2, "acquire", 3); (3, "release", 4); (4, "ret[]", 5)])%string = false
  /\ fn_ok ("registration, wait, cancellation", [(0, "acquire", 1); (1, "cs", 2); (2, "release", 3); (3, "wait", 4); (4, "acquire", 5); (5, "release", 6); (6, "ret[]", 7)])%string = true.
Proof. vm_compute. split; reflexivity. Qed.
Print Assumptions c03_partial_critical_sections_are_atomic.
Print Assumptions c03_partial_serialisation_keeps_program_order.

(* a queue as protected data, the last result as local data; thread 2 fails an attempt and pauses while
   thread 1 is between its two micro-operations; the serialisation puts thread 1's section first *)
Inductive qop := QPush (x : N) | QPop.
Definition qexec (o : qop) (q : list N) (l : N) : list N * N :=
  match o with QPush x => (q ++ [x], l) | QPop => match q with [] => ([], 0%N) | x :: r => (r, x) end end.
Example c03_reduce_witness :
  let tr := [(1, FLock N qop (MLockCas true)); (1, FOp N qop (QPush 7)); (2, FLock N qop (MLockCas false));
             (2, FLock N qop MPause); (2, FLocal N qop (fun _ => 9)); (1, FOp N qop (QPush 8)); (1, FLock N qop MUnlock);
             (2, FLock N qop (MLockCas true)); (2, FOp N qop QPop); (2, FLock N qop MUnlock)]%N in
  option_map (fun s => (f_sh _ _ s, f_loc _ _ s 1, f_loc _ _ s 2)%N)
     (frun (list N) N qop qexec Acquire Release (finit (list N) N [] (fun _ => 0%N)) tr) = Some ([8], 0, 7)%N
  /\ map fst (ser N qop Acquire Release minit [] tr) = [2; 1; 2]%N
  /\ (let c := crun (list N) N qop qexec (cinit (list N) N [] (fun _ => 0%N)) (ser N qop Acquire Release minit [] tr) in
      (c_sh _ _ c, c_loc _ _ c 1, c_loc _ _ c 2)%N) = ([8], 0, 7)%N.
Proof. vm_compute. repeat split. Qed.
Print Assumptions c03_partial_lock_level_executions_are_atomic_runs.

(* two threads on a rendezvous channel: thread 2 fails an attempt while thread 1 is inside; the results are those
   of the atomic run try_send ; try_recv *)
Example c03_lock_level_witness :
  let tr := [(1, FLock (list out) label (MLockCas true)); (2, FLock _ _ (MLockCas false)); (1, FOp _ _ (LTrySend 0 5));
             (1, FLock _ _ MUnlock); (2, FLock _ _ MPause); (2, FLock _ _ (MLockCas true)); (2, FOp _ _ (LTryRecv 1));
             (2, FLock _ _ MUnlock)]%N in
  option_map (fun s => (map r_res (f_loc _ _ s 1), map r_res (f_loc _ _ s 2))%N)
    (frun aconf (list out) label aexec Acquire Release (finit _ _ (init true 1) (fun _ => [])) tr)
  = Some ([ROkB true], [ROkSome 5])%N.
Proof. vm_compute. reflexivity. Qed.
