(* C03 - atomicity: concurrent results are explainable by an atomic channel.  PARTIAL.
   The full statement is a refinement "every fine-grained execution of the code has the results
   of some operation-level interleaving of Atomic.astep".  It is not mechanised as one theorem
   (it needs a whole-system fine-grained model and a commutation argument for polls that observe
   a claimed, not yet finished signal).  Mechanised are its three ingredients:
     (1) every entry point performs its state change in ONE critical section of the channel lock
         (computed on the lock profiles regenerated from the current source);
     (2) critical sections exclude each other and are ordered (C17, Mutex.v);
     (3) work done outside the lock touches only the private slot of a waiter that was taken
         off the list under the lock, by exactly one peer, race-free (C07, Sig.v);
   and what a critical section does to the logical state is Atomic.astep (H1 correspondence).
   The composition is validated on every run by H2: the results of every scheduled execution of
   the real crate are searched for in the set of operation-level interleavings of Atomic.astep. *)
From KV Require Import Mem Mutex Sig.
From KV.gen Require Import Gen_Sites Gen_Skel.
From KV.proofs Require Import LockProfile MutexProof SigProof.

Theorem c03_partial_one_critical_section_per_entry_point : offenders = [].
Proof. exact one_critical_section_per_entry_point. Qed.

Theorem c03_partial_critical_sections_exclude_each_other : forall o_s o_u tr s t1 t2,
  mrun o_s o_u minit tr = Some s -> m_pc s t1 = MHold -> m_pc s t2 = MHold -> t1 = t2.
Proof. exact mutual_exclusion. Qed.

Theorem c03_partial_outside_the_lock_only_the_claimed_signal :
  forall i s, In i sinits -> reach (snext actual_ords) i s -> safe s = true.
Proof. exact signal_protocol_safe. Qed.

Print Assumptions c03_partial_one_critical_section_per_entry_point.
Print Assumptions c03_partial_critical_sections_exclude_each_other.
Print Assumptions c03_partial_outside_the_lock_only_the_claimed_signal.

Example c03_witness : acquires ["acquire_internal"; "if x {"; "  drop(internal)"; "  acquire_internal"; "}"]%string = 2.
Proof. vm_compute. reflexivity. Qed.
