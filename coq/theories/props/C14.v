(* C14 - non-blocking operations never wait and tell the truth *)
From KV Require Import Base Chan Atomic Mem Mutex.
From KV.proofs Require Import Assoc Inv StepInv Ledger LedgerCor Ops LockDiscipline MutexProof.

(* never wait for a peer: no try_* / drain_into entry point of the current source contains a wait,
   and the model's steps never register a waiter *)
Theorem c14_no_wait_in_the_source :
  forallb (fun fn => match has_event "wait"%string fn with Some false => true | _ => false end) nonblocking_fns = true.
Proof. exact nonblocking_never_wait. Qed.

Theorem c14_try_send_never_registers : forall a h x opt,
  Inv a -> keys (objs (fst (step_try_send a h x opt))) = keys (objs a) /\
           (forall k, In k (wait_list (ch (fst (step_try_send a h x opt)))) -> In k (wait_list (ch a))).
Proof. exact try_send_never_registers. Qed.

Theorem c14_try_recv_never_registers : forall a h,
  Inv a -> keys (objs (fst (step_try_recv a h))) = keys (objs a) /\
           (forall k, In k (wait_list (ch (fst (step_try_recv a h)))) -> In k (wait_list (ch a))).
Proof. exact try_recv_never_registers. Qed.

(* tell the truth: refused => the value comes back and the channel is as it was (up to the lazy
   direction flag); accepted => the value is inside the channel or with a receiver *)
Theorem c14_refused_send_changes_nothing : forall a h x opt,
  Inv a -> r_res (snd (step_try_send a h x opt)) = ROkB false ->
  let a' := fst (step_try_send a h x opt) in
  queue (ch a') = queue (ch a) /\ wait_list (ch a') = wait_list (ch a) /\ objs a' = objs a /\
  handles a' = handles a /\ send_count (ch a') = send_count (ch a) /\ recv_count (ch a') = recv_count (ch a).
Proof. exact try_send_refused_changes_nothing. Qed.

Theorem c14_refused_send_returns_the_value : forall a h x opt,
  (exists e, r_res (snd (step_try_send a h x opt)) = RErr e) \/ r_res (snd (step_try_send a h x opt)) = ROkB false ->
  out_tags (snd (step_try_send a h x opt)) = [x] /\
  r_back (snd (step_try_send a h x opt)) = (if opt then [x] else []).
Proof. exact try_send_refused. Qed.

Theorem c14_accepted_send_keeps_the_value : forall a h x opt,
  r_res (snd (step_try_send a h x opt)) = ROkB true -> out_tags (snd (step_try_send a h x opt)) = [].
Proof. exact try_send_accepted. Qed.

(* realtime: one lock attempt, never the blocking acquisition; a taken lock means "not done" at once *)
Theorem c14_realtime_never_waits_for_the_lock :
  forallb (fun fn => match has_event "acquire"%string fn with Some false => true | _ => false end) realtime_fns = true /\
  (forall o_s o_u s t ok s', mstep o_s o_u s t (MTryLock ok) = Some s' ->
     (ok = true /\ m_pc s' t = MHold) \/ (ok = false /\ m_pc s' t = MIdle /\ m_flag s = true)).
Proof. split; [exact realtime_never_use_the_blocking_acquisition|exact try_lock_never_waits]. Qed.

Theorem c14_realtime_gives_up_when_busy : forall a h x,
  is_side a h SSend = true ->
  astep a (LTrySendRT h x true) = (a, mkOut (ROkB false) [x] [] []) /\
  astep a (LTrySendOptRT h (Some x) true) = (a, mkOut (ROkB false) [] [] [x]).
Proof. exact realtime_busy_gives_up. Qed.

Print Assumptions c14_no_wait_in_the_source.
Print Assumptions c14_try_send_never_registers.
Print Assumptions c14_try_recv_never_registers.
Print Assumptions c14_refused_send_changes_nothing.
Print Assumptions c14_refused_send_returns_the_value.
Print Assumptions c14_accepted_send_keeps_the_value.
Print Assumptions c14_realtime_never_waits_for_the_lock.
Print Assumptions c14_realtime_gives_up_when_busy.

Example c14_witness :
  let ls := [LTrySend 0 1; LTrySendOpt 0 (Some 2); LTrySendRT 0 3 true; LTryRecv 1; LTryRecvRT 1 true; LTryRecv 1]%N in
  map (fun o => (r_res o, r_drops o, r_back o)) (snd (arun (init true 1) ls)) =
  [(ROkB true, [], []); (ROkB false, [], [2]); (ROkB false, [3], []); (ROkSome 1, [], []); (ROkNone, [], []); (ROkNone, [], [])]%N.
Proof. vm_compute. reflexivity. Qed.
