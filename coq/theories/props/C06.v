(* C06 - progress: a blocked or pending operation always completes when it can.
   Stated as safety + bounded solo progress (what induction can carry): partial - the step
   from these statements to termination under a fair scheduler is the standard argument and is
   not mechanised.
   (1) wait list: whenever a side has no handle left, or the channel is closed, nobody is
       left in the wait list - every blocked / pending operation has been released (Atomic);
   (2) protocol: no parked owner is left without a wake-up once its peer is done; the peer's
       wake is at most 5 own steps with no loop (Sig.v: claimer_events has no cycle); an owner
       that observes state < LOCKED leaves its wait;
   (3) async: the waker woken is the one registered by the latest poll (Atomic: poll under
       the lock replaces the registered waker while the future is listed). *)
From KV Require Import Base Chan Atomic Mem Sig.
From KV.proofs Require Import Inv StepInv SigProof.

Theorem c06_no_waiter_left_behind : forall b cap ls,
  let a := fst (arun (init b cap) ls) in
  send_count (ch a) = 0%N \/ recv_count (ch a) = 0%N -> wait_list (ch a) = [].
Proof. intros b cap ls. simpl. pose proof (reachable_inv b cap ls) as (_ & _ & HC). apply (i_closed _ _ HC). Qed.

(* every unfinished registered waiter is in the wait list, where the next peer finds it *)
Theorem c06_unfinished_waiters_are_listed : forall b cap ls k o,
  let a := fst (arun (init b cap) ls) in
  lookup k (objs a) = Some o -> o_fst o = FWaiting -> o_sig o = SLocked -> In k (wait_list (ch a)).
Proof.
  intros b cap ls k o. simpl. intros Ho Hf Hs.
  pose proof (reachable_inv b cap ls) as (HO & _ & _).
  pose proof (i_obj _ _ _ _ HO k o Ho) as Hok. unfold obj_okb in Hok. rewrite Hf, Hs in Hok.
  destruct (mem k (wait_list (ch (fst (arun (init b cap) ls))))) eqn:E; [apply Assoc.mem_in; exact E|discriminate].
Qed.

Theorem c06_no_lost_wakeup :
  forall i s, In i sinits -> reach (snext actual_ords) i s ->
  ~ (s_o s = OParkLoop /\ s_c s = CDone /\ s_ptoken s = false).
Proof.
  intros i s Hi Hr (Ho & Hc & Hp). pose proof (signal_protocol_safe i s Hi Hr) as H.
  unfold safe in H. rewrite Ho, Hc, Hp in H. simpl in H.
  destruct (s_viol s); simpl in H; discriminate.
Qed.

(* a poll of a listed future with another waker registers that waker (so the peer wakes the latest one) *)
Theorem c06_latest_waker_registered : forall a f o w,
  o_fst o = FWaiting -> o_sig o = SLocked -> o_waker o <> Some w ->
  send_signal_exists (ch a) f = true ->
  poll_send a f o w = (put a f (set_waker o (Some w)), PPending, [], []).
Proof.
  intros a f o w Hf Hs Hw He. unfold poll_send. rewrite Hf, Hs, He.
  destruct (o_waker o) as [w'|]; [|reflexivity].
  destruct (N.eqb_spec w' w); [congruence|reflexivity].
Qed.

Print Assumptions c06_no_waiter_left_behind.
Print Assumptions c06_unfinished_waiters_are_listed.
Print Assumptions c06_no_lost_wakeup.
Print Assumptions c06_latest_waker_registered.

Example c06_witness :
  let ls := [LMkRecv 5 1; LPoll 5 1; LPoll 5 2; LRecv 6 1; LDropH 0]%N in
  map (fun o => (r_res o, r_wakes o)) (snd (arun (init true 0) ls)) =
  [(RUnit, []); (RPending, []); (RPending, []); (RBlocked, []); (RUnit, [2])]%N.
Proof. vm_compute. reflexivity. Qed.
