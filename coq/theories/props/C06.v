(* C06 - progress: a blocked or pending operation always completes when it can.
   Stated as safety + bounded solo progress (what induction can carry): partial - the step
   from these statements to termination under a fair scheduler is the standard argument and is
   not mechanised.
   (1) wait list: whenever a side has no handle left, or the channel is closed, nobody is
       left in the wait list - every blocked / pending operation has been released (Atomic);
   (2) protocol (SigLive.v, over every reachable protocol state): no parked owner is left without
       a wake-up once its peer is done; a peer that has claimed a signal is never blocked and is
       done after at most 7 own steps; once the peer is done the owner always has a genuine step
       (not a pause, not a spurious wake-up) until its wait has ended, and at most orank s of them (5 at most for the pinned source); a
       timed owner that nobody claims finishes within 6 genuine steps, the passing of the
       deadline being one of them;
   (2') atomic channel: the operation at the head of the wait list is completed, and its thread or
       latest waker woken, by the critical section of the next counterpart operation (every send
       kind runs cs_send, every receive kind cs_recv);
   (3) async: the waker woken is the one registered by the latest poll (Atomic: poll under
       the lock replaces the registered waker while the future is listed). *)
From KV Require Import Base Chan Atomic Mem Sig.
From KV.proofs Require Import Inv StepInv Cases Progress SigProof SigLive LockDiscipline.

Theorem c06_no_waiter_left_behind : forall b cap ls,
  let a := fst (arun (init b cap) ls) in
  send_count (ch a) = 0%N \/ recv_count (ch a) = 0%N -> wait_list (ch a) = [].
Proof. intros b cap ls. simpl. pose proof (reachable_inv b cap ls) as (_ & _ & HC). apply (i_closed _ _ HC). Qed.

(* every unfinished registered waiter is in the wait list, where the next peer finds it *)
Theorem c06_unfinished_waiters_are_listed : forall b cap ls k o,
  let a := fst (arun (init b cap) ls) in
  lookup k (objs a) = Some o -> o_fst o = FWaiting -> o_sig o = SLocked -> In k (wait_list (ch a)).
Proof.
  intros b cap ls k o. simpl. intros Ho Hf Hs.
  pose proof (reachable_inv b cap ls) as (HO & _ & _).
  pose proof (i_obj _ _ _ _ HO k o Ho) as Hok. unfold obj_okb in Hok. rewrite Hf, Hs in Hok.
  destruct (mem k (wait_list (ch (fst (arun (init b cap) ls))))) eqn:E; [apply Assoc.mem_in; exact E|discriminate].
Qed.

Theorem c06_no_lost_wakeup :
  forall i s, In i sinits -> reach (snext actual_ords) i s ->
  ~ (s_o s = OParkLoop /\ s_c s = CDone /\ s_ptoken s = false).
Proof.
  intros i s Hi Hr (Ho & Hc & Hp). pose proof (signal_protocol_safe i s Hi Hr) as H.
  unfold safe in H. rewrite Ho, Hc, Hp in H. simpl in H.
  destruct (s_viol s); simpl in H; discriminate.
Qed.

(* "a receive blocked on an empty channel completes once a send arrives", and the converse *)
Theorem c06_send_completes_first_blocked_receiver : forall a x k r,
  Inv a -> recv_count (ch a) <> 0%N -> recv_blocking (ch a) = true -> wait_list (ch a) = k :: r ->
  exists o, lookup k (objs a) = Some o /\ is_send o = false /\ o_sig o = SLocked /\
    cs_send a x = SCSent (mkConf (set_wait (ch a) r) (update k (fin_deliver o x) (objs a)) (handles a)) (wake_of o).
Proof. exact send_completes_first_blocked_receiver. Qed.

Theorem c06_recv_completes_first_blocked_sender : forall a k r,
  Inv a -> recv_count (ch a) <> 0%N -> recv_blocking (ch a) = false -> wait_list (ch a) = k :: r ->
  exists o y v a', lookup k (objs a) = Some o /\ is_send o = true /\ o_val o = Some y /\
    cs_recv a = RCGot v a' (wake_of o) /\
    lookup k (objs a') = Some (fin_take o) /\ wait_list (ch a') = r.
Proof. exact recv_completes_first_blocked_sender. Qed.

(* no entry point ever waits for a signal while it holds the channel lock (its peer needs the lock to release it),
   nor takes the lock while holding it: no self-inflicted deadlock, on every path of the current source *)
Theorem c06_no_wait_under_the_lock : forall f a l b c,
  In f Gen_Lock.lock_automata -> ld_run (snd f) a c -> (In (a, l, b) (snd f) -> violates l c = false) /\ snd c <= 1.
Proof. exact no_execution_violates_the_discipline. Qed.

(* progress of the hand-off: the peer never waits, the owner finishes on its own once the peer is done *)
Theorem c06_claiming_peer_never_blocks : forall i s,
  In i sinits -> reach (snext actual_ords) i s -> peer_busy s = true ->
  peer_next s <> [] /\ forall s', In s' (peer_next s) -> crank (s_c s') < crank (s_c s).
Proof. exact claiming_peer_never_blocks. Qed.

Theorem c06_owner_finishes_once_peer_is_done : forall i s,
  In i sinits -> reach (snext actual_ords) i s -> s_c s = CDone ->
  (s_o s = OEnded \/ own_next s <> []) /\
  forall s', In s' (own_next s) -> s_c s' = CDone /\ orank s' < orank s.
Proof. exact owner_finishes_once_peer_is_done. Qed.

Theorem c06_owner_steps_bounded : forall i s p,
  In i sinits -> reach (snext actual_ords) i s -> s_c s = CDone -> opath s p -> length p <= orank s.
Proof. exact owner_steps_bounded. Qed.

Theorem c06_timed_owner_alone_finishes : forall i s,
  In i sinits -> reach (snext actual_ords) i s -> alone_timed s = true ->
  (s_o s = OEnded \/ next3 s <> []) /\ forall s', In s' (next3 s) -> trank s' < trank s.
Proof. exact timed_owner_alone_finishes. Qed.

(* a poll of a listed future with another waker registers that waker (so the peer wakes the latest one) *)
Theorem c06_latest_waker_registered : forall a f o w,
  o_fst o = FWaiting -> o_sig o = SLocked -> o_waker o <> Some w ->
  send_signal_exists (ch a) f = true ->
  poll_send a f o w = (put a f (set_waker o (Some w)), PPending, [], []).
Proof.
  intros a f o w Hf Hs Hw He. unfold poll_send. rewrite Hf, Hs, He.
  destruct (o_waker o) as [w'|]; [|reflexivity].
  destruct (N.eqb_spec w' w); [congruence|reflexivity].
Qed.

Print Assumptions c06_no_waiter_left_behind.
Print Assumptions c06_unfinished_waiters_are_listed.
Print Assumptions c06_no_lost_wakeup.
Print Assumptions c06_latest_waker_registered.
Print Assumptions c06_send_completes_first_blocked_receiver.
Print Assumptions c06_recv_completes_first_blocked_sender.
Print Assumptions c06_no_wait_under_the_lock.
Print Assumptions c06_claiming_peer_never_blocks.
Print Assumptions c06_owner_finishes_once_peer_is_done.
Print Assumptions c06_owner_steps_bounded.
Print Assumptions c06_timed_owner_alone_finishes.

Example c06_witness :
  let ls := [LMkRecv 5 1; LPoll 5 1; LPoll 5 2; LRecv 6 1; LDropH 0]%N in
  map (fun o => (r_res o, r_wakes o)) (snd (arun (init true 0) ls)) =
  [(RUnit, []); (RPending, []); (RPending, []); (RBlocked, []); (RUnit, [2])]%N.
Proof. vm_compute. reflexivity. Qed.

(* the progress statements are not vacuous: many reachable states have a finished peer, a busy peer, a lonely
   timed owner, and some owner needs several genuine steps (the exact numbers depend on the orderings of the
   source and are not pinned) *)
Example c06_live_witness :
  (Nat.leb 50 (length dom2) && Nat.leb 50 (length (filter peer_busy reachable_set)) && Nat.leb 5 (length dom3)
   && Nat.leb 3 (fold_left Nat.max (map snd tab2) 0))%bool = true.
Proof. vm_compute. reflexivity. Qed.
