(* C09 - sync and async handles are interchangeable views of one channel.
   In the model a handle has a side and no flavour: a sync and an async handle of the same side
   are the same object, and to_sync / to_async / as_sync / as_async are the identity on the
   handle table (no label).  Waiters do have a kind (sync call, timed call, future, stream), one
   wait list holds them all, and `wake_of` dispatches on the waiter's own kind.  Hence every
   guarantee below quantifies over arbitrary mixtures of kinds on both sides.  That the real
   crate's two flavours behave as this one object is what H1 checks (every call is issued through
   the sync or the async view of the handle alternately, clones alternate flavours and convert in
   place) and what H2 checks (futures against blocked threads in both directions, cross-flavour
   clones under contention).  The layout claim behind `transmute` is rustc's size check plus
   these runs, not a theorem. *)
From KV Require Import Base Chan Atomic Mem Sig.
From KV.proofs Require Import Inv StepInv Ledger Fifo Closed SigProof.

(* delivery, ownership, ordering and the state invariant hold for every label, whatever the
   kinds of the waiters involved *)
Theorem c09_guarantees_hold_for_any_mixture : forall a l,
  Inv a -> Inv (fst (astep a l)) /\ conserves a l /\ fifo_ok a l.
Proof. intros a l HI. split; [apply astep_inv|split; [apply astep_conserves|apply astep_fifo]]; exact HI. Qed.

(* the hand-off protocol is safe for a sync, a timed and an async owner alike, against a peer of
   any kind: a parked thread released by an async peer, a pending future woken by a sync peer *)
Theorem c09_handoff_safe_for_every_pairing :
  forall i s, In i sinits -> reach (snext actual_ords) i s -> safe s = true.
Proof. exact signal_protocol_safe. Qed.

(* cloning (through either flavour) adds exactly one handle of the same side; counts follow *)
Theorem c09_clone_is_flavour_blind : forall b cap ls,
  let a := fst (arun (init b cap) ls) in
  (send_count (ch a) = count_side SSend (handles a) /\ recv_count (ch a) = count_side SRecv (handles a)) \/ closed a.
Proof. exact reachable_counts. Qed.

Print Assumptions c09_guarantees_hold_for_any_mixture.
Print Assumptions c09_handoff_safe_for_every_pairing.
Print Assumptions c09_clone_is_flavour_blind.

(* non-vacuity: a blocked sync sender released by a future's poll, and a pending future woken by a sync send *)
Example c09_witness :
  let ls := [LSend 5 0 1; LMkRecv 6 1; LPoll 6 0; LComplete 5; LMkRecv 7 1; LPoll 7 2; LSend 8 0 3; LPoll 7 2]%N in
  map (fun o => (r_res o, r_wakes o)) (snd (arun (init true 0) ls)) =
  [(RBlocked, []); (RUnit, []); (RReadyOkV 1, []); (ROk, []); (RUnit, []); (RPending, []); (ROk, [2]); (RReadyOkV 3, [])]%N.
Proof. vm_compute. reflexivity. Qed.
