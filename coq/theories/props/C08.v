(* C08 - capacity is respected: back-pressure and rendezvous *)
From KV Require Import Base Chan Atomic.
From KV.proofs Require Import Inv Cases StepInv Capacity.

Theorem c08_length_never_exceeds_capacity : forall b cap ls,
  let a := fst (arun (init b cap) ls) in (len (queue (ch a)) <= capacity (ch a))%N.
Proof. exact len_le_capacity. Qed.

Theorem c08_senders_wait_only_when_full_receivers_only_when_empty : forall b cap ls,
  let a := fst (arun (init b cap) ls) in
  wait_list (ch a) <> [] ->
  (recv_blocking (ch a) = false -> len (queue (ch a)) = capacity (ch a)) /\
  (recv_blocking (ch a) = true -> queue (ch a) = []).
Proof. exact waiters_coupling. Qed.

Theorem c08_try_send_refused_exactly_when_full_and_no_receiver : forall a h x opt,
  Inv a -> is_side a h SSend = true -> recv_count (ch a) <> 0%N ->
  (r_res (snd (step_try_send a h x opt)) = ROkB false <->
   (len (queue (ch a)) = capacity (ch a) /\ (recv_blocking (ch a) = false \/ wait_list (ch a) = []))).
Proof. exact try_send_refused_iff. Qed.

Theorem c08_unbounded_never_refuses_or_blocks : forall a x r,
  Inv a -> capacity (ch a) = usize_max -> (len (queue (ch a)) < usize_max)%N ->
  send_case a x r -> match r with SCFull _ => False | _ => True end.
Proof. exact unbounded_never_full. Qed.

Theorem c08_rendezvous : forall a k h x kd,
  Inv a -> capacity (ch a) = 0%N ->
  r_res (snd (step_send_like a k h x kd)) = ROk ->
  exists kr r o, recv_blocking (ch a) = true /\ wait_list (ch a) = kr :: r /\ lookup kr (objs a) = Some o /\
                 lookup kr (objs (fst (step_send_like a k h x kd))) = Some (fin_deliver o x).
Proof. exact rendezvous_direct. Qed.

Print Assumptions c08_length_never_exceeds_capacity.
Print Assumptions c08_senders_wait_only_when_full_receivers_only_when_empty.
Print Assumptions c08_try_send_refused_exactly_when_full_and_no_receiver.
Print Assumptions c08_unbounded_never_refuses_or_blocks.
Print Assumptions c08_rendezvous.

Example c08_witness :
  let ls := [LTrySend 0 1; LTrySend 0 2; LTrySend 0 3; LObs 0 OLen; LObs 0 OIsFull; LSend 9 0 4]%N in
  map r_res (snd (arun (init true 2) ls)) = [ROkB true; ROkB true; ROkB false; RNum 2; RBool true; RBlocked]%N.
Proof. vm_compute. reflexivity. Qed.
