(* Deadline.v - the clock side of the timed calls (send_timeout, send_option_timeout,
   recv_timeout + Signal::wait_timeout): which clock readings lead to a Timeout.
     deadline = Instant::now() + duration                (first reading t0)
     recv_timeout only: if nothing is available and Instant::now() > deadline -> Timeout at once
     wait_timeout: while Instant::now() < until { load; yield }   then the final load
   The model is the sequence of clock readings the call makes and where it leaves the loop;
   everything else about the timed calls is in Atomic.v (what moves) and Sig.v (the protocol).
   Shape pinned by proofs/ShapeSignal.v (`while Instant :: now () < until {`). *)
From Coq Require Import List NArith Lia.
Import ListNotations.

Inductive tpc :=
| TStart                       (* before the first reading *)
| TEarly (until : N)           (* recv_timeout: the early test is next *)
| TWait (until : N)            (* inside wait_timeout's loop: the next reading decides *)
| TExpired (until : N)         (* the loop was left: final load, is_terminated, cancel *)
| TTimeout (until : N)         (* Err(Timeout) returned *)
| TOther.                      (* completed / closed by a peer: not a timeout *)

Inductive tev :=
| Now (v : N)                  (* a clock reading *)
| PeerDone                     (* the signal is finished by a peer / nothing to wait for *)
| CancelOk.                    (* the cancel under the lock succeeded *)

Definition tstep (dur : N) (recv_early : bool) (s : tpc) (e : tev) : option tpc :=
  match s, e with
  | TStart, Now t0 => Some (if recv_early then TEarly (t0 + dur) else TWait (t0 + dur))
  | TEarly u, Now v => Some (if N.ltb u v then TTimeout u else TWait u)
  | TWait u, Now v => Some (if N.ltb v u then TWait u else TExpired u)
  | TWait u, PeerDone => Some TOther
  | TExpired u, PeerDone => Some TOther
  | TExpired u, CancelOk => Some (TTimeout u)
  | _, _ => None
  end.

Fixpoint trun (dur : N) (re : bool) (s : tpc) (tr : list tev) : option tpc :=
  match tr with
  | [] => Some s
  | e :: r => match tstep dur re s e with Some s1 => trun dur re s1 r | None => None end
  end.

Definition readings (tr : list tev) : list N :=
  flat_map (fun e => match e with Now v => [v] | _ => [] end) tr.
