(* Ptr.v - byte-level model of pointer.rs (KanalPtr) and of the sites in lib.rs / future.rs
   that must agree with it, over the size_of::<T>() decision trees regenerated from the source
   (gen/Gen_Ptr.v).  A value of T is its `sz` bytes; the KanalPtr word is 8 bytes that hold
   either the address of the owner's cell or the value itself in its first `sz` bytes. *)
From KV Require Export PtrBase.
From Coq Require Import Lia.

Definition ptr_size : N := 8.

(* ---------- evaluating the generated decision trees ---------- *)
Definition eval_cmp (c : pcmp) (a b : N) : bool :=
  match c with
  | CGt => N.ltb b a | CGe => N.leb b a | CLt => N.ltb a b | CLe => N.leb a b
  | CEq => N.eqb a b | CNe => negb (N.eqb a b)
  end.

Definition rhs_val (r : prhs) : N := match r with PtrSize => ptr_size | Zero => 0 end.

Fixpoint eval_tree (t : ptree) (sz : N) : option (list string) :=
  match t with
  | PLeaf a => Some a
  | PIf c r t1 t2 => if eval_cmp c sz (rhs_val r) then eval_tree t1 sz else eval_tree t2 sz
  | PUnsupported _ => None
  end.

(* the four size classes the comparisons can distinguish *)
Inductive szclass := ZST | Small | Exact | Big.
Definition class_of (sz : N) : szclass :=
  if N.eqb sz 0 then ZST else if N.ltb sz ptr_size then Small else if N.eqb sz ptr_size then Exact else Big.
Definition rep (c : szclass) : N := match c with ZST => 0 | Small => 4 | Exact => 8 | Big => 9 end.

Fixpoint site_tree (n : string) (l : list (string * ptree)) : option ptree :=
  match l with
  | [] => None
  | (m, t) :: r => if String.eqb n m then Some t else site_tree n r
  end.

(* ---------- meaning of the leaves ---------- *)
Open Scope string_scope.
Fixpoint strs_eqb (a b : list string) : bool :=
  match a, b with
  | [], [] => true
  | x :: r, y :: s => String.eqb x y && strs_eqb r s
  | _, _ => false
  end.

Inductive ctor := KAddr | KBitsOfTarget | KBitsOfValue | KUninit | KUnreachable.
Inductive rd := RZeroed | RThrough | RBits.
Inductive wr := WThrough | WBitsStore | WNothing.
Inductive tail := TCell | TSig.
Inductive futnew := FCell | FOwned.
Inductive setp := SetAddr | SetNone.

Definition sem_new_from (a : list string) : option ctor :=
  if strs_eqb a ["MaybeUninit::new"; "UnsafeCell::new"] then Some KAddr
  else if strs_eqb a ["store_as_kanal_ptr"; "UnsafeCell::new"] then Some KBitsOfTarget else None.
Definition sem_new_owned (a : list string) : option ctor :=
  if strs_eqb a ["unreachable"] then Some KUnreachable
  else if strs_eqb a ["store_as_kanal_ptr"; "UnsafeCell::new"; "forget"] then Some KBitsOfValue else None.
Definition sem_new_write (a : list string) : option ctor :=
  if strs_eqb a ["MaybeUninit::new"; "UnsafeCell::new"] then Some KAddr
  else if strs_eqb a ["MaybeUninit::uninit"; "UnsafeCell::new"] then Some KUninit else None.
Definition sem_new_unchecked (a : list string) : option ctor :=
  if strs_eqb a ["MaybeUninit::new"; "UnsafeCell::new"] then Some KAddr else None.
Definition sem_read (a : list string) : option rd :=
  if strs_eqb a ["zeroed"] then Some RZeroed
  else if strs_eqb a ["* self . 0 . get ().assume_init"; "ptr::read"] then Some RThrough
  else if strs_eqb a ["* self . 0 . get ().as_ptr"; "ptr::read"] then Some RBits else None.
Definition sem_write (a : list string) : option wr :=
  if strs_eqb a ["* self . 0 . get ().assume_init"; "ptr::write"] then Some WThrough
  else if strs_eqb a ["store_as_kanal_ptr"; "assign_word"; "forget"] then Some WBitsStore
  else if strs_eqb a ["forget"] then Some WNothing else None.
(* store_as_kanal_ptr: copies the value's bytes into a fresh word, or leaves it uninitialised for a ZST *)
Definition sem_store (a : list string) : option bool :=
  if strs_eqb a ["MaybeUninit::uninit"; "ret.as_mut_ptr"; "ptr::copy_nonoverlapping"] then Some true
  else if strs_eqb a ["MaybeUninit::uninit"] then Some false else None.
Definition sem_tail (a : list string) : option tail :=
  if strs_eqb a ["ret.assume_init"] then Some TCell else if strs_eqb a ["sig.assume_init"] then Some TSig else None.
Definition sem_futnew (a : list string) : option futnew :=
  if strs_eqb a ["MaybeUninit::new"] then Some FCell
  else if strs_eqb a ["KanalPtr::new_owned"; "MaybeUninit::uninit"] then Some FOwned else None.
Definition sem_setp (a : list string) : option setp :=
  if strs_eqb a ["data.as_mut_ptr"; "KanalPtr::new_unchecked"; "sig.set_ptr"] then Some SetAddr
  else if strs_eqb a [] then Some SetNone else None.
Definition sem_local_read (a : list string) : option tail :=
  if strs_eqb a ["data.as_ptr"; "ptr::read"] then Some TCell else if strs_eqb a ["sig.assume_init"] then Some TSig else None.
Definition sem_local_drop (a : list string) : option tail :=
  if strs_eqb a ["data.assume_init_drop"] then Some TCell else if strs_eqb a ["sig.load_and_drop"] then Some TSig else None.

Definition at_site {A} (sites : list (string * ptree)) (name : string) (sem : list string -> option A) (sz : N) : option A :=
  match site_tree name sites with
  | Some t => match eval_tree t sz with Some a => sem a | None => None end
  | None => None
  end.

(* ---------- byte-level state ---------- *)
Definition byte := N.
Inductive word := WAddr | WVal (bs : list byte) | WUninit.   (* address of the owner's cell / first sz bytes hold the value / nothing *)

(* KanalPtr::read *)
Definition do_read (r : rd) (w : word) (cell : option (list byte)) : option (list byte) :=
  match r with
  | RZeroed => Some []
  | RThrough => match w with WAddr => cell | _ => None end
  | RBits => match w with WVal bs => Some bs | _ => None end
  end.

(* KanalPtr::write d : new (word, cell) *)
Definition do_write (wa : wr) (storing : bool) (w : word) (cell : option (list byte)) (d : list byte)
  : option (word * option (list byte)) :=
  match wa with
  | WThrough => match w with WAddr => Some (w, Some d) | _ => None end
  | WBitsStore => if storing then Some (WVal d, cell) else None
  | WNothing => Some (w, cell)
  end.

Definition do_ctor (k : ctor) (storing : bool) (cell : option (list byte)) (d : option (list byte)) : option word :=
  match k with
  | KAddr => Some WAddr
  | KBitsOfTarget => match cell with Some v => if storing then Some (WVal v) else Some WUninit | None => None end
  | KBitsOfValue => match d with Some v => if storing then Some (WVal v) else Some WUninit | None => None end
  | KUninit => Some WUninit
  | KUnreachable => None
  end.

Section Paths.
  Variable sites : list (string * ptree).
  Variable sz : N.

  Definition storing := at_site sites "pointer.store_as_kanal_ptr" sem_store sz.
  Definition reading := at_site sites "pointer.KanalPtr.read" sem_read sz.
  Definition writing := at_site sites "pointer.KanalPtr.write" sem_write sz.

  Definition bind {A B} (o : option A) (f : A -> option B) : option B := match o with Some a => f a | None => None end.

  (* a blocked sync receiver: new_write_address_ptr(ret); the peer writes; the tail reads *)
  Definition path_sync_receiver (tail_site : string) (d : list byte) : option (list byte) :=
    bind storing (fun st =>
    bind (at_site sites "pointer.KanalPtr.new_write_address_ptr" sem_new_write sz) (fun k =>
    bind (do_ctor k st None None) (fun w0 =>
    bind writing (fun wa =>
    bind (do_write wa st w0 None d) (fun '(w1, cell1) =>
    bind (at_site sites tail_site sem_tail sz) (fun tl =>
    match tl with
    | TCell => cell1
    | TSig => bind reading (fun r => do_read r w1 cell1)
    end)))))).

  (* a blocked sync sender: new_from(&data); the peer reads *)
  Definition path_sync_sender (d : list byte) : option (list byte) :=
    bind storing (fun st =>
    bind (at_site sites "pointer.KanalPtr.new_from" sem_new_from sz) (fun k =>
    bind (do_ctor k st (Some d) None) (fun w0 =>
    bind reading (fun r => do_read r w0 (Some d))))).

  (* a pending async sender: SendFuture::new, then set_ptr at registration; the peer reads *)
  Definition path_async_sender (d : list byte) : option (list byte) :=
    bind storing (fun st =>
    bind (at_site sites "future.SendFuture.new#0" sem_futnew sz) (fun fn =>
    bind (match fn with
          | FCell => Some (WUninit, Some d)
          | FOwned => bind (at_site sites "pointer.KanalPtr.new_owned" sem_new_owned sz) (fun k =>
                      bind (do_ctor k st None (Some d)) (fun w => Some (w, None)))
          end) (fun '(w0, cell0) =>
    bind (at_site sites "future.SendFuture.Future.poll#0" sem_setp sz) (fun sp =>
    bind (match sp with
          | SetAddr => bind (at_site sites "pointer.KanalPtr.new_unchecked" sem_new_unchecked sz) (fun k => do_ctor k st cell0 None)
          | SetNone => Some w0 end) (fun w1 =>
    bind reading (fun r => do_read r w1 cell0)))))).

  (* an async sender that completes without waiting reads its own value back (read_local_data) *)
  Definition path_async_sender_local (d : list byte) : option (list byte) :=
    bind storing (fun st =>
    bind (at_site sites "future.SendFuture.new#0" sem_futnew sz) (fun fn =>
    bind (match fn with
          | FCell => Some (WUninit, Some d)
          | FOwned => bind (at_site sites "pointer.KanalPtr.new_owned" sem_new_owned sz) (fun k =>
                      bind (do_ctor k st None (Some d)) (fun w => Some (w, None)))
          end) (fun '(w0, cell0) =>
    bind (at_site sites "future.SendFuture.read_local_data#0" sem_local_read sz) (fun tl =>
    match tl with
    | TCell => cell0
    | TSig => bind reading (fun r => do_read r w0 cell0)
    end)))).

  (* a pending async receiver: default (uninitialised) word, set_ptr at registration; the peer writes; read_local_data *)
  Definition path_async_receiver (d : list byte) : option (list byte) :=
    bind storing (fun st =>
    bind (at_site sites "future.ReceiveFuture.Future.poll#0" sem_setp sz) (fun sp =>
    bind (match sp with
          | SetAddr => bind (at_site sites "pointer.KanalPtr.new_unchecked" sem_new_unchecked sz) (fun k => do_ctor k st None None)
          | SetNone => Some WUninit end) (fun w0 =>
    bind writing (fun wa =>
    bind (do_write wa st w0 None d) (fun '(w1, cell1) =>
    bind (at_site sites "future.ReceiveFuture.read_local_data#0" sem_local_read sz) (fun tl =>
    match tl with
    | TCell => cell1
    | TSig => bind reading (fun r => do_read r w1 cell1)
    end)))))).

  (* the drop paths read the same place the read paths do *)
  Definition drop_agrees : option bool :=
    bind (at_site sites "future.SendFuture.read_local_data#0" sem_local_read sz) (fun a =>
    bind (at_site sites "future.SendFuture.drop_local_data#0" sem_local_drop sz) (fun b =>
    bind (at_site sites "future.ReceiveFuture.read_local_data#0" sem_local_read sz) (fun c =>
    bind (at_site sites "future.ReceiveFuture.drop_local_data#0" sem_local_drop sz) (fun e =>
    Some (match a, b, c, e with TCell, TCell, TCell, TCell | TSig, TSig, TSig, TSig => true | _, _, _, _ => false end))))).
End Paths.
Close Scope string_scope.
