(* Reduce.v - C03, composition step: critical sections of the channel lock are atomic.
   A fine-grained system: any number of threads; each thread interleaves, event by event,
     - events of the lock protocol of Mutex.v (attempts, failed attempts, pauses, unlock),
     - micro-operations on the protected data (allowed only inside a critical section),
     - private computation on its own local data (anywhere).
   A coarse system: each thread executes whole *sections* (lists of items) atomically.
   Theorem: every fine-grained execution that ends with the lock free has exactly the final
   protected data and the final local data (hence every result returned to every caller) of the
   coarse execution [ser tr], in which every critical section runs atomically at the point of
   its unlock, and [ser tr] keeps every thread's program order.
   The only fact about the lock that the proof uses is the invariant MInv of MutexProof.v
   (at most one thread holds), which is proved there for the orderings of the source. *)
From KV Require Import Mem Mutex.
From Coq Require Import List Lia.
Import ListNotations.

Section Reduce.
  Variables (S L O : Type).
  Variable exec : O -> S -> L -> S * L.
  Variables (o_s o_u : ordering).

  Inductive item := IOp (o : O) | ILoc (g : L -> L).

  Inductive fevent :=
  | FLock (e : mevent)
  | FOp (o : O)
  | FLocal (g : L -> L).

  Record fstate := mkF { f_m : mstate; f_sh : S; f_loc : N -> L }.

  Definition updl (loc : N -> L) (t : N) (v : L) : N -> L := fun x => if N.eqb x t then v else loc x.

  Definition holds (m : mstate) (t : N) : bool := match m_pc m t with MHold => true | _ => false end.

  Definition fstep (s : fstate) (t : N) (e : fevent) : option fstate :=
    match e with
    | FLock MAccess => None
    | FLock me => match mstep o_s o_u (f_m s) t me with
                  | Some m' => Some (mkF m' (f_sh s) (f_loc s))
                  | None => None
                  end
    | FOp o => if holds (f_m s) t
               then let r := exec o (f_sh s) (f_loc s t) in Some (mkF (f_m s) (fst r) (updl (f_loc s) t (snd r)))
               else None
    | FLocal g => Some (mkF (f_m s) (f_sh s) (updl (f_loc s) t (g (f_loc s t))))
    end.

  Fixpoint frun (s : fstate) (tr : list (N * fevent)) : option fstate :=
    match tr with
    | [] => Some s
    | (t, e) :: r => match fstep s t e with Some s1 => frun s1 r | None => None end
    end.

  (* ---- the coarse system ---- *)
  Record cstate := mkC { c_sh : S; c_loc : N -> L }.

  Definition run_item (p : S * L) (i : item) : S * L :=
    match i with IOp o => exec o (fst p) (snd p) | ILoc g => (fst p, g (snd p)) end.

  Definition run_items (p : S * L) (is : list item) : S * L := fold_left run_item is p.

  Definition cstep (c : cstate) (sec : N * list item) : cstate :=
    let r := run_items (c_sh c, c_loc c (fst sec)) (snd sec) in
    mkC (fst r) (updl (c_loc c) (fst sec) (snd r)).

  Definition crun (c : cstate) (secs : list (N * list item)) : cstate := fold_left cstep secs c.

  (* ---- serialisation: sections are emitted at their unlock, private steps of the others at once ---- *)
  Fixpoint ser (m : mstate) (pend : list item) (tr : list (N * fevent)) : list (N * list item) :=
    match tr with
    | [] => []
    | (t, e) :: r =>
      match e with
      | FLock me =>
        match mstep o_s o_u m t me with
        | Some m' => if holds m t && negb (holds m' t) then (t, pend) :: ser m' [] r else ser m' pend r
        | None => []
        end
      | FOp o => ser m (pend ++ [IOp o]) r
      | FLocal g => if holds m t then ser m (pend ++ [ILoc g]) r else (t, [ILoc g]) :: ser m pend r
      end
    end.

  (* what thread t did, in its program order *)
  Fixpoint proj (t : N) (tr : list (N * fevent)) : list item :=
    match tr with
    | [] => []
    | (u, FOp o) :: r => if N.eqb u t then IOp o :: proj t r else proj t r
    | (u, FLocal g) :: r => if N.eqb u t then ILoc g :: proj t r else proj t r
    | _ :: r => proj t r
    end.

  Fixpoint cproj (t : N) (secs : list (N * list item)) : list item :=
    match secs with
    | [] => []
    | (u, is) :: r => if N.eqb u t then is ++ cproj t r else cproj t r
    end.

  Definition finit (sh : S) (loc : N -> L) : fstate := mkF minit sh loc.
  Definition cinit (sh : S) (loc : N -> L) : cstate := mkC sh loc.

  Definition lock_free (m : mstate) : Prop := forall t, holds m t = false.
End Reduce.
