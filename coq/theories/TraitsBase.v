(* TraitsBase.v - first-order types and explicit impls emitted by the translator *)
From Coq Require Export String List NArith Bool.
Export ListNotations.

Inductive ty :=
| TParam                              (* the message type T *)
| TApp (name : string) (args : list ty)
| TRawPtr (t : ty)
| TRef (t : ty).

Record timpl := mkImpl {
  i_type : string;
  i_trait : string;                   (* "Send" / "Sync" *)
  i_negative : bool;
  i_bounds : list string;             (* bounds on T *)
  i_where : list (ty * list string)   (* other where-predicates *)
}.
