(* Base.v - common vocabulary: ids, tags, association lists. Stdlib only. *)
From Coq Require Export List NArith Bool Lia Permutation.
Export ListNotations.

Definition tag := N.
Definition id := N.

Inductive side := SSend | SRecv.

Definition side_eqb (a b : side) : bool :=
  match a, b with SSend, SSend => true | SRecv, SRecv => true | _, _ => false end.

Lemma side_eqb_eq a b : side_eqb a b = true <-> a = b.
Proof. destruct a, b; simpl; split; congruence. Qed.

(* usize::MAX on the 64-bit targets the crate is verified for *)
Definition usize_max : N := 18446744073709551615%N.

(* ---- association lists keyed by N (first match wins) ---- *)
Section Assoc.
  Context {A : Type}.

  Fixpoint lookup (k : N) (l : list (N * A)) : option A :=
    match l with
    | [] => None
    | (k', v) :: r => if N.eqb k k' then Some v else lookup k r
    end.

  (* replace the first binding of k; no-op when k is unbound *)
  Fixpoint update (k : N) (v : A) (l : list (N * A)) : list (N * A) :=
    match l with
    | [] => []
    | (k', v') :: r => if N.eqb k k' then (k', v) :: r else (k', v') :: update k v r
    end.

  (* remove the first binding of k *)
  Fixpoint remove_key (k : N) (l : list (N * A)) : list (N * A) :=
    match l with
    | [] => []
    | (k', v') :: r => if N.eqb k k' then r else (k', v') :: remove_key k r
    end.
End Assoc.

(* remove the first occurrence of k in a list of ids *)
Fixpoint remove_first (k : N) (l : list N) : list N :=
  match l with
  | [] => []
  | x :: r => if N.eqb k x then r else x :: remove_first k r
  end.

Definition mem (k : N) (l : list N) : bool := existsb (N.eqb k) l.

Definition len {A} (l : list A) : N := N.of_nat (length l).
