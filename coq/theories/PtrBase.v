(* PtrBase.v - the type of size_of::<T>() decision trees emitted by the translator *)
From Coq Require Export String List NArith.
Export ListNotations.

Inductive pcmp := CGt | CGe | CLt | CLe | CEq | CNe.
Inductive prhs := PtrSize | Zero.

Inductive ptree :=
| PLeaf (actions : list string)
| PIf (c : pcmp) (r : prhs) (t e : ptree)
| PUnsupported (cond : string).
