(* h2check.ml - judges scheduled executions of the real crate (output of `kvharness h2`)
   with the extracted Coq models:
     A  every event on every signal is accepted by Sig.sstep (per-signal acceptor), never sets
        `viol`, and every state passed through is `safe`
     M  the lock events are accepted by Mutex.mstep; wait-list operations happen inside a
        critical section whose holder owns the protected data (access_safe)
     K  every API call takes the channel lock the number of times its kind allows
     O  the results of all calls are results of SOME operation-level interleaving of
        Atomic.astep (C03: explainable by an atomic channel)
   Glue (parsing, attribution of events to signals, search loops) is unverified OCaml. *)
open Kmodel

let rec pos_of_int i =
  if i = 1 then XH else if i land 1 = 0 then XO (pos_of_int (i lsr 1)) else XI (pos_of_int (i lsr 1))
let n_of_int i = if i = 0 then N0 else Npos (pos_of_int i)
let rec int_of_pos = function XH -> 1 | XO p -> 2 * int_of_pos p | XI p -> 2 * int_of_pos p + 1
let int_of_n = function N0 -> 0 | Npos p -> int_of_pos p

let ord_of_code = function
  | 0 -> Relaxed | 1 -> Release | 2 -> Acquire | 3 -> AcqRel | 4 -> SeqCst | _ -> Relaxed
let stv_of_int = function 0 -> V0 | 1 -> V1 | 2 -> V2 | _ -> V3

type ev = {
  step : int; tid : int; kind : string; loc : string; a : string; b : string;
  ord : int; ord2 : int; res : int; src : string; note : string list;
}

let parse_line (l : string) : ev option =
  match String.split_on_char ' ' l with
  | st :: t :: k :: rest when (match int_of_string_opt st, int_of_string_opt t with Some _, Some _ -> true | _ -> false) ->
    let step = int_of_string st and tid = int_of_string t in
    (match k, rest with
     | ("OPB" | "OPE" | "WAKE"), _ ->
       Some { step; tid; kind = k; loc = "-"; a = ""; b = ""; ord = 9; ord2 = 9; res = 0; src = ""; note = rest }
     | _, [ loc; a; b; o; o2; r; src ] ->
       Some { step; tid; kind = k; loc; a; b; ord = int_of_string o; ord2 = int_of_string o2;
              res = int_of_string r; src; note = [] }
     | _ -> None)
  | _ -> None

let sig_id loc = if String.length loc > 1 && loc.[0] = 'S' then int_of_string_opt (String.sub loc 1 (String.length loc - 1)) else None

(* ---------------- atomic sites of the source (gen/sites.tsv, written by kx) ---------------- *)
(* a source line can play several roles (a helper used by several entry functions) and a role can be played by
   several lines: all the (entry function, role) pairs of a line are kept *)
let sites : (string, string * int) Hashtbl.t = Hashtbl.create 64
let load_sites () =
  match Sys.getenv_opt "KV_SITES" with
  | None -> ()
  | Some p ->
    (try
       let ic = open_in p in
       (try while true do
            match String.split_on_char ' ' (String.trim (input_line ic)) with
            | [ file; line; fn; idx; _op ] ->
              let short = match List.rev (String.split_on_char '.' fn) with x :: _ -> x | [] -> fn in
              Hashtbl.add sites (file ^ ":" ^ line) (short, int_of_string idx)
            | _ -> ()
          done with End_of_file -> close_in ic)
     with Sys_error _ -> ())

(* which sites may produce the next owner / peer event in a protocol state *)
let owner_site_ok (s : sigst) (fn, idx) : bool =
  match s.s_o, fn, idx with
  | OWait, "wait", 0 -> true
  | OCasReady, "wait", 2 -> true
  | OParked, "wait", 3 -> true
  | OTimed, "wait_timeout", (0 | 2) -> true
  | OTimedFinal, "wait_timeout", 1 -> true
  | OTimedFalse, "is_terminated", 0 -> true
  | APending, "poll", 0 -> true
  | ABlocking, "async_blocking_wait", 0 -> true
  | _ -> false
let peer_site_ok (s : sigst) (fn, idx) : bool =
  match s.s_c, fn, idx with
  | CKindRead, ("send" | "send_copy" | "recv" | "terminate"), 0 -> true
  | CWakerRead, ("send" | "send_copy" | "recv" | "terminate"), 2 -> s.s_fl = FlSync
  | CWakerRead, ("send" | "send_copy" | "recv" | "terminate"), 1 -> s.s_fl = FlAsync
  | _ -> false

(* ---------------- coverage of the protocol model by the accepted traces ---------------- *)
let str_opc = function
  | OPriv -> "OPriv" | OWait -> "OWait" | OLow _ -> "OLow" | OCasReady -> "OCasReady" | OParkLoop -> "OParkLoop"
  | OParked -> "OParked" | OTimed -> "OTimed" | OTimedFinal -> "OTimedFinal" | OTimedFalse -> "OTimedFalse"
  | OCancelling -> "OCancelling" | APending -> "APending" | ABlocking -> "ABlocking" | ORet _ -> "ORet" | OEnded -> "OEnded"
let str_cpc = function
  | CNone -> "CNone" | CClaimed -> "CClaimed" | CSlotDone -> "CSlotDone" | CKindRead -> "CKindRead" | CCasFailed -> "CCasFailed"
  | CWakerRead -> "CWakerRead" | CStored -> "CStored" | CDone -> "CDone"
let covered : (string, unit) Hashtbl.t = Hashtbl.create 256
let fl_name s = match s.s_fl, s.s_timed with FlAsync, _ -> "async" | FlSync, true -> "timed" | FlSync, false -> "sync"

(* ---------------- per-signal acceptor ---------------- *)
type sigrec = { owner : int; mutable st : sigst; mutable dead : bool }

let str_sev = function
  | EPublish -> "Publish" | EWakerWrite -> "WakerWrite" | EWakerReadOwner -> "WakerReadOwner"
  | EReRegister -> "ReRegister" | EStartBlocking -> "StartBlocking" | ELoad _ -> "Load" | EFence _ -> "Fence"
  | ECasO _ -> "CasOwner" | EPause -> "Pause" | EDeadline -> "Deadline" | EPark _ -> "Park" | ECancel b -> if b then "CancelOk" else "CancelFail"
  | ESlotOwner -> "SlotOwner" | EEnd -> "End" | EClaim _ -> "Claim" | ESlotC -> "SlotPeer" | EKind -> "WakerKind"
  | ECasC _ -> "CasPeer" | EWakerReadC -> "WakerReadPeer" | EStoreC _ -> "StorePeer" | EUnpark -> "Unpark" | EWakeCall -> "WakeCall"

let check_signals (evs : ev array) : string option * string option =
  let sigs : (int, sigrec) Hashtbl.t = Hashtbl.create 8 in
  let last_sig = Hashtbl.create 8 in
  let cur_op = Hashtbl.create 8 in
  let err = ref None in
  let site_err = ref None in
  let duration : (int, int) Hashtbl.t = Hashtbl.create 8 in
  let deadline : (int, int) Hashtbl.t = Hashtbl.create 8 in
  let fail i n e why =
    if !err = None then
      err := Some (Printf.sprintf "step=%d thread=%d signal=S%d event=%s src=%s: %s" evs.(i).step evs.(i).tid n (str_sev e) evs.(i).src why) in
  (* the role mapping (which source site plays which role of the model) is validated separately: a mismatch does
     not reject the trace - the events themselves, with the orderings actually passed, are what the model judges *)
  let site_check i n (e : ev) (own : bool) : unit =
    match Hashtbl.find_opt sigs n, Hashtbl.find_all sites e.src with
    | None, _ -> ()
    | Some _, [] ->
      if !site_err = None then site_err := Some (Printf.sprintf "step=%d thread=%d signal=S%d src=%s: atomic operation at a site unknown to the translated site table" e.step e.tid n e.src)
    | Some r, (site :: _ as all) ->
      let ok = List.exists (fun st -> if own then owner_site_ok r.st st else peer_site_ok r.st st) all in
      if not ok && not r.dead && !site_err = None then
        site_err := Some (Printf.sprintf "step=%d thread=%d signal=S%d src=%s: %s#%d is not the site that plays this role in the pinned mapping"
                            e.step e.tid n e.src (fst site) (snd site)) in
  (* a timed owner's load: the deadline has silently passed before it when what follows in that thread is not the
     continuation of the spin loop (a fence after a low value, the next clock reading / yield, or the same load again) *)
  let deadline_before_load i n (e : ev) =
    match Hashtbl.find_opt sigs n with
    | Some r when r.st.s_o = OTimed && not r.dead ->
      let next = ref None in
      (try for j = i + 1 to Array.length evs - 1 do
           let f = evs.(j) in
           if f.tid = e.tid && f.kind <> "OPB" then begin
             next := Some (if f.kind = "LOAD" && f.src = e.src then "SAME" else f.kind); raise Exit end
         done with Exit -> ());
      (match !next with
       | Some ("FENCE" | "NOW" | "YIELD" | "SLEEP" | "SAME") -> ()
       | _ ->
         (match sstep r.st EDeadline with
          | Some s1 ->
            Hashtbl.replace covered (Printf.sprintf "%s/%s/%s/Deadline" (fl_name r.st) (str_opc r.st.s_o) (str_cpc r.st.s_c)) ();
            r.st <- s1
          | None -> ()))
    | _ -> () in

  let apply i n (e : sev) ~(optional : bool) =
    match Hashtbl.find_opt sigs n with
    | None -> ()
    | Some r ->
      (* the wake-up itself touches no signal memory (the waker was copied out before the final store),
         so it may follow the owner's end; the model decides *)
      if r.dead && e <> EWakeCall && e <> EUnpark then (if not optional then fail i n e "event on a signal whose owner already ended it")
      else begin
        let res = sstep r.st e in
        match res with
        | Some s' ->
          Hashtbl.replace covered (Printf.sprintf "%s/%s/%s/%s" (fl_name r.st) (str_opc r.st.s_o) (str_cpc r.st.s_c) (str_sev e)) ();
          r.st <- s';
          if s'.s_viol then fail i n e "access without its ownership token (data race / access after the owner is gone)"
          else if not (safe s') then fail i n e "protocol state not safe (lost wake-up or wrong result)"
        | None -> if not optional then fail i n e "the protocol model does not allow this event here"
      end in
  Array.iteri (fun i e ->
      if !err = None then begin
        (match e.kind with
         | "OPB" ->
           Hashtbl.replace cur_op e.tid (match e.note with o :: _ -> o | [] -> "");
           (* the duration of a timed call; its deadline is the first clock reading of the call plus it *)
           Hashtbl.remove deadline e.tid;
           (match e.note with
            | ("sendto" | "sendoptto") :: _ :: d :: _ | "recvto" :: d :: _ ->
              (match int_of_string_opt d with Some d -> Hashtbl.replace duration e.tid d | None -> Hashtbl.remove duration e.tid)
            | _ -> Hashtbl.remove duration e.tid)
         | "NOW" ->
           (match Hashtbl.find_opt duration e.tid, Hashtbl.find_opt deadline e.tid with
            | Some d, None -> Hashtbl.replace deadline e.tid (e.res + d)
            | _ -> ())
         | _ -> ());
        let sid = sig_id e.loc in
        (match sid with Some n -> Hashtbl.replace last_sig e.tid n | None -> ());
        let ls = Hashtbl.find_opt last_sig e.tid in
        let is_owner n = match Hashtbl.find_opt sigs n with Some r -> r.owner = e.tid | None -> false in
        match e.kind, e.a, sid with
        | "ACC", "publish", Some n ->
          let op = try Hashtbl.find cur_op e.tid with Not_found -> "" in
          let fl, timed = match op with
            | "poll" | "dropf" | "teardown" -> FlAsync, false
            | "sendto" | "sendoptto" | "recvto" -> FlSync, true
            | _ -> FlSync, false in
          Hashtbl.replace sigs n { owner = e.tid; st = sinit fl timed; dead = false };
          if fl = FlAsync then apply i n EWakerWrite ~optional:false;
          apply i n EPublish ~optional:false
        | "ACC", "end", Some n -> if is_owner n then begin apply i n EEnd ~optional:false;
            (match Hashtbl.find_opt sigs n with Some r -> r.dead <- true | None -> ()) end
        | "ACC", "claim", Some n ->
          (* what the claiming thread does next with this signal tells the kind of claim *)
          let k = ref CTerm in
          (try for j = i + 1 to Array.length evs - 1 do
               let f = evs.(j) in
               if f.tid = e.tid && sig_id f.loc = Some n && f.kind = "ACC" then begin
                 (match f.a with "slot_write" -> k := CSend | "slot_read" -> k := CRecv | _ -> k := CTerm);
                 raise Exit end
             done with Exit -> ());
          apply i n (EClaim !k) ~optional:false
        | "ACC", "cancel_ok", Some n -> apply i n (ECancel true) ~optional:false
        | "ACC", "cancel_fail", Some n -> apply i n (ECancel false) ~optional:false
        | "ACC", "still_listed", Some _ -> ()
        | "ACC", "not_listed", Some n -> apply i n EStartBlocking ~optional:false
        | "ACC", "waker_write", Some n -> if is_owner n then
            (match Hashtbl.find_opt sigs n with
             | Some r when r.st.s_fl = FlAsync -> apply i n EReRegister ~optional:false
             | _ -> apply i n EWakerWrite ~optional:false)
        | "ACC", "waker_read", Some n -> apply i n (if is_owner n then EWakerReadOwner else EWakerReadC) ~optional:false
        | "ACC", "waker_kind", Some n -> apply i n EKind ~optional:false
        | "ACC", ("slot_read" | "slot_write"), Some n -> apply i n (if is_owner n then ESlotOwner else ESlotC) ~optional:false
        | "LOAD", _, Some n ->
          if is_owner n then deadline_before_load i n e;
          if Hashtbl.length sites > 0 then site_check i n e (is_owner n);
          if is_owner n then apply i n (ELoad (ord_of_code e.ord, stv_of_int e.res)) ~optional:false
          else fail i n (ELoad (ord_of_code e.ord, stv_of_int e.res)) "a peer loads the state of a signal it does not own"
        | "CAS", "65535", Some n ->
          fail i n EKind "an unconditional read-modify-write (swap / fetch_*) on the signal state is not an operation of the protocol model"
        | "CAS", _, Some n ->
          if Hashtbl.length sites > 0 then site_check i n e (is_owner n);
          let ok = e.res >= 256 in
          if is_owner n then apply i n (ECasO (ord_of_code e.ord, ord_of_code e.ord2, ok, stv_of_int (e.res land 255))) ~optional:false
          else apply i n (ECasC (ord_of_code e.ord, ord_of_code e.ord2, ok)) ~optional:false
        | "STORE", _, Some n ->
          if Hashtbl.length sites > 0 then site_check i n e (is_owner n);
          if is_owner n then fail i n (EStoreC (ord_of_code e.ord)) "the owner stores to its own signal state"
          else apply i n (EStoreC (ord_of_code e.ord)) ~optional:false
        | "FENCE", _, _ -> (match ls with Some n when is_owner n -> apply i n (EFence (ord_of_code e.ord)) ~optional:true | _ -> ())
        | "PARK", _, _ -> (match ls with Some n when is_owner n -> apply i n (EPark (e.res = 1)) ~optional:false | _ -> ())
        | "UNPARK", _, _ -> (match ls with Some n -> apply i n EUnpark ~optional:false | None -> ())
        | "WAKE", _, _ -> (match ls with Some n -> apply i n EWakeCall ~optional:false | None -> ())
        | "NOW", _, _ ->
          (match ls with
           | Some n when is_owner n ->
             (* a clock reading at or past the deadline: the timed loop is left here, the final load comes next *)
             let past = match Hashtbl.find_opt deadline e.tid with Some dl -> e.res >= dl | None -> false in
             (match Hashtbl.find_opt sigs n with
              | Some r when past && r.st.s_o = OTimed && not r.dead ->
                (match sstep r.st EDeadline with
                 | Some s1 ->
                   Hashtbl.replace covered (Printf.sprintf "%s/%s/%s/Deadline" (fl_name r.st) (str_opc r.st.s_o) (str_cpc r.st.s_c)) ();
                   r.st <- s1
                 | None -> ())
              | _ -> apply i n EPause ~optional:true)
           | _ -> ())
        | ("YIELD" | "SLEEP"), _, _ -> (match ls with Some n when is_owner n -> apply i n EPause ~optional:true | _ -> ())
        | _ -> ()
      end) evs;
  (!err, !site_err)

(* ---------------- lock acceptor ---------------- *)
let check_mutex (evs : ev array) : string option =
  let st = ref minit in
  let err = ref None in
  let cur_op = Hashtbl.create 8 in
  let o_s = ref Acquire and o_u = ref Release in
  Array.iter (fun e ->
      if !err = None then begin
        (match e.kind with "OPB" -> Hashtbl.replace cur_op e.tid (match e.note with o :: _ -> o | [] -> "") | _ -> ());
        let t = n_of_int e.tid in
        let step ev why =
          match mstep !o_s !o_u !st t ev with
          | Some s' -> st := s'
          | None -> err := Some (Printf.sprintf "step=%d thread=%d src=%s: %s" e.step e.tid e.src why) in
        if String.length e.loc > 0 && e.loc.[0] = 'L' then begin
          match e.kind with
          | "CAS" when e.a = "65535" ->
            err := Some (Printf.sprintf "step=%d thread=%d src=%s: an unconditional read-modify-write (swap / fetch_*) on the lock word is not an operation of the lock model" e.step e.tid e.src)
          | "CAS" ->
            o_s := ord_of_code e.ord;
            let ok = e.res >= 256 in
            let op = try Hashtbl.find cur_op e.tid with Not_found -> "" in
            if op = "trysendrt" || op = "tryrecvrt" then step (MTryLock ok) "try_lock event not allowed by the lock model"
            else step (MLockCas ok) "lock CAS not allowed by the lock model (CAS outcome inconsistent with the flag, or thread already inside)"
          | "STORE" -> o_u := ord_of_code e.ord; step MUnlock "unlock by a thread that is not inside the critical section"
          | _ -> err := Some (Printf.sprintf "step=%d thread=%d src=%s: unexpected %s on the lock word" e.step e.tid e.src e.kind)
        end
        else if e.kind = "ACC" && (match e.a with "claim" | "cancel_ok" | "cancel_fail" | "still_listed" | "not_listed" | "publish" -> true | _ -> false) then begin
          (match mstep !o_s !o_u !st t MAccess with
           | Some _ ->
             if not (access_safe !st t) then
               err := Some (Printf.sprintf "step=%d thread=%d src=%s: wait-list access inside a critical section whose holder does not own the protected data (unlock/lock orderings do not hand it over)" e.step e.tid e.src)
           | None -> err := Some (Printf.sprintf "step=%d thread=%d src=%s: wait-list operation (%s) outside the channel lock" e.step e.tid e.src e.a))
        end
        else if e.kind = "ACC" && e.a = "waker_write" && sig_id e.loc <> None then begin
          (* replacing the waker of a published signal is allowed only under the lock (async) or
             by a sync owner before its CAS; the per-signal acceptor handles the latter *)
          ()
        end
      end) evs;
  !err

(* async re-registration of a waker must happen while the owner holds the lock *)
let check_waker_under_lock (evs : ev array) : string option =
  let holder = ref (-1) in
  let err = ref None in
  let cur_op = Hashtbl.create 8 in
  Array.iter (fun e ->
      (match e.kind with "OPB" -> Hashtbl.replace cur_op e.tid (match e.note with o :: _ -> o | [] -> "") | _ -> ());
      if String.length e.loc > 0 && e.loc.[0] = 'L' then begin
        if e.kind = "CAS" && e.res >= 256 then holder := e.tid;
        if e.kind = "STORE" then holder := -1
      end;
      if !err = None && e.kind = "ACC" && e.a = "waker_write" && sig_id e.loc <> None then begin
        let op = try Hashtbl.find cur_op e.tid with Not_found -> "" in
        if op = "poll" && !holder <> e.tid then
          err := Some (Printf.sprintf "step=%d thread=%d src=%s: the waker of a published signal is replaced outside the channel lock" e.step e.tid e.src)
      end) evs;
  !err

(* ---------------- lock acquisitions per call ---------------- *)
(* how many times a call of this kind takes the channel lock: `base` acquisitions for its own
   critical section, plus one for every cancel / still-listed look-up it performs *)
let base_locks (op : string) : int list option =
  match op with
  | "send" | "recv" | "trysend" | "tryrecv" | "drain" | "close" | "len" | "scount" | "rcount" | "isclosed"
  | "isterm" | "isdisc" | "isempty" | "isfull"
  | "sendto" | "sendoptto" | "recvto" | "drops" | "dropr" -> Some [ 1 ]
  | "trysendrt" | "tryrecvrt" -> Some [ 0; 1 ]
  | "poll" -> Some [ 0; 1 ]
  | "dropf" -> Some [ 0 ]
  | "mksend" | "mkrecv" | "mkstream" -> Some [ 0 ]
  | "clones" | "cloner" -> Some [ 2 ]
  | _ -> None

let check_lock_counts (evs : ev array) : string option =
  let cur = Hashtbl.create 8 in
  let err = ref None in
  Array.iter (fun e ->
      if !err = None then
        match e.kind with
        | "OPB" -> Hashtbl.replace cur e.tid ((match e.note with o :: _ -> o | [] -> ""), 0, e.step, 0)
        | "CAS" when String.length e.loc > 0 && e.loc.[0] = 'L' && e.res >= 256 ->
          (match Hashtbl.find_opt cur e.tid with Some (o, n, s, x) -> Hashtbl.replace cur e.tid (o, n + 1, s, x) | None -> ())
        | "ACC" when (match e.a with "cancel_ok" | "cancel_fail" | "still_listed" | "not_listed" -> true | _ -> false) ->
          (match Hashtbl.find_opt cur e.tid with Some (o, n, s, x) -> Hashtbl.replace cur e.tid (o, n, s, x + 1) | None -> ())
        | "OPE" ->
          (match Hashtbl.find_opt cur e.tid with
           | Some (o, n, s, x) ->
             (match base_locks o with
              | Some al ->
                let al = List.map (fun b -> b + x) al in
                if not (List.mem n al) then
                  err := Some (Printf.sprintf "thread=%d call '%s' (begun at step %d) took the channel lock %d times; its kind allows %s (one critical section, plus one per cancel / listed look-up)"
                                 e.tid o s n (String.concat " or " (List.map string_of_int al)))
              | None -> ());
             Hashtbl.remove cur e.tid
           | None -> ())
        | _ -> ()) evs;
  !err

(* ---------------- outcome explainable by the atomic channel (C03) ---------------- *)
let str_err = function
  | EClosed -> "closed" | ESendClosed -> "sendclosed" | ERecvClosed -> "recvclosed" | ETimeout -> "timeout"

let str_result (o : out) : string =
  let base = match o.r_res with
    | ROk -> "ok" | ROkB b -> if b then "ok:true" else "ok:false"
    | ROkV x -> "ok:" ^ string_of_int (int_of_n x)
    | ROkSome x -> "ok:some:" ^ string_of_int (int_of_n x) | ROkNone -> "ok:none"
    | RErr e -> "err:" ^ str_err e | RPending -> "pending" | RReadyOk -> "ready:ok"
    | RReadyOkV x -> "ready:ok:" ^ string_of_int (int_of_n x) | RReadyErr e -> "ready:err:" ^ str_err e
    | RSome x -> "some:" ^ string_of_int (int_of_n x) | RNone -> "none" | RPanic -> "panic"
    | RNum n -> "n:" ^ string_of_int (int_of_n n) | RBool b -> if b then "b:true" else "b:false"
    | RDrain (n, l) -> "drain:" ^ string_of_int (int_of_n n) ^ ":[" ^ String.concat "," (List.map (fun x -> string_of_int (int_of_n x)) l) ^ "]"
    | RBlocked -> "blocked" | RUnit -> "unit" | RInvalid -> "invalid" | RHang -> "hang" in
  base

type tstate = { pc : int; sub : int; (* progress inside a call that is several atomic steps (teardown, clone+drop) *)
                blocked : (int * bool * bool) option; (* signal id, timed, option-variant *)
                hs : int option; hr : int option; futs : (int * int) list (* local id -> model id *) }

let check_outcome (cap : string) (progs : (int * (string list * string) list) list) : string option =
  (* progs: per thread, list of (op words, observed result) *)
  let a0 = if cap = "U" then init false (n_of_int 32) else init true (n_of_int (int_of_string cap)) in
  let n = n_of_int in
  let a0, ts =
    List.fold_left (fun (a, ts) (t, _) ->
        let hs = 10 + 2 * t and hr = 11 + 2 * t in
        let a, _ = astep a (LClone (n 0, n hs)) in
        let a, _ = astep a (LClone (n 1, n hr)) in
        (a, (t, { pc = 0; sub = 0; blocked = None; hs = Some hs; hr = Some hr; futs = [] }) :: ts)) (a0, []) progs in
  let a0, _ = astep a0 (LDropH (n 0)) in
  let a0, _ = astep a0 (LDropH (n 1)) in
  let ts = List.rev ts in
  let fresh = ref 1000 in
  let seen = Hashtbl.create 1024 in
  let budget = ref 200000 in
  let ops_of t = List.assoc t progs in
  let rec go (a : aconf) (ts : (int * tstate) list) : bool =
    if List.for_all (fun (t, s) -> s.pc >= List.length (ops_of t)) ts then true
    else begin
      decr budget;
      if !budget <= 0 then true (* search budget exhausted: do not raise an alarm *)
      else
        let key = Marshal.to_string (a, List.map (fun (t, s) -> (t, s.pc, s.sub, s.blocked, s.hs, s.hr, s.futs)) ts) [] in
        if Hashtbl.mem seen key then false
        else begin
          Hashtbl.add seen key ();
          List.exists (fun (t, s) ->
              let ops = ops_of t in
              if s.pc >= List.length ops then false
              else begin
                let (words, observed) = List.nth ops s.pc in
                let set s' = List.map (fun (t', x) -> if t' = t then (t', s') else (t', x)) ts in
                let finish a1 (o : out) suffix_back s' =
                  let r = str_result o in
                  let r = if suffix_back then (match o.r_back with x :: _ -> r ^ " back:" ^ string_of_int (int_of_n x) | [] -> r) else r in
                  r = observed && go a1 (set { s' with pc = s'.pc + 1; sub = 0; blocked = None }) in
                match s.blocked with
                | Some (k, timed, optv) ->
                  let try_label l =
                    let a1, o = astep a l in
                    (match o.r_res with RInvalid | RHang -> false | _ -> finish a1 o optv s) in
                  try_label (LComplete (n k)) || (timed && try_label (LTimeoutFire (n k)))
                | None ->
                  let i x = int_of_string x in
                  let arg j = List.nth words j in
                  let new_id () = incr fresh; !fresh in
                  let run_labels (ls : label list) (s' : tstate) ~(blk : (int * bool * bool) option) ~(optv : bool) =
                    let a1, o = List.fold_left (fun (a, _) l -> astep a l) (a, { r_res = RUnit; r_drops = []; r_wakes = []; r_back = [] }) ls in
                    match o.r_res with
                    | RInvalid | RHang -> false
                    | RBlocked -> (match blk with Some b -> go a1 (set { s' with blocked = Some b }) | None -> false)
                    | _ -> finish a1 o optv s' in
                  let with_s f = match s.hs with Some h -> f h | None -> observed = "nohandle" && go a (set { s with pc = s.pc + 1 }) in
                  let with_r f = match s.hr with Some h -> f h | None -> observed = "nohandle" && go a (set { s with pc = s.pc + 1 }) in
                  let any_h f = match s.hs, s.hr with Some h, _ -> f h | _, Some h -> f h | _ -> false in
                  (match List.hd words with
                   | "send" -> with_s (fun h -> let k = new_id () in run_labels [ LSend (n k, n h, n (i (arg 1))) ] s ~blk:(Some (k, false, false)) ~optv:false)
                   | "sendto" -> with_s (fun h -> let k = new_id () in run_labels [ LSendTimeout (n k, n h, n (i (arg 1))) ] s ~blk:(Some (k, true, false)) ~optv:false)
                   | "sendoptto" -> with_s (fun h -> let k = new_id () in run_labels [ LSendOptTimeout (n k, n h, Some (n (i (arg 1)))) ] s ~blk:(Some (k, true, true)) ~optv:true)
                   | "trysend" -> with_s (fun h -> run_labels [ LTrySend (n h, n (i (arg 1))) ] s ~blk:None ~optv:false)
                   | "trysendrt" -> with_s (fun h ->
                       run_labels [ LTrySendRT (n h, n (i (arg 1)), false) ] s ~blk:None ~optv:false
                       || run_labels [ LTrySendRT (n h, n (i (arg 1)), true) ] s ~blk:None ~optv:false)
                   | "recv" -> with_r (fun h -> let k = new_id () in run_labels [ LRecv (n k, n h) ] s ~blk:(Some (k, false, false)) ~optv:false)
                   | "recvto" -> with_r (fun h ->
                       let k = new_id () in
                       run_labels [ LRecvTimeout (n k, n h, false) ] s ~blk:(Some (k, true, false)) ~optv:false
                       || run_labels [ LRecvTimeout (n k, n h, true) ] s ~blk:None ~optv:false)
                   | "tryrecv" -> with_r (fun h -> run_labels [ LTryRecv (n h) ] s ~blk:None ~optv:false)
                   | "tryrecvrt" -> with_r (fun h ->
                       run_labels [ LTryRecvRT (n h, false) ] s ~blk:None ~optv:false
                       || run_labels [ LTryRecvRT (n h, true) ] s ~blk:None ~optv:false)
                   | "drain" -> with_r (fun h -> run_labels [ LDrain (n h) ] s ~blk:None ~optv:false)
                   | "close" -> any_h (fun h -> run_labels [ LClose (n h) ] s ~blk:None ~optv:false)
                   | "drops" -> (match s.hs with Some h -> run_labels [ LDropH (n h) ] { s with hs = None } ~blk:None ~optv:false
                                               | None -> observed = "unit" && go a (set { s with pc = s.pc + 1 }))
                   | "dropr" -> (match s.hr with Some h -> run_labels [ LDropH (n h) ] { s with hr = None } ~blk:None ~optv:false
                                               | None -> observed = "unit" && go a (set { s with pc = s.pc + 1 }))
                   | "clones" | "cloner" ->
                     (* two atomic steps: the clone, then the drop of the original *)
                     let is_s = List.hd words = "clones" in
                     (match (if is_s then s.hs else s.hr) with
                      | None -> observed = "unit" && go a (set { s with pc = s.pc + 1; sub = 0 })
                      | Some h ->
                        if s.sub = 0 then begin
                          let h' = new_id () in
                          let a1, o = astep a (LClone (n h, n h')) in
                          (match o.r_res with RInvalid | RHang -> false
                                            | _ -> go a1 (set { s with sub = h' }))
                        end else begin
                          let h' = s.sub in
                          let s' = if is_s then { s with hs = Some h' } else { s with hr = Some h' } in
                          run_labels [ LDropH (n h) ] s' ~blk:None ~optv:false
                        end)
                   | "len" -> any_h (fun h -> run_labels [ LObs (n h, OLen) ] s ~blk:None ~optv:false)
                   | "scount" -> any_h (fun h -> run_labels [ LObs (n h, OSenderCount) ] s ~blk:None ~optv:false)
                   | "rcount" -> any_h (fun h -> run_labels [ LObs (n h, OReceiverCount) ] s ~blk:None ~optv:false)
                   | "isclosed" -> any_h (fun h -> run_labels [ LObs (n h, OIsClosed) ] s ~blk:None ~optv:false)
                   | "isterm" -> with_r (fun h -> run_labels [ LObs (n h, OIsTerminated) ] s ~blk:None ~optv:false)
                   | "isdisc" -> any_h (fun h -> run_labels [ LObs (n h, OIsDisconnected) ] s ~blk:None ~optv:false)
                   | "isempty" -> any_h (fun h -> run_labels [ LObs (n h, OIsEmpty) ] s ~blk:None ~optv:false)
                   | "isfull" -> any_h (fun h -> run_labels [ LObs (n h, OIsFull) ] s ~blk:None ~optv:false)
                   | "mksend" -> with_s (fun h -> let f = new_id () in
                                          run_labels [ LMkSend (n f, n h, n (i (arg 2))) ] { s with futs = (i (arg 1), f) :: s.futs } ~blk:None ~optv:false)
                   | "mkrecv" -> with_r (fun h -> let f = new_id () in
                                          run_labels [ LMkRecv (n f, n h) ] { s with futs = (i (arg 1), f) :: s.futs } ~blk:None ~optv:false)
                   | "mkstream" -> with_r (fun h -> let f = new_id () in
                                            run_labels [ LMkStream (n f, n h) ] { s with futs = (i (arg 1), f) :: s.futs } ~blk:None ~optv:false)
                   | "poll" -> (match List.assoc_opt (i (arg 1)) s.futs with
                       | Some f -> run_labels [ LPoll (n f, n (i (arg 2))) ] s ~blk:None ~optv:false
                       | None -> observed = "nofuture" && go a (set { s with pc = s.pc + 1 }))
                   | "dropf" -> (match List.assoc_opt (i (arg 1)) s.futs with
                       | Some f -> run_labels [ LDropF (n f) ] { s with futs = List.remove_assoc (i (arg 1)) s.futs } ~blk:None ~optv:false
                       | None -> observed = "unit" && go a (set { s with pc = s.pc + 1 }))
                   | "teardown" ->
                     (* one atomic step per dropped future / handle; other threads may run in between *)
                     let fl = List.sort compare s.futs in
                     let step1 l s' =
                       let a1, o = astep a l in
                       (match o.r_res with RInvalid | RHang -> false | _ -> go a1 (set s')) in
                     (match fl, s.hs, s.hr with
                      | (k, f) :: _, _, _ -> step1 (LDropF (n f)) { s with futs = List.remove_assoc k s.futs }
                      | [], Some h, _ -> step1 (LDropH (n h)) { s with hs = None }
                      | [], None, Some h -> step1 (LDropH (n h)) { s with hr = None }
                      | [], None, None -> observed = "unit" && go a (set { s with pc = s.pc + 1; sub = 0 }))
                   | _ -> true)
              end) ts
        end
    end in
  if go a0 ts then None
  else Some "no operation-level interleaving of the atomic channel (Atomic.astep) produces these results"

(* ---------------- main loop ---------------- *)
(* every (flavour, owner pc, peer pc, event) transition of the model's reachable part *)
(* orderings do not matter for which (state, event) pairs exist: use the strongest everywhere *)
let actual_ords = { r_poll_load = SeqCst; r_poll_fence = SeqCst; r_abw_load0 = SeqCst; r_abw_fence0 = SeqCst; r_abw_load1 = SeqCst;
  r_abw_fence1 = SeqCst; r_abw_load2 = SeqCst; r_abw_fence2 = SeqCst; r_wait_load0 = SeqCst; r_wait_fence0 = SeqCst;
  r_wait_load1 = SeqCst; r_wait_fence1 = SeqCst; r_wait_cas_s = SeqCst; r_wait_cas_f = SeqCst; r_wait_park_load = SeqCst;
  r_wt_load0 = SeqCst; r_wt_fence0 = SeqCst; r_wt_load1 = SeqCst; r_wt_fence1 = SeqCst; r_wt_final = SeqCst; r_isterm = SeqCst;
  r_wake_cas_s = SeqCst; r_wake_cas_f = SeqCst; r_wake_store_sync = SeqCst; r_wake_store_async = SeqCst }
let model_transitions () : string list =
  let seen = Hashtbl.create 1024 and trans = Hashtbl.create 1024 in
  let rec go = function
    | [] -> ()
    | s :: rest ->
      if Hashtbl.mem seen s || s.s_viol then go rest
      else begin
        Hashtbl.add seen s ();
        let evs = owner_events actual_ords s @ claimer_events actual_ords s in
        let next = List.filter_map (fun e ->
            match sstep s e with
            | Some s' ->
              Hashtbl.replace trans (Printf.sprintf "%s/%s/%s/%s" (fl_name s) (str_opc s.s_o) (str_cpc s.s_c) (str_sev e)) ();
              Some s'
            | None -> None) evs in
        go (next @ rest)
      end in
  go sinits;
  List.sort compare (Hashtbl.fold (fun k () acc -> k :: acc) trans [])

let run_h2check () =
  load_sites ();
  let cur : (string * string * string list) option ref = ref None in
  let lines = ref [] in
  let flush_exec () =
    match !cur with
    | None -> ()
    | Some (pid, cap, _) ->
      let ls = List.rev !lines in
      let evs = Array.of_list (List.filter_map parse_line ls) in
      let verdict = try List.find (fun l -> String.length l > 1 && l.[0] = 'V') ls with Not_found -> "V ?" in
      (* per-thread calls and observed results *)
      let progs = Hashtbl.create 8 in
      let pending = Hashtbl.create 8 in
      Array.iter (fun e ->
          match e.kind with
          | "OPB" -> Hashtbl.replace pending e.tid e.note
          | "OPE" ->
            (match Hashtbl.find_opt pending e.tid with
             | Some w ->
               let l = try Hashtbl.find progs e.tid with Not_found -> [] in
               Hashtbl.replace progs e.tid (l @ [ (w, String.concat " " e.note) ]);
               Hashtbl.remove pending e.tid
             | None -> ())
          | _ -> ()) evs;
      let plist = List.sort compare (Hashtbl.fold (fun t l acc -> (t, l) :: acc) progs []) in
      let pr tag = function None -> Printf.printf "%s ok\n" tag | Some m -> Printf.printf "%s reject %s\n" tag m in
      Printf.printf "X %s\n" pid;
      let (a_err, s_err) = check_signals evs in
      pr "A" a_err;
      pr "S" s_err;
      pr "M" (match check_mutex evs with Some m -> Some m | None -> check_waker_under_lock evs);
      pr "K" (check_lock_counts evs);
      (if verdict = "V ok" then pr "O" (try check_outcome cap plist with e -> Some ("checker exception " ^ Printexc.to_string e))
       else Printf.printf "O skipped\n");
      Printf.printf "%s\nZ\n" verdict
  in
  (try
     while true do
       let l = String.trim (input_line stdin) in
       if String.length l > 1 && l.[0] = 'X' && l.[1] = ' ' then begin
         (match String.split_on_char ' ' l with
          | _ :: pid :: cap :: _ -> cur := Some (pid, cap, []); lines := []
          | _ -> ())
       end
       else if l = "Z" then (flush_exec (); cur := None; lines := [])
       else lines := l :: !lines
     done
   with End_of_file -> ());
  (* protocol coverage of this batch *)
  Printf.printf "C %s\n" (String.concat " " (List.sort compare (Hashtbl.fold (fun k () acc -> k :: acc) covered [])))
