(* Extraction of the executable models.  ExtrOcamlBasic only (bool, option,
   unit, list, prod, sumbool, sumor mapped to OCaml's); no Extract Constant;
   N / positive / nat / string / ascii stay the extracted inductive datatypes. *)
From Coq Require Import Extraction ExtrOcamlBasic.
From KV Require Import Base Chan Atomic Mem Mutex Sig Vec.
From KV.proofs Require Import Inv.
Set Extraction Output Directory ".".
Extraction "kmodel.ml" astep init arun res_received invb drain_observed
  mstep minit access_safe mutex_ords_ok
  sstep sinit safe final_of owner_events claimer_events sinits.
