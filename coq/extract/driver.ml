(* driver.ml - glue around the extracted model (kmodel.ml): parsing, printing,
   model-guided history generation.  Not verified; everything it decides is
   re-validated by running the extracted functions and the real crate. *)
open Kmodel

(* ---------- N <-> int / string ---------- *)
let rec pos_of_int i =
  if i = 1 then XH else if i land 1 = 0 then XO (pos_of_int (i lsr 1)) else XI (pos_of_int (i lsr 1))
let n_of_int i = if i = 0 then N0 else Npos (pos_of_int i)
let rec i64_of_pos = function
  | XH -> 1L
  | XO p -> Int64.mul 2L (i64_of_pos p)
  | XI p -> Int64.add (Int64.mul 2L (i64_of_pos p)) 1L
let str_of_n = function N0 -> "0" | Npos p -> Printf.sprintf "%Lu" (i64_of_pos p)
let int_of_n n = int_of_string (str_of_n n)
let str_of_n0 = str_of_n

(* ---------- printing ---------- *)
let str_err = function
  | EClosed -> "closed" | ESendClosed -> "sendclosed" | ERecvClosed -> "recvclosed" | ETimeout -> "timeout"
let str_list f l = "[" ^ String.concat "," (List.map f l) ^ "]"
(* canonical form per payload class: untagged payloads (ZSTs) print every tag
   as "_"; payloads without drop glue report no drops *)
let tagged = ref true
let droppy = ref true
let set_class cls =
  tagged := not (cls = "zst" || cls = "azst");
  droppy := not (cls = "plain")
let str_of_n x = if !tagged then str_of_n x else "_"
let str_res = function
  | ROk -> "ok"
  | ROkB b -> if b then "ok:true" else "ok:false"
  | ROkV x -> "ok:" ^ str_of_n x
  | ROkSome x -> "ok:some:" ^ str_of_n x
  | ROkNone -> "ok:none"
  | RErr e -> "err:" ^ str_err e
  | RPending -> "pending"
  | RReadyOk -> "ready:ok"
  | RReadyOkV x -> "ready:ok:" ^ str_of_n x
  | RReadyErr e -> "ready:err:" ^ str_err e
  | RSome x -> "some:" ^ str_of_n x
  | RNone -> "none"
  | RPanic -> "panic"
  | RNum n -> "n:" ^ str_of_n0 n
  | RBool b -> if b then "b:true" else "b:false"
  | RDrain (cnt0, l0) ->
      (* the caller's vector: the extracted Vec.drain_observed is run on the twelve vectors the
         harness uses (0-2 previous elements tagged 200.., 0-3 spare places); what is printed is
         what that model reports (count, values appended, previous contents intact) *)
      let cnt = ref cnt0 and app = ref l0 and bad = ref false in
      List.iter (fun k -> List.iter (fun spare ->
          let prev = List.init k (fun i -> n_of_int (200 + i)) in
          match drain_observed prev (n_of_int spare) cnt0 l0 with
          | Some ((c, l), intact) ->
              if c <> cnt0 || l <> l0 then (cnt := c; app := l);
              if not intact then bad := true
          | None -> bad := true) [0; 1; 2; 3]) [0; 1; 2];
      "drain:" ^ str_of_n0 !cnt ^ ":" ^ str_list str_of_n !app ^ (if !bad then ":CORRUPT" else "")
  | RBlocked -> "blocked"
  | RUnit -> "unit"
  | RInvalid -> "invalid"
  | RHang -> "hang"
let str_out o =
  Printf.sprintf "%s d=%s w=%s b=%s" (str_res o.r_res)
    (str_list str_of_n (if !droppy then o.r_drops else []))
    (str_list str_of_n0 o.r_wakes) (str_list str_of_n o.r_back)

(* ---------- history-level labels (what the harness executes) ---------- *)
type hl =
  | HClone of int * int | HDropH of int | HClose of int | HObs of int * string
  | HSend of int * int * int | HSendTo of int * int * int | HSendOptTo of int * int * int option
  | HTrySend of int * int | HTrySendOpt of int * int option | HTrySendRT of int * int
  | HTrySendOptRT of int * int option
  | HRecv of int * int | HRecvTo of int * int * bool | HTryRecv of int | HTryRecvRT of int | HDrain of int
  | HMkSend of int * int * int | HMkRecv of int * int | HMkStream of int * int
  | HPoll of int * int | HDropF of int | HStreamTerm of int

let obs_names = [ "len", OLen; "isempty", OIsEmpty; "isfull", OIsFull; "capacity", OCapacity;
  "isbounded", OIsBounded; "sendercount", OSenderCount; "receivercount", OReceiverCount;
  "isclosed", OIsClosed; "isdisconnected", OIsDisconnected; "isterminated", OIsTerminated ]

let opt_str = function Some x -> string_of_int x | None -> "-"
let str_hl = function
  | HClone (h, h') -> Printf.sprintf "clone %d %d" h h'
  | HDropH h -> Printf.sprintf "droph %d" h
  | HClose h -> Printf.sprintf "close %d" h
  | HObs (h, o) -> Printf.sprintf "obs %d %s" h o
  | HSend (k, h, x) -> Printf.sprintf "send %d %d %d" k h x
  | HSendTo (k, h, x) -> Printf.sprintf "sendto %d %d %d" k h x
  | HSendOptTo (k, h, x) -> Printf.sprintf "sendoptto %d %d %s" k h (opt_str x)
  | HTrySend (h, x) -> Printf.sprintf "trysend %d %d" h x
  | HTrySendOpt (h, x) -> Printf.sprintf "trysendopt %d %s" h (opt_str x)
  | HTrySendRT (h, x) -> Printf.sprintf "trysendrt %d %d" h x
  | HTrySendOptRT (h, x) -> Printf.sprintf "trysendoptrt %d %s" h (opt_str x)
  | HRecv (k, h) -> Printf.sprintf "recv %d %d" k h
  | HRecvTo (k, h, e) -> Printf.sprintf "recvto %d %d %d" k h (if e then 1 else 0)
  | HTryRecv h -> Printf.sprintf "tryrecv %d" h
  | HTryRecvRT h -> Printf.sprintf "tryrecvrt %d" h
  | HDrain h -> Printf.sprintf "drain %d" h
  | HMkSend (f, h, x) -> Printf.sprintf "mksend %d %d %d" f h x
  | HMkRecv (f, h) -> Printf.sprintf "mkrecv %d %d" f h
  | HMkStream (f, h) -> Printf.sprintf "mkstream %d %d" f h
  | HPoll (f, w) -> Printf.sprintf "poll %d %d" f w
  | HDropF f -> Printf.sprintf "dropf %d" f
  | HStreamTerm f -> Printf.sprintf "streamterm %d" f

let parse_opt s = if s = "-" then None else Some (int_of_string s)
let parse_hl (s : string) : hl =
  let i = int_of_string in
  match String.split_on_char ' ' (String.trim s) with
  | [ "clone"; h; h' ] -> HClone (i h, i h')
  | [ "droph"; h ] -> HDropH (i h)
  | [ "close"; h ] -> HClose (i h)
  | [ "obs"; h; o ] -> HObs (i h, o)
  | [ "send"; k; h; x ] -> HSend (i k, i h, i x)
  | [ "sendto"; k; h; x ] -> HSendTo (i k, i h, i x)
  | [ "sendoptto"; k; h; x ] -> HSendOptTo (i k, i h, parse_opt x)
  | [ "trysend"; h; x ] -> HTrySend (i h, i x)
  | [ "trysendopt"; h; x ] -> HTrySendOpt (i h, parse_opt x)
  | [ "trysendrt"; h; x ] -> HTrySendRT (i h, i x)
  | [ "trysendoptrt"; h; x ] -> HTrySendOptRT (i h, parse_opt x)
  | [ "recv"; k; h ] -> HRecv (i k, i h)
  | [ "recvto"; k; h; e ] -> HRecvTo (i k, i h, e = "1")
  | [ "tryrecv"; h ] -> HTryRecv (i h)
  | [ "tryrecvrt"; h ] -> HTryRecvRT (i h)
  | [ "drain"; h ] -> HDrain (i h)
  | [ "mksend"; f; h; x ] -> HMkSend (i f, i h, i x)
  | [ "mkrecv"; f; h ] -> HMkRecv (i f, i h)
  | [ "mkstream"; f; h ] -> HMkStream (i f, i h)
  | [ "poll"; f; w ] -> HPoll (i f, i w)
  | [ "dropf"; f ] -> HDropF (i f)
  | [ "streamterm"; f ] -> HStreamTerm (i f)
  | _ -> failwith ("bad label: " ^ s)

let n = n_of_int
let on = function Some x -> Some (n x) | None -> None

(* one harness-level call = one model step, or (timed calls) register + fire *)
let hstep (a : aconf) (l : hl) : aconf * out =
  let timed first k =
    let a1, o = astep a first in
    if o.r_res = RBlocked then astep a1 (LTimeoutFire (n k)) else (a1, o)
  in
  match l with
  | HClone (h, h') -> astep a (LClone (n h, n h'))
  | HDropH h -> astep a (LDropH (n h))
  | HClose h -> astep a (LClose (n h))
  | HObs (h, o) -> astep a (LObs (n h, List.assoc o obs_names))
  | HSend (k, h, x) -> astep a (LSend (n k, n h, n x))
  | HSendTo (k, h, x) -> timed (LSendTimeout (n k, n h, n x)) k
  | HSendOptTo (k, h, x) -> timed (LSendOptTimeout (n k, n h, on x)) k
  | HTrySend (h, x) -> astep a (LTrySend (n h, n x))
  | HTrySendOpt (h, x) -> astep a (LTrySendOpt (n h, on x))
  | HTrySendRT (h, x) -> astep a (LTrySendRT (n h, n x, false))
  | HTrySendOptRT (h, x) -> astep a (LTrySendOptRT (n h, on x, false))
  | HRecv (k, h) -> astep a (LRecv (n k, n h))
  | HRecvTo (k, h, e) -> timed (LRecvTimeout (n k, n h, e)) k
  | HTryRecv h -> astep a (LTryRecv (n h))
  | HTryRecvRT h -> astep a (LTryRecvRT (n h, false))
  | HDrain h -> astep a (LDrain (n h))
  | HMkSend (f, h, x) -> astep a (LMkSend (n f, n h, n x))
  | HMkRecv (f, h) -> astep a (LMkRecv (n f, n h))
  | HMkStream (f, h) -> astep a (LMkStream (n f, n h))
  | HPoll (f, w) -> astep a (LPoll (n f, n w))
  | HDropF f -> astep a (LDropF (n f))
  | HStreamTerm f -> astep a (LStreamTerm (n f))

let init_of_cap (cap : string) : aconf =
  if cap = "U" then init false (n 32) else init true (n (int_of_string cap))

(* a step the single-threaded harness can execute *)
(* every value still inside the channel or a waiting object: destroyed at tear-down *)
let held (a : aconf) : string list =
  let vs = if !droppy then a.ch.queue @ List.filter_map (fun (_, o) -> o.o_val) a.objs else [] in
  List.sort compare (List.map str_of_n vs)
let trailer a =
  let l = held a in
  (* numeric sort for readability and to match the harness *)
  let l = List.sort (fun x y -> compare (String.length x, x) (String.length y, y)) l in
  "T d=[" ^ String.concat "," l ^ "]"

let executable (o : out) =
  match o.r_res with RInvalid | RHang | RBlocked -> false | _ -> true

(* ---------- run mode ---------- *)
let run_stdin () =
  let a = ref (init true N0) in
  (try
     while true do
       let line = input_line stdin in
       let line = String.trim line in
       if line = "" then ()
       else if line.[0] = 'H' then begin
         (match String.split_on_char ' ' line with
          | _ :: hid :: cap :: cls :: _ -> set_class cls; a := init_of_cap cap; Printf.printf "H %s\n" hid
          | _ -> failwith "bad header")
       end
       else if line = "E" then (print_string (trailer !a); print_string "\nE\n")
       else begin
         let a1, o = hstep !a (parse_hl line) in
         a := a1;
         print_string (str_out o); print_char '\n'
       end
     done
   with End_of_file -> ())

(* ---------- model-guided random generation ---------- *)
let pick rng l = List.nth l (Random.State.int rng (List.length l))

(* weight profiles: a history is a sequence of phases, each drawing calls from one profile,
   so that deep waiting lists (several pending senders / receivers) and their
   cancellation, draining and termination are common, not lucky *)
let kinds = [| "clone"; "droph"; "close"; "obs"; "send"; "sendto"; "sendoptto"; "trysend"; "trysendopt";
  "trysendrt"; "trysendoptrt"; "recv"; "recvto"; "tryrecv"; "tryrecvrt"; "drain"; "mksend"; "mkrecv";
  "mkstream"; "poll"; "dropf"; "streamterm" |]
let profiles = [|
  (* mixed *)        [| 4; 4; 1; 9; 10; 4; 4; 6; 3; 2; 2; 8; 5; 6; 2; 3; 9; 9; 3; 26; 6; 2 |];
  (* sender pile-up *) [| 1; 0; 0; 2; 6; 3; 3; 3; 2; 1; 1; 0; 0; 0; 0; 0; 30; 0; 0; 40; 3; 0 |];
  (* receiver pile-up *) [| 1; 0; 0; 2; 0; 0; 0; 0; 0; 0; 0; 2; 3; 1; 0; 0; 0; 25; 6; 40; 3; 1 |];
  (* consume / cancel *) [| 1; 2; 1; 6; 0; 0; 0; 1; 0; 0; 0; 14; 6; 10; 3; 8; 0; 4; 2; 22; 14; 2 |];
  (* produce / cancel *) [| 1; 2; 1; 6; 12; 5; 5; 8; 4; 2; 2; 0; 0; 0; 0; 0; 6; 0; 0; 22; 14; 0 |];
  (* handles / close *) [| 12; 12; 4; 20; 3; 1; 1; 2; 1; 0; 0; 3; 1; 2; 0; 1; 3; 3; 1; 10; 4; 2 |] |]
let pick_kind rng prof =
  let w = profiles.(prof) in
  let total = Array.fold_left (+) 0 w in
  let r = ref (Random.State.int rng total) in
  let res = ref "obs" in
  (try Array.iteri (fun i wi -> if !r < wi then (res := kinds.(i); raise Exit) else r := !r - wi) w
   with Exit -> ());
  !res

let gen_history rng maxlen cap : hl list * out list * aconf =
  let a = ref (init_of_cap cap) in
  let next_id = ref 2 and next_tag = ref 1 in
  let labels = ref [] and outs = ref [] in
  let len = 1 + Random.State.int rng maxlen in
  let handles_of s =
    List.filter_map (fun (h, s') -> if s = s' then Some (int_of_n h) else None) !a.handles in
  let all_handles () = List.map (fun (h, _) -> int_of_n h) !a.handles in
  let futs () = List.filter_map (fun (k, o) ->
      match o.o_kind with KSendFut | KRecvFut | KStream -> Some (int_of_n k) | _ -> None) !a.objs in
  let streams () = List.filter_map (fun (k, o) ->
      match o.o_kind with KStream -> Some (int_of_n k) | _ -> None) !a.objs in
  let fresh_id () = let i = !next_id in incr next_id; i in
  let fresh_tag () = let i = !next_tag in incr next_tag; i in
  let optv () = if Random.State.int rng 20 = 0 then None else Some (fresh_tag ()) in
  let prof = ref 0 and phase_left = ref 0 in
  let candidate () : hl option =
    if !phase_left <= 0 then begin
      prof := (if Random.State.int rng 3 = 0 then 0 else Random.State.int rng (Array.length profiles));
      phase_left := 3 + Random.State.int rng 10
    end;
    decr phase_left;
    let k = pick_kind rng !prof in
    let need l f = if l = [] then None else Some (f (pick rng l)) in
    match k with
    | "clone" -> need (all_handles ()) (fun h -> HClone (h, fresh_id ()))
    | "droph" -> need (all_handles ()) (fun h -> HDropH h)
    | "close" -> need (all_handles ()) (fun h -> HClose h)
    | "obs" -> need (all_handles ()) (fun h -> HObs (h, fst (pick rng obs_names)))
    | "send" -> need (handles_of SSend) (fun h -> HSend (fresh_id (), h, fresh_tag ()))
    | "sendto" -> need (handles_of SSend) (fun h -> HSendTo (fresh_id (), h, fresh_tag ()))
    | "sendoptto" -> need (handles_of SSend) (fun h -> HSendOptTo (fresh_id (), h, optv ()))
    | "trysend" -> need (handles_of SSend) (fun h -> HTrySend (h, fresh_tag ()))
    | "trysendopt" -> need (handles_of SSend) (fun h -> HTrySendOpt (h, optv ()))
    | "trysendrt" -> need (handles_of SSend) (fun h -> HTrySendRT (h, fresh_tag ()))
    | "trysendoptrt" -> need (handles_of SSend) (fun h -> HTrySendOptRT (h, optv ()))
    | "recv" -> need (handles_of SRecv) (fun h -> HRecv (fresh_id (), h))
    | "recvto" -> need (handles_of SRecv) (fun h -> HRecvTo (fresh_id (), h, Random.State.bool rng))
    | "tryrecv" -> need (handles_of SRecv) (fun h -> HTryRecv h)
    | "tryrecvrt" -> need (handles_of SRecv) (fun h -> HTryRecvRT h)
    | "drain" -> need (handles_of SRecv) (fun h -> HDrain h)
    | "mksend" -> need (handles_of SSend) (fun h -> HMkSend (fresh_id (), h, fresh_tag ()))
    | "mkrecv" -> need (handles_of SRecv) (fun h -> HMkRecv (fresh_id (), h))
    | "mkstream" -> need (handles_of SRecv) (fun h -> HMkStream (fresh_id (), h))
    | "poll" -> need (futs ()) (fun f -> HPoll (f, Random.State.int rng 3))
    | "dropf" -> need (futs ()) (fun f -> HDropF f)
    | "streamterm" -> need (streams ()) (fun f -> HStreamTerm f)
    | _ -> None
  in
  let count = ref 0 and tries = ref 0 in
  while !count < len && !tries < 40 * len do
    incr tries;
    match candidate () with
    | None -> ()
    | Some l ->
      let a1, o = hstep !a l in
      if executable o then begin
        if not (invb a1) then begin
          prerr_endline ("INVARIANT VIOLATED after: " ^ String.concat " ; " (List.rev_map str_hl (l :: !labels)));
          exit 4
        end;
        a := a1; labels := l :: !labels; outs := o :: !outs; incr count
      end
  done;
  (List.rev !labels, List.rev !outs, !a)

let caps = [| "0"; "0"; "1"; "1"; "2"; "3"; "U" |]
let classes = [| "u8"; "u32"; "u64"; "p12"; "big"; "a16"; "zst"; "azst"; "plain" |]

let gen seed count maxlen hist_file exp_file =
  let rng = Random.State.make [| seed |] in
  let hf = open_out hist_file and ef = open_out exp_file in
  for i = 0 to count - 1 do
    let cap = caps.(Random.State.int rng (Array.length caps)) in
    let cls = classes.(Random.State.int rng (Array.length classes)) in
    let flav = if Random.State.bool rng then "S" else "A" in
    let ls, os, afin = gen_history rng maxlen cap in
    set_class cls;
    Printf.fprintf hf "H %d %s %s %s\n" i cap cls flav;
    Printf.fprintf ef "H %d\n" i;
    List.iter (fun l -> output_string hf (str_hl l); output_char hf '\n') ls;
    List.iter (fun o -> output_string ef (str_out o); output_char ef '\n') os;
    output_string hf "E\n"; output_string ef (trailer afin); output_string ef "\nE\n"
  done;
  close_out hf; close_out ef

(* ---------- multi-actor random walk over raw labels (blocked sync callers included):
   tests the invariant and the absence of RHang before they are proved ---------- *)
let walk seed count maxlen =
  let rng = Random.State.make [| seed |] in
  let hangs = ref 0 and steps = ref 0 and blocked = ref 0 in
  for _ = 1 to count do
    let cap = caps.(Random.State.int rng (Array.length caps)) in
    let a = ref (init_of_cap cap) in
    let next_id = ref 2 and next_tag = ref 1 in
    let fresh_id () = let i = !next_id in incr next_id; i in
    let fresh_tag () = let i = !next_tag in incr next_tag; i in
    let trace = ref [] in
    for _ = 1 to maxlen do
      let hs = List.map (fun (h, s) -> (int_of_n h, s)) !a.handles in
      let of_side s = List.filter_map (fun (h, s') -> if s = s' then Some h else None) hs in
      let objs_ = List.map (fun (k, o) -> (int_of_n k, o)) !a.objs in
      let pickl l = if l = [] then None else Some (pick rng l) in
      let lab : label option =
        match Random.State.int rng 24 with
        | 0 -> Option.map (fun (h, _) -> LClone (n h, n (fresh_id ()))) (pickl hs)
        | 1 -> Option.map (fun (h, _) -> LDropH (n h)) (pickl hs)
        | 2 -> if Random.State.int rng 4 = 0 then Option.map (fun (h, _) -> LClose (n h)) (pickl hs) else None
        | 3 -> Option.map (fun (h, _) -> LObs (n h, snd (pick rng obs_names))) (pickl hs)
        | 4 | 5 -> Option.map (fun h -> LSend (n (fresh_id ()), n h, n (fresh_tag ()))) (pickl (of_side SSend))
        | 6 -> Option.map (fun h -> LSendTimeout (n (fresh_id ()), n h, n (fresh_tag ()))) (pickl (of_side SSend))
        | 7 -> Option.map (fun h -> LSendOptTimeout (n (fresh_id ()), n h, Some (n (fresh_tag ())))) (pickl (of_side SSend))
        | 8 -> Option.map (fun h -> LTrySend (n h, n (fresh_tag ()))) (pickl (of_side SSend))
        | 9 -> Option.map (fun h -> LTrySendOptRT (n h, Some (n (fresh_tag ())), Random.State.bool rng)) (pickl (of_side SSend))
        | 10 | 11 -> Option.map (fun h -> LRecv (n (fresh_id ()), n h)) (pickl (of_side SRecv))
        | 12 -> Option.map (fun h -> LRecvTimeout (n (fresh_id ()), n h, Random.State.int rng 4 = 0)) (pickl (of_side SRecv))
        | 13 -> Option.map (fun h -> LTryRecv (n h)) (pickl (of_side SRecv))
        | 14 -> Option.map (fun h -> LDrain (n h)) (pickl (of_side SRecv))
        | 15 -> Option.map (fun h -> LMkSend (n (fresh_id ()), n h, n (fresh_tag ()))) (pickl (of_side SSend))
        | 16 -> Option.map (fun h -> LMkRecv (n (fresh_id ()), n h)) (pickl (of_side SRecv))
        | 17 -> Option.map (fun h -> LMkStream (n (fresh_id ()), n h)) (pickl (of_side SRecv))
        | 18 | 19 -> Option.map (fun (k, _) -> LPoll (n k, n (Random.State.int rng 3))) (pickl objs_)
        | 20 -> Option.map (fun (k, _) -> LDropF (n k)) (pickl objs_)
        | 21 | 22 -> Option.map (fun (k, _) -> LComplete (n k)) (pickl objs_)
        | _ -> Option.map (fun (k, _) -> LTimeoutFire (n k)) (pickl objs_)
      in
      match lab with
      | None -> ()
      | Some l ->
        let a1, o = astep !a l in
        incr steps;
        if o.r_res = RBlocked then incr blocked;
        if o.r_res = RHang then begin incr hangs; prerr_endline ("RHANG in walk, cap " ^ cap); exit 5 end;
        if not (invb a1) then begin prerr_endline ("INVARIANT VIOLATED in walk, cap " ^ cap ^ " after " ^ string_of_int (List.length !trace) ^ " steps; last out " ^ str_out o); exit 4 end;
        trace := l :: !trace;
        a := a1
    done
  done;
  Printf.printf "walk: %d steps, %d blocked registrations, %d hangs, invariant held\n" !steps !blocked !hangs

(* ---------- exhaustive enumeration of all executable histories up to a depth ---------- *)
let enum depth reduced hist_file exp_file =
  let hf = open_out hist_file and ef = open_out exp_file in
  let count = ref 0 in
  let caps_e = [ "0"; "1"; "2"; "U" ] in
  let obs_e = if reduced then [ "len" ] else [ "len"; "isfull"; "isempty"; "sendercount"; "receivercount"; "isclosed"; "isdisconnected"; "isterminated" ] in
  List.iter (fun cap ->
      let rec go (a : aconf) (ls : hl list) (os : out list) (d : int) (next_id : int) (next_tag : int) =
        if ls <> [] then begin
          let cls = classes.(!count mod Array.length classes) in
          let flav = if !count land 1 = 0 then "S" else "A" in
          set_class cls;
          Printf.fprintf hf "H %d %s %s %s\n" !count cap cls flav;
          Printf.fprintf ef "H %d\n" !count;
          List.iter (fun l -> output_string hf (str_hl l); output_char hf '\n') (List.rev ls);
          List.iter (fun o -> output_string ef (str_out o); output_char ef '\n') (List.rev os);
          output_string hf "E\n"; output_string ef (trailer a); output_string ef "\nE\n";
          incr count
        end;
        if d > 0 then begin
          let hs = List.map (fun (h, s) -> (int_of_n h, s)) a.handles in
          let of_side s = List.filter_map (fun (h, s') -> if s = s' then Some h else None) hs in
          let first l = match l with x :: _ -> [ x ] | [] -> [] in
          let ss = first (List.rev (of_side SSend)) and rs = first (List.rev (of_side SRecv)) in
          let futs = List.filter_map (fun (k, o) -> match o.o_kind with KSendFut | KRecvFut | KStream -> Some (int_of_n k) | _ -> None) a.objs in
          let cands =
            List.concat_map (fun h -> [ HClone (h, next_id); HDropH h; HClose h ]) (ss @ rs)
            @ List.concat_map (fun h -> List.map (fun o -> HObs (h, o)) obs_e) (ss @ rs)
            @ List.concat_map (fun h ->
                [ HSend (next_id, h, next_tag); HSendTo (next_id, h, next_tag); HTrySend (h, next_tag); HMkSend (next_id, h, next_tag) ]
                @ (if reduced then [] else [ HSendOptTo (next_id, h, Some next_tag); HTrySendOpt (h, Some next_tag); HTrySendOpt (h, None);
                                             HTrySendRT (h, next_tag); HTrySendOptRT (h, Some next_tag) ])) ss
            @ List.concat_map (fun h ->
                [ HRecv (next_id, h); HRecvTo (next_id, h, false); HTryRecv h; HDrain h; HMkRecv (next_id, h) ]
                @ (if reduced then [] else [ HRecvTo (next_id, h, true); HTryRecvRT h; HMkStream (next_id, h) ])) rs
            @ List.concat_map (fun f -> [ HPoll (f, 0); HPoll (f, 1); HDropF f ] @ (if reduced then [] else [ HStreamTerm f ])) futs in
          List.iter (fun l ->
              let a1, o = hstep a l in
              if executable o then go a1 (l :: ls) (o :: os) (d - 1) (next_id + 1) (next_tag + 1)) cands
        end in
      go (init_of_cap cap) [] [] depth 2 1) caps_e;
  close_out hf; close_out ef;
  Printf.printf "%d\n" !count

let () =
  match Array.to_list Sys.argv with
  | [ _; "enum"; depth; reduced; hf; ef ] -> enum (int_of_string depth) (reduced = "1") hf ef
  | [ _; "h2check" ] -> H2check.run_h2check ()
  | [ _; "sigtransitions" ] -> List.iter print_endline (H2check.model_transitions ())
  | [ _; "walk"; seed; count; maxlen ] -> walk (int_of_string seed) (int_of_string count) (int_of_string maxlen)
  | [ _; "run" ] -> run_stdin ()
  | [ _; "gen"; seed; count; maxlen; hf; ef ] ->
    gen (int_of_string seed) (int_of_string count) (int_of_string maxlen) hf ef
  | _ -> prerr_endline "usage: driver run < histories | driver gen seed count maxlen hist exp"; exit 2
