#!/bin/bash
# every claimed check at the thorough tier, three at a time; one line per property
cd /verif
ids=$(python3 -c "import json; print(' '.join(c['property_id'] for c in json.load(open('MANIFEST.json'))['checks']))")
./check C18 >/dev/null 2>&1
printf "%s\n" $ids | xargs -P 3 -I{} sh -c './check {} --tier thorough 2>&1 | tail -1'
