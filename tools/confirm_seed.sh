#!/bin/bash
# confirm_seed.sh <name>: re-validates a seeded change produced by a sub-agent in /tmp/wt/<name>:
#  1. patch applies to a clean checkout of /repo HEAD; crate builds; pinned tests pass with the change
#  2. demo (tests/seed_demo.rs) fails with the change, passes without it
# writes /tmp/seed_out/<name>/confirm.txt
n=$1; wt=/tmp/wt/$n; out=/tmp/seed_out/$n
cd $wt || exit 2
export CARGO_NET_OFFLINE=true
git checkout -q -- src 2>/dev/null
cp $out/seed_demo.rs tests/seed_demo.rs
{
echo "== demo without change"
timeout 900 cargo test --offline --test seed_demo 2>&1 | grep -E "^test result|^test .*(FAILED|ok)$|error" | head -20
r0=${PIPESTATUS[0]}
git apply $out/patch.diff || echo "PATCH DOES NOT APPLY"
echo "== existing tests with change"
timeout 1500 cargo test --offline --no-fail-fast --test sync_test --test async_test 2>&1 | grep -E "^test result|FAILED|error\[" | head
timeout 1500 cargo test --offline --doc 2>&1 | grep -E "^test result|FAILED|error\[" | head -3
echo "== demo with change"
timeout 900 cargo test --offline --test seed_demo 2>&1 | grep -E "^test result|^test .*(FAILED|ok)$|error" | head -20
} > $out/confirm.txt 2>&1
echo done $n
