#!/bin/bash
# goal.sh <file.v> <line>: print the proof state after <line>
f=$1; n=$2
d=$(dirname $f); b=$(basename $f .v)
tmp=$d/Tmp_goal_$b.v
head -n $n $f > $tmp
echo "Show." >> $tmp
cd /verif/coq && coqc -Q theories KV $tmp 2>&1 | head -${3:-60}
rm -f $tmp $d/Tmp_goal_$b.vo $d/Tmp_goal_$b.glob $d/.Tmp_goal_$b.aux $d/Tmp_goal_$b.vok $d/Tmp_goal_$b.vos
