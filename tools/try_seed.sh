#!/bin/bash
# try_seed.sh <patch> <prop> [tier]: apply a patch to /repo, run the property's check, revert straight afterwards
p=$1; id=$2; tier=${3:-quick}
git -C /repo status --porcelain | grep -q . && { echo "/repo not clean"; exit 2; }
git -C /repo apply $p || { echo "does not apply"; exit 2; }
timeout 3000 /verif/check $id --tier $tier > /tmp/try_$id.out 2>&1; rc=$?
git -C /repo checkout -- .
echo "rc=$rc"; grep -E "VIOLATION|KNOWN" /tmp/try_$id.out | head -5
exit 0
