#!/bin/bash
# run every claimed check (quick tier) against /repo as it is; print one line per property
cd /verif
./gen_manifest.py >/dev/null
ids=$(python3 -c "import json; print(' '.join(c['property_id'] for c in json.load(open('MANIFEST.json'))['checks']))")
./check C18 >/dev/null 2>&1   # warm the build cache once
printf "%s\n" $ids | xargs -P 6 -I{} sh -c './check {} --tier quick 2>&1 | tail -1'
python3-vt - <<'PY'
import json, jsonschema, os
m = json.load(open('/verif/MANIFEST.json'))
jsonschema.validate(m, json.load(open('/root/.vp/MANIFEST.schema.json')))
es = json.load(open('/root/.vp/EVIDENCE.schema.json'))
for c in m['checks']:
    e = json.load(open(c['evidence_file']))
    jsonschema.validate(e, es)
    assert e['level'] == c['level_claimed']['category'], (c['property_id'], e['level'], c['level_claimed']['category'])
print("manifest and", len(m['checks']), "evidence files valid")
PY
