#!/usr/bin/env python3
"""gen_deep_waitlists.py > corpus/deep_waitlists.hist
Single-threaded histories that make the wait list long and make its ring buffer wrap around:
serve `served` waiters (the head of the VecDeque advances), park `parked` more of the same side,
then end the wait for all of them at once (last handle of the other side dropped / close / drain /
served one by one) and poll every future.  Random H1 histories rarely hold more than three
waiters at once; these are the histories in which a scan of the wait list that misses the wrapped
part, or an off-by-one in a long list, shows."""
import itertools

out = []
n = 0
for cap, cls, fl in itertools.product(("0", "1", "2", "U"), ("u64",), ("S", "A")):
    for side in ("recv", "send"):
        if side == "send" and cap == "U":
            continue
        for served, parked in itertools.product((1, 3, 7), (4, 5, 9)):
            for ending in ("droplast", "close", "drain", "serve"):
                if ending == "drain" and side == "recv":
                    continue
                ls = []
                ident = [10]
                val = [1]

                def fresh():
                    ident[0] += 1
                    return ident[0]

                def v():
                    val[0] += 1
                    return val[0]
                futs = []
                if side == "send":
                    for _ in range(int(cap)):
                        ls.append("trysend 0 %d" % v())

                def park():
                    f = fresh()
                    if side == "recv":
                        ls.append("mkrecv %d 1" % f)
                    else:
                        ls.append("mksend %d 0 %d" % (f, v()))
                    ls.append("poll %d 0" % f)
                    return f

                def serve_one():
                    if side == "recv":
                        ls.append("trysend 0 %d" % v())
                    else:
                        ls.append("tryrecv 1")
                for _ in range(served):
                    futs.append(park())
                for f in futs:
                    serve_one()
                for f in futs:
                    ls.append("poll %d 1" % f)
                waiting = [park() for _ in range(parked)]
                ls.append("obs 1 len")
                if ending == "droplast":
                    ls.append("droph 0" if side == "recv" else "droph 1")
                elif ending == "close":
                    ls.append("close 1")
                elif ending == "drain":
                    ls.append("drain 1")
                else:
                    for f in waiting:
                        serve_one()
                for f in waiting:
                    ls.append("poll %d 2" % f)
                if ending != "droplast":
                    ls.append("obs 0 len")
                out.append("H %d %s %s %s\n%s\nE\n" % (n, cap, cls, fl, "\n".join(ls)))
                n += 1
print("".join(out), end="")
