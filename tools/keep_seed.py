#!/usr/bin/env python3
"""keep_seed.py <name> <property> <needs...>: store a confirmed seeded change under /verif/seeded/<name>/ and drop its worktree"""
import sys, os, shutil, json, subprocess
name, prop, needs = sys.argv[1], sys.argv[2], " ".join(sys.argv[3:])
src = "/tmp/seed_out/" + name
dst = "/verif/seeded/" + name
os.makedirs(dst, exist_ok=True)
for f in ("patch.diff", "seed_demo.rs", "notes.md", "confirm.txt"):
    if os.path.exists(os.path.join(src, f)):
        shutil.copy(os.path.join(src, f), os.path.join(dst, f))
conf = open(os.path.join(src, "confirm.txt")).read() if os.path.exists(os.path.join(src, "confirm.txt")) else ""
meta = {
    "property": prop, "name": name,
    "needs_to_manifest": needs,
    "origin": "independent sub-agent given only the property text and a scratch worktree of /repo",
    "confirmed_by": "tools/confirm_seed.sh in the scratch worktree: patch applies to /repo HEAD; pinned sync_test/async_test/doctests pass with the change; "
                    "tests/seed_demo.rs passes without the change and fails with it (output in confirm.txt)",
    "detected_by": {},
}
mp = os.path.join(dst, "meta.json")
if os.path.exists(mp):
    old = json.load(open(mp))
    meta["detected_by"] = old.get("detected_by", {})
json.dump(meta, open(mp, "w"), indent=1)
subprocess.run(["git", "-C", "/repo", "worktree", "remove", "--force", "/tmp/wt/" + name])
print("kept", name)
