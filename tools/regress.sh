#!/bin/bash
# regress.sh: every kept seeded change, own mutant and harmless control against the quick check of its property.
# Applies each patch to /repo, runs the check, reverts straight afterwards.  Output: one line per patch.
cd /verif
out=${1:-/verif/.cache/regress.txt}; : > $out
run() { # name patch prop expect
  git -C /repo status --porcelain | grep -q . && { echo "/repo not clean" | tee -a $out; exit 2; }
  git -C /repo apply /verif/$2 || { echo "$1 DOES-NOT-APPLY" | tee -a $out; return; }
  timeout 3000 ./check $3 --tier quick > /tmp/regress_one.out 2>&1; rc=$?
  git -C /repo checkout -- .
  v=$(grep -E "^VIOLATION" /tmp/regress_one.out | head -1)
  echo "$1 prop=$3 expect=$4 rc=$rc ${v}" | tee -a $out
}
for d in seeded/*/; do n=$(basename $d); p=$(python3 -c "import json;print(json.load(open('$d/meta.json'))['property'])"); run $n $d/patch.diff $p violation; done
for f in mutants/*.diff; do n=$(basename $f .diff); p=$(python3 -c "import json;print(json.load(open('mutants/index.json'))['$n']['property'])" 2>/dev/null); run $n $f $p violation; done
for f in controls/*.diff; do n=$(basename $f .diff); for p in $(python3 -c "import json;print(' '.join(json.load(open('controls/index.json'))['$n']['properties']))" 2>/dev/null); do run $n $f $p ok; done; done
