#!/bin/bash
# try_ctl.sh <patch>...: apply each harmless patch to /repo, run all 20 quick checks, revert; print the alarms
cd /verif
for p in "$@"; do
  git -C /repo status --porcelain | grep -q . && { echo "/repo not clean"; exit 2; }
  git -C /repo apply $p || { echo "$p DOES-NOT-APPLY"; continue; }
  ./check C18 >/dev/null 2>&1
  res=$(printf "%s\n" C01 C02 C03 C04 C05 C06 C07 C08 C09 C10 C11 C12 C13 C14 C15 C16 C17 C18 C19 C20 | xargs -P 6 -I{} sh -c './check {} --tier quick 2>&1 | grep -E "^VIOLATION|^OK" | tail -1' | grep VIOLATION | tr '\n' ';')
  git -C /repo checkout -- .
  echo "$p alarms: ${res:-none}"
done
