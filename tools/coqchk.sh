#!/bin/bash
# coqchk.sh [module ...]: re-check the compiled development with Coq's independent checker and print the
# axioms it relies on.  Default: all twenty props modules together (about 40 s).
cd /verif/coq
mods="$@"
[ -z "$mods" ] && mods=$(for i in $(seq -w 1 20); do echo KV.props.C$i; done)
timeout 3000 coqchk -silent -o -Q theories KV $mods 2>&1 | tail -14
